(* C12 (Colang 2.x) - static closedness of the modelled expansions (V2/Expand.v), for source
   trees of any nesting: every label an expanded element refers to is defined in the same
   expansion (or is the continue/break label handed down by the enclosing loop), every
   MergeHeads has its ForkHead, no composite element is produced. *)
From Coq Require Import List String Ascii Bool Arith Lia.
From NG Require Import V2.ClosedAst V2.Closed V2.Closed_proofs V2.Expand.
Import ListNotations.
Open Scope string_scope.
Open Scope list_scope.

Definition defs (es : list elem) : list string :=
  flat_map (fun e => match e with ELabel n => [n] | _ => [] end) es.
Definition forks (es : list elem) : list string :=
  flat_map (fun e => match e with EFork u _ => [u] | _ => [] end) es.
Definition merges (es : list elem) : list string :=
  flat_map (fun e => match e with EMerge u => [u] | _ => [] end) es.
Definition refs (es : list elem) : list string := flat_map elem_labels es.
Definition cbl (cb : cb_t) : list string := match cb with Some (a, b) => [a; b] | None => [] end.

(* closed relative to labels L and fork uids M provided by the context *)
Definition good (L M : list string) (es : list elem) : Prop :=
  (forall x, In x (refs es) -> In x (defs es) \/ In x L) /\
  (forall x, In x (merges es) -> In x (forks es) \/ In x M) /\
  no_compositeb es = true.

Lemma defs_app a b : defs (a ++ b) = defs a ++ defs b.
Proof. apply flat_map_app. Qed.
Lemma forks_app a b : forks (a ++ b) = forks a ++ forks b.
Proof. apply flat_map_app. Qed.
Lemma merges_app a b : merges (a ++ b) = merges a ++ merges b.
Proof. apply flat_map_app. Qed.
Lemma refs_app a b : refs (a ++ b) = refs a ++ refs b.
Proof. apply flat_map_app. Qed.
Lemma nocomp_app a b : no_compositeb (a ++ b) = no_compositeb a && no_compositeb b.
Proof. apply forallb_app. Qed.
Lemma defs_cons e a : defs (e :: a) = defs [e] ++ defs a.
Proof. change (e :: a) with ([e] ++ a). apply defs_app. Qed.
Lemma forks_cons e a : forks (e :: a) = forks [e] ++ forks a.
Proof. change (e :: a) with ([e] ++ a). apply forks_app. Qed.
Lemma merges_cons e a : merges (e :: a) = merges [e] ++ merges a.
Proof. change (e :: a) with ([e] ++ a). apply merges_app. Qed.
Lemma refs_cons e a : refs (e :: a) = refs [e] ++ refs a.
Proof. change (e :: a) with ([e] ++ a). apply refs_app. Qed.

Lemma good_nil L M : good L M [].
Proof. repeat split; intros x []. Qed.

Lemma good_app L M a b : good L M a -> good L M b -> good L M (a ++ b).
Proof.
  intros [Ra [Ma Ca]] [Rb [Mb Cb]]. split; [|split].
  - intros x. rewrite refs_app, defs_app, !in_app_iff. intros [H|H]; [destruct (Ra x H)|destruct (Rb x H)]; auto.
  - intros x. rewrite merges_app, forks_app, !in_app_iff. intros [H|H]; [destruct (Ma x H)|destruct (Mb x H)]; auto.
  - rewrite nocomp_app, Ca, Cb. reflexivity.
Qed.

Lemma good_mono L M L' M' es : incl L L' -> incl M M' -> good L M es -> good L' M' es.
Proof.
  intros HL HM [R [Mg Cc]]. split; [|split]; [| |exact Cc].
  - intros x H. destruct (R x H); auto.
  - intros x H. destruct (Mg x H); auto.
Qed.

(* wrapping: `pre ++ mid ++ post` where mid is good relative to what pre/post define *)
Lemma good_wrap L M pre mid post :
  good (defs pre ++ defs post ++ L) (forks pre ++ forks post ++ M) mid ->
  good (defs mid ++ defs post ++ L) (forks mid ++ forks post ++ M) pre ->
  good (defs pre ++ defs mid ++ L) (forks pre ++ forks mid ++ M) post ->
  good L M (pre ++ mid ++ post).
Proof.
  intros [R1 [M1 C1]] [R2 [M2 C2]] [R3 [M3 C3]]. split; [|split].
  - intros x. rewrite !refs_app, !defs_app, !in_app_iff. intros [H|[H|H]].
    + specialize (R2 x H). rewrite !in_app_iff in R2. tauto.
    + specialize (R1 x H). rewrite !in_app_iff in R1. tauto.
    + specialize (R3 x H). rewrite !in_app_iff in R3. tauto.
  - intros x. rewrite !merges_app, !forks_app, !in_app_iff. intros [H|[H|H]].
    + specialize (M2 x H). rewrite !in_app_iff in M2. tauto.
    + specialize (M1 x H). rewrite !in_app_iff in M1. tauto.
    + specialize (M3 x H). rewrite !in_app_iff in M3. tauto.
  - rewrite !nocomp_app, C1, C2, C3. reflexivity.
Qed.

(* concrete element lists: decide by computation of the (small) name lists *)
Ltac in_solve :=
  let x := fresh "x" in let Hx := fresh "Hx" in
  intros x Hx; cbn in Hx |- *; rewrite ?in_app_iff in Hx; rewrite ?in_app_iff;
  cbn in Hx |- *; intuition (subst; auto 20).
Ltac good_concrete := split; [|split]; [in_solve | in_solve | reflexivity].

(* ---- groups ---- *)
Lemma group_body_good L M en gs :
  In en L -> good L M (group_body en gs).
Proof.
  intros Hen. unfold group_body. induction gs as [|g r IH]; [apply good_nil|].
  cbn [flat_map]. apply good_app; [|exact IH]. good_concrete.
Qed.

Lemma group_body_defs en gs : defs (group_body en gs) = gs.
Proof. unfold group_body. induction gs as [|g r IH]; [reflexivity|]. cbn [flat_map]. rewrite defs_app, IH. reflexivity. Qed.

Lemma and_group_good L M p n : good L M (and_group p n).
Proof.
  unfold and_group. cbv zeta. generalize (group_labels p n) as gs; intro gs. apply good_wrap.
  - apply group_body_good. cbn. auto 10.
  - rewrite group_body_defs. good_concrete.
  - good_concrete.
Qed.

(* closing: labels D / fork uids F that the element list itself provides *)
Lemma good_close D F L M es :
  good (D ++ L) (F ++ M) es -> incl D (defs es) -> incl F (forks es) -> good L M es.
Proof.
  intros [R [Mg Cc]] HD HF. split; [|split]; [| |exact Cc].
  - intros x H. destruct (R x H) as [H1|H1]; [auto|]. apply in_app_iff in H1. destruct H1; auto.
  - intros x H. destruct (Mg x H) as [H1|H1]; [auto|]. apply in_app_iff in H1. destruct H1; auto.
Qed.

Lemma good_cons L M e es : good L M [e] -> good L M es -> good L M (e :: es).
Proof. intros H1 H2. change (e :: es) with ([e] ++ es). now apply good_app. Qed.

(* membership in defs/forks of a partly abstract list *)
Ltac incl_solve :=
  let x := fresh "x" in let Hx := fresh "Hx" in
  intros x Hx; unfold defs, forks; cbn [flat_map app];
  repeat (progress (rewrite ?flat_map_app; cbn [flat_map app]));
  rewrite ?in_app_iff; cbn in Hx |- *; repeat (progress (rewrite ?in_app_iff; cbn));
  intuition (subst; auto 20).

(* ---- starts / match_all / or-structures: self-contained blocks ---- *)
Lemma start_atom_good L M a : good L M (start_atom a).
Proof. destruct a; good_concrete. Qed.

Lemma starts_good L M g : good L M (starts g).
Proof.
  unfold starts. induction g as [|a r IH]; [apply good_nil|].
  cbn [flat_map]. apply good_app; [apply start_atom_good|exact IH].
Qed.

Lemma match_all_good L M p tag i k : good L M (match_all p tag i k).
Proof. unfold match_all. destruct (k <=? 1)%nat; [good_concrete|apply and_group_good]. Qed.

Lemma x_activate_good L M n : good L M (x_activate n).
Proof. induction n as [|n IH]; [apply good_nil|]. cbn [x_activate]. apply good_app; [good_concrete|exact IH]. Qed.

Lemma or_branches_good L M sc p bodies : forall i,
  In (or_N sc p) L -> (forall b, In b bodies -> good L M b) -> good L M (or_branches sc p i bodies).
Proof.
  induction bodies as [|b r IH]; intros i HN Hb; [apply good_nil|].
  cbn [or_branches]. apply good_cons; [good_concrete|].
  apply good_app; [apply Hb; now left|].
  apply good_cons; [|apply IH; [exact HN|intros; apply Hb; now right]].
  split; [|split]; [|intros x []|reflexivity]. intros x [<-|[]]. now right.
Qed.

Lemma or_branches_labels sc p bodies : forall i,
  incl (map (or_G sc p) (seq i (List.length bodies))) (defs (or_branches sc p i bodies)).
Proof.
  induction bodies as [|b r IH]; intros i; [intros x []|].
  cbn [or_branches List.length seq map]. intros x [<-|Hx].
  - rewrite defs_cons. apply in_or_app. left. cbn. auto.
  - rewrite defs_cons, defs_app, defs_cons. apply in_or_app. right. apply in_or_app. right.
    apply in_or_app. right. now apply IH.
Qed.

Lemma or_struct_good L M sc p bodies :
  (forall b, In b bodies -> good [] [] b) -> good L M (or_struct sc p bodies).
Proof.
  intros Hb. unfold or_struct.
  pose proof (or_branches_labels sc p bodies 0) as HG. revert HG.
  assert (HB : good (or_F sc p :: or_N sc p :: map (or_G sc p) (seq 0 (List.length bodies)) ++ L) (or_K sc p :: M)
                    (or_branches sc p 0 bodies)).
  { apply or_branches_good; [right; now left|]. intros b Hin.
    eapply good_mono; [| |apply Hb; exact Hin]; intros x []. }
  revert HB. generalize (or_branches sc p 0 bodies) as BR.
  generalize (map (or_G sc p) (seq 0 (List.length bodies))) as gls. intros gls BR HB HG.
  apply (good_close (or_F sc p :: or_N sc p :: gls) [or_K sc p]).
  - apply good_app; [destruct sc; good_concrete|]. apply good_app; [|apply good_app].
    + split; [|split]; [|intros x []|reflexivity].
      intros x Hx. cbn in Hx. rewrite app_nil_r in Hx. right. rewrite in_app_iff. left.
      destruct Hx as [<-|Hx]; [now left|]. right; right. exact Hx.
    + eapply good_mono; [| |exact HB]; [intros x Hx; rewrite in_app_iff; cbn in *; rewrite in_app_iff in Hx; tauto
                                        |intros x Hx; rewrite in_app_iff; cbn in *; tauto].
    + unfold or_tail. destruct sc; good_concrete.
  - intros x Hx. rewrite !defs_app. rewrite !in_app_iff. destruct Hx as [<-|[<-|Hx]].
    + right; right; right. unfold or_tail. destruct sc; cbn; auto.
    + right; right; right. unfold or_tail. destruct sc; cbn; auto 10.
    + right; right; left. now apply HG.
  - intros x [<-|[]]. rewrite !forks_app, !in_app_iff. right; left. cbn. auto.
Qed.

Lemma mapi_from_in {A B} (f : nat -> A -> B) l : forall i y,
  In y (mapi_from f i l) -> exists j x, y = f j x.
Proof.
  induction l as [|x r IH]; intros i y H; [contradiction|].
  destruct H as [<-|H]; [eauto|eapply IH; eauto].
Qed.

Lemma x_match_good L M p ks : good L M (x_match p ks).
Proof.
  unfold x_match.
  assert (H : good L M (or_struct false p (mapi_from (fun i k => match_all p 6 i k) 0 ks))).
  { apply or_struct_good. intros b Hb. destruct (mapi_from_in _ _ _ _ Hb) as [j [k ->]]. apply match_all_good. }
  destruct ks as [|k [|k2 r]]; [exact H|apply match_all_good|exact H].
Qed.

Lemma x_start_good L M p gs : good L M (x_start p gs).
Proof.
  unfold x_start.
  assert (H : good L M (or_struct false p (map starts gs))).
  { apply or_struct_good. intros b Hb. apply in_map_iff in Hb. destruct Hb as [g [<- _]]. apply starts_good. }
  destruct gs as [|g [|g2 r]]; [exact H|apply starts_good|exact H].
Qed.

Lemma x_await_good L M p gs : good L M (x_await p gs).
Proof.
  unfold x_await.
  assert (H : good L M (or_struct true p (mapi_from (fun i g => starts g ++ match_all p 7 i (List.length g)) 0 gs))).
  { apply or_struct_good. intros b Hb. destruct (mapi_from_in _ _ _ _ Hb) as [j [g ->]].
    apply good_app; [apply starts_good|apply match_all_good]. }
  destruct gs as [|g [|g2 r]]; [exact H| |exact H].
  apply good_app; [apply starts_good|apply match_all_good].
Qed.

(* ---- induction principle for the nested type ---- *)
Section StmtInd.
  Variable P : stmt -> Prop.
  Hypothesis HPlain : P SPlain.
  Hypothesis HBlock : P SBlock.
  Hypothesis HBreak : P SBreak.
  Hypothesis HContinue : P SContinue.
  Hypothesis HReturn : P SReturn.
  Hypothesis HAbort : P SAbort.
  Hypothesis HIf : forall th el, Forall P th -> Forall P el -> P (SIf th el).
  Hypothesis HWhile : forall b, Forall P b -> P (SWhile b).
  Hypothesis HMatch : forall ks, P (SMatch ks).
  Hypothesis HStart : forall gs, P (SStart gs).
  Hypothesis HAwait : forall gs, P (SAwait gs).
  Hypothesis HActivate : forall n, P (SActivate n).
  Hypothesis HWhen : forall cases els,
      Forall (fun c => Forall P (snd c)) cases -> (forall el, els = Some el -> Forall P el) -> P (SWhen cases els).

  Fixpoint stmt_ind' (s : stmt) : P s :=
    let fl := fix fl (ss : list stmt) : Forall P ss :=
      match ss with
      | [] => Forall_nil P
      | s :: r => Forall_cons s (stmt_ind' s) (fl r)
      end in
    match s with
    | SPlain => HPlain | SBlock => HBlock | SBreak => HBreak | SContinue => HContinue
    | SReturn => HReturn | SAbort => HAbort
    | SIf th el => HIf th el (fl th) (fl el)
    | SWhile b => HWhile b (fl b)
    | SMatch ks => HMatch ks
    | SStart gs => HStart gs
    | SAwait gs => HAwait gs
    | SActivate n => HActivate n
    | SWhen cases els =>
        HWhen cases els
          ((fix fc (cs : list (list member * list stmt)) : Forall (fun c => Forall P (snd c)) cs :=
              match cs with
              | [] => Forall_nil _
              | c :: r => Forall_cons c (fl (snd c)) (fc r)
              end) cases)
          (match els as o return (forall el, o = Some el -> Forall P el) with
           | None => fun el H => match H in (_ = y) return (match y with None => True | Some _ => Forall P el end) with eq_refl => I end
           | Some el0 => fun el H => match H in (_ = y) return (match y with None => True | Some e => Forall P e end) with eq_refl => fl el0 end
           end)
    end.
End StmtInd.

(* ---- unfolding equations (the local fixes of xstmt are the top-level xlist / xcases) ---- *)
Lemma xstmt_if cb p th el :
  xstmt cb p (SIf th el) =
  match el with
  | [] => EGoto (if_D p) true :: xlist cb p 0 0 th ++ [ELabel (if_D p)]
  | _ => EGoto (if_E p) true :: xlist cb p 0 0 th
         ++ [EGoto (if_D p) false; ELabel (if_E p)] ++ xlist cb p 1 0 el ++ [ELabel (if_D p)]
  end.
Proof. reflexivity. Qed.

Lemma xstmt_while cb p body :
  xstmt cb p (SWhile body) =
  ELabel (wh_B p) :: EGoto (wh_D p) true
    :: xlist (Some (wh_B p, wh_D p)) p 2 0 body ++ [EGoto (wh_B p) false; ELabel (wh_D p)].
Proof. reflexivity. Qed.

Lemma xstmt_when cb p cases els :
  xstmt cb p (SWhen cases els) =
  EBegin (wn_S p)
    :: EFork (wn_K p) (map (cs_I p) (seq 0 (List.length cases)))
    :: xcases cb p 0 cases
    ++ when_tail p (match els with None => None | Some el => Some (xlist cb p 3 0 el) end).
Proof. reflexivity. Qed.

Lemma xcases_nil cb p i : xcases cb p i [] = [].
Proof. reflexivity. Qed.
Lemma xcases_cons cb p i tr body r :
  xcases cb p i ((tr, body) :: r) = when_case p i tr (xlist cb (p ++ [4; i]) 5 0 body) ++ xcases cb p (S i) r.
Proof. reflexivity. Qed.

Definition Pgood (s : stmt) : Prop := forall cb p, good (cbl cb) [] (xstmt cb p s).

Lemma xlist_good ss : Forall Pgood ss -> forall cb p t i, good (cbl cb) [] (xlist cb p t i ss).
Proof.
  induction 1 as [|s r Hs Hr IH]; intros cb p t i; [apply good_nil|].
  cbn [xlist]. apply good_app; [apply Hs|apply IH].
Qed.

Lemma case_pre_good L M tr : good L M (case_pre tr).
Proof.
  unfold case_pre. induction tr as [|m r IH]; [apply good_nil|]. cbn [flat_map].
  apply good_app; [|exact IH]. destruct m; [apply good_nil|apply start_atom_good|apply start_atom_good].
Qed.

Lemma when_case_good cb p i tr body :
  good (cbl cb) [] body ->
  good ([wn_D p; wn_E p] ++ cbl cb) [wn_K p] (when_case p i tr body).
Proof.
  intros Hb. unfold when_case.
  assert (HP : good ([cs_I p i; cs_F p i; cs_G p i; cs_C p i] ++ [wn_D p; wn_E p] ++ cbl cb)
                    ([cs_K p i] ++ [wn_K p]) (case_pre tr ++ match_all p 9 i (List.length tr)))
    by (apply good_app; [apply case_pre_good|apply match_all_good]).
  revert HP. generalize (case_pre tr ++ match_all p 9 i (List.length tr)) as MID. intros MID HP.
  apply (good_close [cs_I p i; cs_F p i; cs_G p i; cs_C p i] [cs_K p i]).
  - apply good_app; [good_concrete|]. apply good_app; [exact HP|].
    apply good_app; [good_concrete|]. apply good_app; [|good_concrete].
    eapply good_mono; [| |exact Hb].
    + intros x Hx. rewrite !in_app_iff. auto.
    + intros x [].
  - revert Hb. generalize body as B. intros B _. incl_solve.
  - revert Hb. generalize body as B. intros B _. incl_solve.
Qed.

Lemma xcases_good cb p cs :
  Forall (fun c => Forall Pgood (snd c)) cs -> forall i, good ([wn_D p; wn_E p] ++ cbl cb) [wn_K p] (xcases cb p i cs).
Proof.
  induction 1 as [|[tr c] r Hc Hr IH]; intros i; [rewrite xcases_nil; apply good_nil|]. cbn [snd] in Hc.
  rewrite xcases_cons. apply good_app; [|apply IH]. apply when_case_good. now apply xlist_good.
Qed.

Lemma xcases_inits cb p cs : forall i,
  incl (map (cs_I p) (seq i (List.length cs))) (defs (xcases cb p i cs)).
Proof.
  induction cs as [|[tr c] r IH]; intros i; [intros x []|].
  rewrite xcases_cons. cbn [List.length seq map]. rewrite defs_app. intros x [<-|Hx].
  - apply in_or_app. left. unfold when_case. cbn. auto.
  - apply in_or_app. right. now apply IH.
Qed.

Lemma when_tail_good cb p els :
  (forall el, els = Some el -> good (cbl cb) [] el) ->
  good (cbl cb) [] (when_tail p els) /\ incl [wn_D p; wn_E p] (defs (when_tail p els)).
Proof.
  intros Hel. unfold when_tail. destruct els as [el|].
  - specialize (Hel el eq_refl). split.
    + apply (good_close [wn_E p; wn_T p; wn_D p] []).
      * apply good_app; [good_concrete|]. apply good_app; [|good_concrete].
        apply good_app; [good_concrete|].
        eapply good_mono; [| |exact Hel]; [intros x Hx; rewrite !in_app_iff; auto|intros x []].
      * revert Hel. generalize el as B. intros B _. incl_solve.
      * intros x [].
    + revert Hel. generalize el as B. intros B _. incl_solve.
  - split; [|incl_solve].
    apply (good_close [wn_E p; wn_D p] []); [|incl_solve|intros x []].
    apply good_app; [good_concrete|]. apply good_app; good_concrete.
Qed.

Lemma xstmt_good : forall s, Pgood s.
Proof.
  apply stmt_ind'; unfold Pgood.
  - intros cb p. good_concrete.
  - intros cb p. good_concrete.
  - intros [[a b]|] p; good_concrete.
  - intros [[a b]|] p; good_concrete.
  - intros cb p. good_concrete.
  - intros cb p. good_concrete.
  - (* if *) intros th el Hth Hel cb p. rewrite xstmt_if.
    pose proof (xlist_good th Hth cb p 0 0) as HT. revert HT.
    generalize (xlist cb p 0 0 th) as TH. intros TH HT.
    destruct el as [|e0 el0].
    + apply (good_close [if_D p] []); [|incl_solve|intros x []].
      apply good_cons; [good_concrete|]. apply good_app; [|good_concrete].
      eapply good_mono; [| |exact HT]; [intros x Hx; rewrite !in_app_iff; auto|intros x []].
    + pose proof (xlist_good (e0 :: el0) Hel cb p 1 0) as HE. revert HE.
      generalize (xlist cb p 1 0 (e0 :: el0)) as EL. intros EL HE.
      apply (good_close [if_E p; if_D p] []); [|incl_solve|intros x []].
      apply good_cons; [good_concrete|]. apply good_app.
      * eapply good_mono; [| |exact HT]; [intros x Hx; rewrite !in_app_iff; auto|intros x []].
      * apply good_app; [good_concrete|]. apply good_app; [|good_concrete].
        eapply good_mono; [| |exact HE]; [intros x Hx; rewrite !in_app_iff; auto|intros x []].
  - (* while *) intros body Hb cb p. rewrite xstmt_while.
    pose proof (xlist_good body Hb (Some (wh_B p, wh_D p)) p 2 0) as HB. revert HB.
    generalize (xlist (Some (wh_B p, wh_D p)) p 2 0 body) as BD. intros BD HB.
    apply (good_close [wh_B p; wh_D p] []); [|incl_solve|intros x []].
    apply good_cons; [good_concrete|]. apply good_cons; [good_concrete|].
    apply good_app; [|good_concrete].
    eapply good_mono; [| |exact HB]; [|intros x []].
    intros x Hx. cbn in Hx. rewrite !in_app_iff. cbn. intuition.
  - intros ks cb p. apply x_match_good.
  - intros gs cb p. apply x_start_good.
  - intros gs cb p. apply x_await_good.
  - intros n cb p. apply x_activate_good.
  - (* when *) intros cases els Hc He cb p. rewrite xstmt_when.
    pose proof (xcases_good cb p cases Hc 0) as HX.
    pose proof (xcases_inits cb p cases 0) as HI.
    assert (HT : forall el', (match els with None => None | Some el => Some (xlist cb p 3 0 el) end) = Some el' ->
                            good (cbl cb) [] el').
    { intros el' H. destruct els as [el|]; [|discriminate]. injection H as <-.
      apply xlist_good. now apply He. }
    destruct (when_tail_good cb p _ HT) as [HTg HTd]. revert HTg HTd.
    generalize (when_tail p (match els with None => None | Some el => Some (xlist cb p 3 0 el) end)) as TL.
    revert HX HI. generalize (xcases cb p 0 cases) as XC.
    generalize (map (cs_I p) (seq 0 (List.length cases))) as inits.
    intros inits XC HX HI TL HTg HTd.
    change (EBegin (wn_S p) :: EFork (wn_K p) inits :: XC ++ TL)
      with ([EBegin (wn_S p); EFork (wn_K p) inits] ++ XC ++ TL).
    apply good_wrap.
    + eapply good_mono; [| |exact HX].
      * intros x Hx. rewrite !in_app_iff in *. destruct Hx as [Hx|Hx]; [|auto].
        right. left. apply HTd. exact Hx.
      * intros x Hx. rewrite !in_app_iff. left. cbn in *. intuition.
    + split; [|split]; [| |reflexivity].
      * intros x Hx. cbn in Hx. rewrite app_nil_r in Hx. right. rewrite !in_app_iff. left. now apply HI.
      * intros x Hx. cbn in Hx. contradiction.
    + eapply good_mono; [| |exact HTg]; [intros x Hx; rewrite !in_app_iff; auto|intros x []].
Qed.

(* ---- from `good` to the checker's static conditions ---- *)
Lemma lbl_from_defined l es : forall i, In l (defs es) -> lbl_from l es i <> None.
Proof.
  induction es as [|e r IH]; intros i Hin; [contradiction|].
  cbn [lbl_from]. destruct (lbl_from l r (S i)) eqn:Hr; [discriminate|].
  rewrite defs_cons in Hin. apply in_app_iff in Hin. destruct Hin as [Hin|Hin].
  - destruct e; cbn in Hin; try contradiction. destruct Hin as [->|[]]. now rewrite String.eqb_refl.
  - exfalso. exact (IH (S i) Hin Hr).
Qed.

Lemma good_labels_okb es : good [] [] es -> labels_okb es = true.
Proof.
  intros [R _]. unfold labels_okb. apply forallb_forall. intros e He.
  apply forallb_forall. intros l Hl. unfold definedb, lbl.
  destruct (lbl_from l es 0) eqn:Hlb; [reflexivity|]. exfalso.
  assert (Hin : In l (refs es)) by (unfold refs; apply in_flat_map; eauto).
  destruct (R l Hin) as [Hd|[]]. exact (lbl_from_defined l es 0 Hd Hlb).
Qed.

Lemma good_merges_okb es : good [] [] es -> merges_okb es = true.
Proof.
  intros [_ [Mg _]]. unfold merges_okb. apply forallb_forall. intros e He.
  destruct e; try reflexivity. unfold has_fork.
  assert (Hin : In uid (merges es)) by (unfold merges; apply in_flat_map; exists (EMerge uid); cbn; auto).
  destruct (Mg uid Hin) as [Hf|[]]. unfold forks in Hf. apply in_flat_map in Hf.
  destruct Hf as [e' [He' Hu]]. apply existsb_exists. exists e'. split; [exact He'|].
  destruct e'; cbn in Hu; try contradiction. destruct Hu as [->|[]]. apply String.eqb_refl.
Qed.

(* C12 for the modelled expansions, static part: for source trees of ANY nesting every label a
   Goto / ForkHead / CatchPatternFailure / Break / Continue refers to is defined in the expanded
   flow, every MergeHeads has its ForkHead, only primitives remain.  (Scope balance along paths
   of the expansion is validated per program by closedb - see Expand.v examples and the harness.) *)
Theorem expand_static_closed ss :
  labels_okb (expand ss) = true /\ no_compositeb (expand ss) = true /\ merges_okb (expand ss) = true.
Proof.
  assert (G : good [] [] (expand ss)).
  { unfold expand. apply good_cons; [good_concrete|].
    apply (xlist_good ss) with (cb := None). apply Forall_forall. intros s _. apply xstmt_good. }
  split; [now apply good_labels_okb|]. split; [apply G|now apply good_merges_okb].
Qed.

(* consequence through the checker's soundness: the referenced labels are positions of the flow *)
Corollary expand_labels_exist ss :
  forall i e l, nth_error (expand ss) i = Some e -> In l (elem_labels e) ->
                exists k, k < List.length (expand ss) /\ nth_error (expand ss) k = Some (ELabel l).
Proof. apply labels_okb_sound. apply expand_static_closed. Qed.

(* ---- loop exits: in a source where break/continue occur only inside loops, every expanded
        Break / Continue carries the label of its loop ---- *)
Definition is_some (cb : cb_t) : bool := match cb with Some _ => true | None => false end.

Lemma wf_if inl th el : wf_loops inl (SIf th el) = wf_list inl th && wf_list inl el.
Proof. reflexivity. Qed.
Lemma wf_while inl b : wf_loops inl (SWhile b) = wf_list true b.
Proof. reflexivity. Qed.
Lemma wf_when inl cases els :
  wf_loops inl (SWhen cases els) =
  wf_cases inl cases && match els with None => true | Some el => wf_list inl el end.
Proof. reflexivity. Qed.

Lemma wf_cases_cons inl tr c r : wf_cases inl ((tr, c) :: r) = wf_list inl c && wf_cases inl r.
Proof. reflexivity. Qed.

Lemma lx_app a b : loop_exits_okb (a ++ b) = loop_exits_okb a && loop_exits_okb b.
Proof. apply forallb_app. Qed.

Definition Plx (s : stmt) : Prop :=
  forall cb p, wf_loops (is_some cb) s = true -> loop_exits_okb (xstmt cb p s) = true.

Lemma xlist_lx ss : Forall Plx ss ->
  forall cb p t i, wf_list (is_some cb) ss = true -> loop_exits_okb (xlist cb p t i ss) = true.
Proof.
  induction 1 as [|s r Hs Hr IH]; intros cb p t i Hw; [reflexivity|].
  cbn [xlist wf_list] in *. apply andb_true_iff in Hw. destruct Hw as [H1 H2].
  rewrite lx_app, (Hs cb _ H1), (IH cb p t (S i) H2). reflexivity.
Qed.

Lemma group_body_lx en gs : loop_exits_okb (group_body en gs) = true.
Proof. unfold group_body. induction gs as [|g r IH]; [reflexivity|]. cbn [flat_map]. rewrite lx_app, IH. reflexivity. Qed.

Lemma and_group_lx p n : loop_exits_okb (and_group p n) = true.
Proof. unfold and_group. cbv zeta. rewrite !lx_app, group_body_lx. reflexivity. Qed.

Lemma match_all_lx p tag i k : loop_exits_okb (match_all p tag i k) = true.
Proof. unfold match_all. destruct (k <=? 1)%nat; [reflexivity|apply and_group_lx]. Qed.

Lemma starts_lx g : loop_exits_okb (starts g) = true.
Proof.
  unfold starts. induction g as [|a r IH]; [reflexivity|]. cbn [flat_map].
  rewrite lx_app, IH. destruct a; reflexivity.
Qed.

Lemma x_activate_lx n : loop_exits_okb (x_activate n) = true.
Proof. induction n as [|n IH]; [reflexivity|]. cbn [x_activate]. rewrite lx_app, IH. reflexivity. Qed.

Lemma or_branches_lx sc p bodies : forall i,
  (forall b, In b bodies -> loop_exits_okb b = true) -> loop_exits_okb (or_branches sc p i bodies) = true.
Proof.
  induction bodies as [|b r IH]; intros i Hb; [reflexivity|].
  cbn [or_branches]. change (ELabel (or_G sc p i) :: b ++ EGoto (or_N sc p) false :: or_branches sc p (S i) r)
    with ([ELabel (or_G sc p i)] ++ b ++ [EGoto (or_N sc p) false] ++ or_branches sc p (S i) r).
  rewrite !lx_app, (Hb b (or_introl eq_refl)), IH; [reflexivity|]. intros; apply Hb; now right.
Qed.

Lemma or_struct_lx sc p bodies :
  (forall b, In b bodies -> loop_exits_okb b = true) -> loop_exits_okb (or_struct sc p bodies) = true.
Proof.
  intros Hb. unfold or_struct. rewrite !lx_app, (or_branches_lx sc p bodies 0 Hb).
  unfold or_tail. destruct sc; reflexivity.
Qed.

Lemma x_match_lx p ks : loop_exits_okb (x_match p ks) = true.
Proof.
  unfold x_match.
  assert (H : loop_exits_okb (or_struct false p (mapi_from (fun i k => match_all p 6 i k) 0 ks)) = true).
  { apply or_struct_lx. intros b Hb. destruct (mapi_from_in _ _ _ _ Hb) as [j [k ->]]. apply match_all_lx. }
  destruct ks as [|k [|k2 r]]; [exact H|apply match_all_lx|exact H].
Qed.

Lemma x_start_lx p gs : loop_exits_okb (x_start p gs) = true.
Proof.
  unfold x_start.
  assert (H : loop_exits_okb (or_struct false p (map starts gs)) = true).
  { apply or_struct_lx. intros b Hb. apply in_map_iff in Hb. destruct Hb as [g [<- _]]. apply starts_lx. }
  destruct gs as [|g [|g2 r]]; [exact H|apply starts_lx|exact H].
Qed.

Lemma x_await_lx p gs : loop_exits_okb (x_await p gs) = true.
Proof.
  unfold x_await.
  assert (H : loop_exits_okb (or_struct true p (mapi_from (fun i g => starts g ++ match_all p 7 i (List.length g)) 0 gs)) = true).
  { apply or_struct_lx. intros b Hb. destruct (mapi_from_in _ _ _ _ Hb) as [j [g ->]].
    rewrite lx_app, starts_lx, match_all_lx. reflexivity. }
  destruct gs as [|g [|g2 r]]; [exact H| |exact H].
  rewrite lx_app, starts_lx, match_all_lx. reflexivity.
Qed.

Lemma case_pre_lx tr : loop_exits_okb (case_pre tr) = true.
Proof.
  unfold case_pre. induction tr as [|m r IH]; [reflexivity|]. cbn [flat_map].
  rewrite lx_app, IH. destruct m; reflexivity.
Qed.

Lemma xcases_lx cb p cs : Forall (fun c => Forall Plx (snd c)) cs ->
  forall i, wf_cases (is_some cb) cs = true -> loop_exits_okb (xcases cb p i cs) = true.
Proof.
  induction 1 as [|[tr c] r Hc Hr IH]; intros i Hw; [reflexivity|]. cbn [snd] in Hc.
  rewrite xcases_cons. rewrite wf_cases_cons in Hw. apply andb_true_iff in Hw. destruct Hw as [H1 H2].
  rewrite lx_app, (IH (S i) H2), andb_true_r. unfold when_case.
  rewrite !lx_app, (xlist_lx c Hc cb _ 5 0 H1), match_all_lx, case_pre_lx. reflexivity.
Qed.

Lemma lx_cons e es : loop_exits_okb (e :: es) = loop_exits_okb [e] && loop_exits_okb es.
Proof. change (e :: es) with ([e] ++ es). apply lx_app. Qed.

Lemma xstmt_lx : forall s, Plx s.
Proof.
  apply stmt_ind'; unfold Plx.
  - reflexivity.
  - reflexivity.
  - intros [[a b]|] p H; [reflexivity|discriminate H].
  - intros [[a b]|] p H; [reflexivity|discriminate H].
  - reflexivity.
  - reflexivity.
  - intros th el Hth Hel cb p Hw. rewrite wf_if in Hw. apply andb_true_iff in Hw. destruct Hw as [H1 H2].
    rewrite xstmt_if. pose proof (xlist_lx th Hth cb p 0 0 H1) as HT.
    destruct el as [|e0 el0].
    + rewrite lx_cons, lx_app, HT. reflexivity.
    + pose proof (xlist_lx (e0 :: el0) Hel cb p 1 0 H2) as HE.
      rewrite lx_cons, !lx_app, HT, HE. reflexivity.
  - intros body Hb cb p Hw. rewrite wf_while in Hw. rewrite xstmt_while.
    pose proof (xlist_lx body Hb (Some (wh_B p, wh_D p)) p 2 0 Hw) as HB.
    rewrite lx_cons, (lx_cons (EGoto _ _)), lx_app, HB. reflexivity.
  - intros ks cb p _. apply x_match_lx.
  - intros gs cb p _. apply x_start_lx.
  - intros gs cb p _. apply x_await_lx.
  - intros n cb p _. apply x_activate_lx.
  - intros cases els Hc He cb p Hw. rewrite wf_when in Hw. apply andb_true_iff in Hw. destruct Hw as [H1 H2].
    rewrite xstmt_when. rewrite lx_cons, (lx_cons (EFork _ _)), lx_app, (xcases_lx cb p cases Hc 0 H1).
    unfold when_tail. destruct els as [el|].
    + rewrite !lx_app, (xlist_lx el (He el eq_refl) cb _ 3 0 H2). reflexivity.
    + reflexivity.
Qed.

Theorem expand_loop_exits ss : wf_list false ss = true -> loop_exits_okb (expand ss) = true.
Proof.
  intros Hw. unfold expand. cbn [loop_exits_okb forallb].
  apply (xlist_lx ss) with (cb := None); [|exact Hw].
  apply Forall_forall. intros s _. apply xstmt_lx.
Qed.
