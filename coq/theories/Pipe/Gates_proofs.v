(* Pipe.Gates_proofs - the statements of C01 / C02 about the pipeline models, proved from the
   lemmas of Rails_proofs / TurnV1_proofs / TurnV2_proofs.  Props/C01.v and Props/C02.v only
   re-export these. *)
From Coq Require Import List String Bool Arith Lia.
From NG Require Import Pipe.Rails Pipe.Rails_proofs Pipe.TurnV1 Pipe.TurnV1_proofs Pipe.TurnV2 Pipe.TurnV2_proofs.
Import ListNotations.
Open Scope list_scope.

Lemma rail_calls_none : forall s l, Forall (fun e => is_rail s e = false) l -> rail_calls s l = [].
Proof.
  intros s l H. induction H as [|e l He Hl IH]; [reflexivity|].
  simpl. destruct e; simpl in *; try exact IH. rewrite He. exact IH.
Qed.

(* "called in the configured order; each rail is shown the composition of the rewrites of its
   predecessors; nobody is called after a rejection" - spelled out *)
Definition ordered_calls (v : nat -> rail -> text -> verdict) (u : text) (rs : list rail)
           (calls : list (rail * text)) : Prop :=
  map fst calls = firstn (List.length calls) rs /\
  (forall r x rest, calls = (r, x) :: rest -> x = u) /\
  (forall j r x r' x', nth_error calls j = Some (r, x) -> nth_error calls (S j) = Some (r', x') ->
                       v j r x <> Reject /\ x' = apply_verdict (v j r x) x) /\
  (forall j r x, nth_error calls j = Some (r, x) -> v j r x = Reject -> List.length calls = S j) /\
  ((forall j r x, nth_error calls j = Some (r, x) -> v j r x <> Reject) -> map fst calls = rs).

Lemma chain_ordered : forall v u rs calls, chain v 0 u rs calls -> ordered_calls v u rs calls.
Proof.
  intros v u rs calls H. unfold ordered_calls. repeat split.
  - eapply chain_prefix; eauto.
  - intros r x rest ->. eapply chain_first; eauto.
  - destruct (chain_step v rs 0 u calls j r x r' x' H H0 H1) as [Ha _]. exact Ha.
  - destruct (chain_step v rs 0 u calls j r x r' x' H H0 H1) as [_ Hb]. exact Hb.
  - intros j r x Hj Hr. eapply chain_reject_last with (c := 0); eauto.
  - intros Hn. eapply chain_complete with (c := 0); eauto.
Qed.

(* the trace splits into the input-rail calls and a rest without any *)
Definition gate_first (tr : list tev) : Prop :=
  exists a b, tr = a ++ b /\ Forall (fun e => is_in_rail e = true) a /\
              Forall (fun e => is_in_rail e = false) b.

(* every input-rail call precedes every LLM call / released user message / bot message *)
Lemma gate_first_order :
  forall tr, gate_first tr ->
  forall i j e1 e2, nth_error tr i = Some e1 -> nth_error tr j = Some e2 ->
                    is_in_rail e1 = true -> is_in_rail e2 = false -> i < j.
Proof.
  intros tr (a & b & -> & Ha & Hb) i j e1 e2 Hi Hj H1 H2.
  assert (Hia : i < List.length a).
  { destruct (Nat.lt_ge_cases i (List.length a)) as [|Hge]; [assumption|].
    rewrite nth_error_app2 in Hi by exact Hge. apply nth_error_In in Hi.
    rewrite Forall_forall in Hb. rewrite (Hb _ Hi) in H1. discriminate. }
  assert (Hjb : List.length a <= j).
  { destruct (Nat.lt_ge_cases j (List.length a)) as [Hlt|]; [|assumption].
    rewrite nth_error_app1 in Hj by exact Hlt. apply nth_error_In in Hj.
    rewrite Forall_forall in Ha. rewrite (Ha _ Hj) in H2. discriminate. }
  lia.
Qed.

Lemma first_split_unique :
  forall (P : tev -> bool) a1 x1 b1 a2 x2 b2,
    a1 ++ x1 :: b1 = a2 ++ x2 :: b2 ->
    Forall (fun e => P e = false) a1 -> Forall (fun e => P e = false) a2 ->
    P x1 = true -> P x2 = true -> a1 = a2 /\ x1 = x2 /\ b1 = b2.
Proof.
  intros P a1. induction a1 as [|y a1 IH]; intros x1 b1 a2 x2 b2 He H1 H2 Hx1 Hx2.
  - destruct a2 as [|z a2]; simpl in He.
    + injection He as -> ->. auto.
    + injection He as -> Hb. apply Forall_inv in H2. congruence.
  - destruct a2 as [|z a2]; simpl in He.
    + injection He as -> Hb. apply Forall_inv in H1. congruence.
    + injection He as -> Hb.
      pose proof (Forall_inv_tail H1) as T1. pose proof (Forall_inv_tail H2) as T2.
      destruct (IH _ _ _ _ _ Hb T1 T2 Hx1 Hx2) as (-> & -> & ->). auto.
Qed.

(* ======================================================================= Colang 1.0 *)
Section V1.
  Variable vf : nat -> nat -> rail -> text -> verdict.
  Variable llm : nat -> nat -> prompt -> text.
  Variable post_general : text -> text.
  Variable intent_step : nat -> text -> dstep.
  Variable next_of : text -> string.
  Variable predefined : string -> option text.
  Variable msg_of : text -> text.
  Variable refusal : text.

  Notation process_bot := (process_bot vf refusal).
  Notation after_input := (after_input vf llm post_general intent_step next_of predefined msg_of refusal).
  Notation turn_v1 := (turn_v1 vf llm post_general intent_step next_of predefined msg_of refusal).
  Notation conv_v1 := (conv_v1 vf llm post_general intent_step next_of predefined msg_of refusal).
  Notation rest_of_turn := (rest_of_turn vf llm post_general intent_step next_of predefined msg_of refusal).
  Notation reachable := (reachable vf llm post_general intent_step next_of predefined msg_of refusal).
  Notation block_tail := (block_tail refusal).
  Notation block_reply := (block_reply refusal).

  (* the decomposition every proof below starts from *)
  Lemma turn_v1_parts :
    forall cf st u,
    exists calls c res st1 tr2 rp,
      run_rails (vf (tidx st)) SIn (irails cf) 0 u = (map (mk SIn) calls, c, res) /\
      chain (vf (tidx st)) 0 u (irails cf) calls /\ c = List.length calls /\
      rres_ok (vf (tidx st)) 0 u (irails cf) calls res /\
      after_input cf (set_user st u) c res = (st1, tr2, rp) /\
      snd (fst (turn_v1 cf st u)) = map (mk SIn) calls ++ tr2 /\
      snd (turn_v1 cf st u) = rp /\
      Forall (fun e => is_in_rail e = false) tr2.
  Proof.
    intros cf st u.
    destruct (run_rails (vf (tidx st)) SIn (irails cf) 0 u) as [[trI c] res] eqn:Hr.
    destruct (run_rails_shape _ _ _ _ _ _ _ _ Hr) as (calls & -> & Hch & Hc & Hres).
    destruct (after_input cf (set_user st u) c res) as [[st1 tr2] rp] eqn:Ha.
    exists calls, c, res, st1, tr2, rp.
    rewrite turn_v1_unfold, Hr, Ha. simpl. repeat split; auto.
    eapply after_input_no_in_rail; eauto.
  Qed.

  Lemma turn_v1_in_calls :
    forall cf st u calls tr2,
      snd (fst (turn_v1 cf st u)) = map (mk SIn) calls ++ tr2 ->
      Forall (fun e => is_in_rail e = false) tr2 ->
      rail_calls SIn (snd (fst (turn_v1 cf st u))) = calls.
  Proof.
    intros cf st u calls tr2 -> Hf.
    rewrite rail_calls_app, rail_calls_map_mk, (rail_calls_none SIn tr2 Hf). apply app_nil_r.
  Qed.

  (* C01_order *)
  Theorem v1_order :
    forall cf st u,
      ordered_calls (vf (tidx st)) u (irails cf) (rail_calls SIn (snd (fst (turn_v1 cf st u)))).
  Proof.
    intros cf st u.
    destruct (turn_v1_parts cf st u) as (calls & c & res & st1 & tr2 & rp & _ & Hch & _ & _ & _ & Htr & _ & Hf).
    rewrite (turn_v1_in_calls cf st u calls tr2 Htr Hf). apply chain_ordered. exact Hch.
  Qed.

  (* C01_before_dialog *)
  Theorem v1_before_dialog : forall cf st u, gate_first (snd (fst (turn_v1 cf st u))).
  Proof.
    intros cf st u.
    destruct (turn_v1_parts cf st u) as (calls & c & res & st1 & tr2 & rp & _ & _ & _ & _ & _ & Htr & _ & Hf).
    exists (map (mk SIn) calls), tr2. split; [exact Htr|]. split; [apply forall_map_mk_in|exact Hf].
  Qed.

  (* C01_reject_stops *)
  Theorem v1_reject_stops :
    forall cf st u j r x,
      let tr := snd (fst (turn_v1 cf st u)) in
      nth_error (rail_calls SIn tr) j = Some (r, x) -> vf (tidx st) j r x = Reject ->
      List.length (rail_calls SIn tr) = S j /\ llm_calls tr = [] /\ rail_calls SOut tr = [] /\
      snd (turn_v1 cf st u) = (if exceptions cf then RExc SIn r else RMsg [refusal]) /\
      emitted tr = (if exceptions cf then [] else [refusal]).
  Proof.
    intros cf st u j r x tr Hj Hrej. subst tr.
    destruct (turn_v1_parts cf st u) as (calls & c & res & st1 & tr2 & rp & _ & Hch & _ & Hres & Ha & Htr & Hrp & Hf).
    rewrite (turn_v1_in_calls cf st u calls tr2 Htr Hf) in *.
    assert (Hlen : List.length calls = S j) by (eapply chain_reject_last with (c := 0); eauto).
    split; [exact Hlen|].
    destruct res as [t'|r' x'].
    - exfalso. destruct Hres as (_ & _ & Hn). exact (Hn j r x Hj Hrej).
    - destruct Hres as (pre & Hcalls & _ & _).
      assert (r' = r).
      { subst calls. rewrite app_length in Hlen. simpl in Hlen.
        assert (List.length pre = j) by lia. subst j.
        rewrite nth_error_app2 in Hj by lia. rewrite Nat.sub_diag in Hj. simpl in Hj. congruence. }
      subst r'.
      unfold TurnV1.after_input in Ha. rewrite Htr, Hrp.
      rewrite llm_calls_app, llm_calls_map_mk, rail_calls_app, emitted_app, emitted_map_mk.
      rewrite (rail_calls_other_side SOut SIn) by discriminate.
      destruct (exceptions cf); inversion Ha; subst; simpl; auto.
  Qed.

  (* C01_rewrite_noninterference: two inputs that leave the input rails as the same text give the
     same prompts, the same output-rail calls, the same reply and the same next state *)
  Theorem v1_rewrite_noninterference :
    forall cf st u1 u2 um tr1 c1 tr2 c2,
      run_rails (vf (tidx st)) SIn (irails cf) 0 u1 = (tr1, c1, Passed um) ->
      run_rails (vf (tidx st)) SIn (irails cf) 0 u2 = (tr2, c2, Passed um) ->
      rest_of_turn cf st u1 = rest_of_turn cf st u2 /\
      llm_calls (snd (fst (turn_v1 cf st u1))) = llm_calls (snd (fst (turn_v1 cf st u2))) /\
      snd (turn_v1 cf st u1) = snd (turn_v1 cf st u2) /\
      fst (fst (turn_v1 cf st u1)) = fst (fst (turn_v1 cf st u2)).
  Proof.
    intros cf st u1 u2 um tr1 c1 tr2 c2 H1 H2.
    pose proof (run_rails_shape _ _ _ _ _ _ _ _ H1) as (calls1 & Ht1 & _ & Hc1 & (_ & Hm1 & _)).
    pose proof (run_rails_shape _ _ _ _ _ _ _ _ H2) as (calls2 & Ht2 & _ & Hc2 & (_ & Hm2 & _)).
    assert (Hc : c1 = c2).
    { rewrite Hc1, Hc2. f_equal. rewrite <- (map_length fst calls1), <- (map_length fst calls2), Hm1, Hm2. reflexivity. }
    try subst c2. try rewrite <- Hc in H2.
    assert (Ha : after_input cf (set_user st u1) c1 (Passed um) = after_input cf (set_user st u2) c1 (Passed um)).
    { unfold TurnV1.after_input. destruct (irails cf); reflexivity. }
    unfold TurnV1_proofs.rest_of_turn. rewrite !turn_v1_unfold, H1, H2. cbv beta iota zeta. rewrite Ha.
    destruct (after_input cf (set_user st u2) c1 (Passed um)) as [[st' tr] rp]. cbv beta iota zeta. cbn [fst snd].
    repeat split; auto.
    rewrite !llm_calls_app. subst tr1 tr2. rewrite !llm_calls_map_mk. reflexivity.
  Qed.

  (* C01_every_turn: the gate statements hold at every position of every conversation (they hold
     from EVERY state, so nothing a previous turn leaves behind can disable the gate) *)
  Definition gate_ok (cf : cfg) (st : pstate) (u : text) : Prop :=
    ordered_calls (vf (tidx st)) u (irails cf) (rail_calls SIn (snd (fst (turn_v1 cf st u)))) /\
    gate_first (snd (fst (turn_v1 cf st u))) /\
    (forall j r x, nth_error (rail_calls SIn (snd (fst (turn_v1 cf st u)))) j = Some (r, x) ->
                   vf (tidx st) j r x = Reject ->
                   llm_calls (snd (fst (turn_v1 cf st u))) = [] /\
                   snd (turn_v1 cf st u) = (if exceptions cf then RExc SIn r else RMsg [refusal])).

  Theorem v1_gate_any_state : forall cf st u, gate_ok cf st u.
  Proof.
    intros cf st u. split; [apply v1_order|]. split; [apply v1_before_dialog|].
    intros j r x Hj Hr. destruct (v1_reject_stops cf st u j r x Hj Hr) as (_ & Hl & _ & Hrp & _). auto.
  Qed.

  Fixpoint states_before (cf : cfg) (st : pstate) (us : list text) : list (pstate * text) :=
    match us with
    | [] => []
    | u :: us' => (st, u) :: states_before cf (fst (fst (turn_v1 cf st u))) us'
    end.

  Theorem v1_every_turn :
    forall cf us st, Forall (fun su => gate_ok cf (fst su) (snd su)) (states_before cf st us).
  Proof.
    intros cf us. induction us as [|u us IH]; intros st; simpl; constructor.
    - apply v1_gate_any_state.
    - apply IH.
  Qed.

  Lemma states_before_conv :
    forall cf us st,
      map (fun su => turn_v1 cf (fst su) (snd su)) (states_before cf st us) = conv_v1 cf st us.
  Proof. intros cf us. induction us as [|u us IH]; intros st; simpl; [reflexivity|]. f_equal. apply IH. Qed.

  (* ---------------------------------------------------------------- C02, Colang 1.0 *)

  (* what happens to the LLM-generated bot message of a turn (there is at most one) *)
  Definition out_gate (cf : cfg) (st : pstate) (tr : list tev) (rp : reply) : Prop :=
    Forall (fun e => is_from_llm e = false) tr
    \/
    exists a m trO res,
      Forall (fun e => is_from_llm e = false) a /\
      tr = a ++ TBot FromLLM m :: trO ++
           match res with Passed m' => [TEmit m'] | Blocked r _ => block_tail cf r end /\
      run_rails (vf (tidx st)) SOut (orails cf) (n_rail_calls a) m
      = (trO, n_rail_calls a + n_rail_calls trO, res) /\
      rp = match res with Passed m' => RMsg [m'] | Blocked r _ => block_reply cf SOut r end /\
      emitted tr = match res with
                   | Passed m' => [m']
                   | Blocked _ _ => if exceptions cf then [] else [refusal]
                   end.

  Lemma forall_not_llm_pre : forall pre, Forall (fun e => is_llm e = true) pre -> Forall (fun e => is_from_llm e = false) pre.
  Proof. intros pre H. eapply Forall_impl; [|exact H]. intros [] Ha; simpl in *; try discriminate; reflexivity. Qed.

  Lemma emitted_pre : forall pre, Forall (fun e => is_llm e = true) pre -> emitted pre = [].
  Proof.
    intros pre H. induction H as [|e l He Hl IH]; [reflexivity|].
    destruct e; simpl in *; try discriminate. exact IH.
  Qed.

  Lemma n_rail_calls_pre : forall pre, Forall (fun e => is_llm e = true) pre -> n_rail_calls pre = 0.
  Proof.
    intros pre H. induction H as [|e l He Hl IH]; [reflexivity|].
    destruct e; simpl in *; try discriminate. exact IH.
  Qed.

  Theorem v1_out_gate :
    forall cf st u, skip st = false ->
      out_gate cf st (snd (fst (turn_v1 cf st u))) (snd (turn_v1 cf st u)).
  Proof.
    intros cf st u Hs.
    destruct (turn_v1_parts cf st u) as (calls & c & res & st1 & tr2 & rp & _ & _ & Hc & _ & Ha & Htr & Hrp & _).
    rewrite Htr, Hrp. destruct res as [um|r x].
    - apply after_input_passed_spec in Ha; [|exact Hs].
      destruct Ha as (_ & pre & Hpre & [(m & -> & ->)|(m & trO & res & -> & Hr & ->)]).
      + left. apply Forall_app. split; [apply forall_map_mk_not_llm|].
        constructor; [reflexivity|]. apply Forall_app. split; [apply forall_not_llm_pre; exact Hpre|repeat constructor].
      + right. exists (map (mk SIn) calls ++ TUser um :: pre), m, trO, res.
        assert (Hn : n_rail_calls (map (mk SIn) calls ++ TUser um :: pre) = c).
        { rewrite n_rail_calls_app, n_rail_calls_map_mk. change (TUser um :: pre) with ([TUser um] ++ pre).
          rewrite n_rail_calls_app, (n_rail_calls_pre pre Hpre). simpl. unfold n_rail_calls. simpl. lia. }
        split.
        { apply Forall_app. split; [apply forall_map_mk_not_llm|]. constructor; [reflexivity|].
          apply forall_not_llm_pre; exact Hpre. }
        split; [rewrite <- app_assoc; reflexivity|].
        split; [rewrite Hn; exact Hr|]. split; [reflexivity|].
        pose proof (run_rails_shape _ _ _ _ _ _ _ _ Hr) as (callsO & -> & _).
        rewrite emitted_app, emitted_map_mk. simpl. rewrite emitted_app, (emitted_pre pre Hpre). simpl.
        rewrite emitted_app, emitted_map_mk. simpl.
        destruct res as [m'|r x]; [reflexivity|]. unfold TurnV1_proofs.block_tail.
        destruct (exceptions cf); reflexivity.
    - left. destruct (after_input_blocked vf llm post_general intent_step next_of predefined msg_of refusal
                                            cf (set_user st u) c r x Hs) as (st' & Hb & _).
      rewrite Hb in Ha. inversion Ha; subst.
      apply Forall_app. split; [apply forall_map_mk_not_llm|]. destruct (exceptions cf); repeat constructor.
  Qed.

  Lemma out_gate_decomposition :
    forall cf st u a m trO tail c' res,
      skip st = false ->
      snd (fst (turn_v1 cf st u)) = a ++ TBot FromLLM m :: trO ++ tail ->
      Forall (fun e => is_from_llm e = false) a ->
      run_rails (vf (tidx st)) SOut (orails cf) (n_rail_calls a) m = (trO, c', res) ->
      snd (turn_v1 cf st u) = match res with Passed m' => RMsg [m'] | Blocked r _ => block_reply cf SOut r end /\
      emitted (snd (fst (turn_v1 cf st u))) =
      match res with Passed m' => [m'] | Blocked _ _ => if exceptions cf then [] else [refusal] end.
  Proof.
    intros cf st u a m trO tail c' res Hs Htr Ha Hr.
    destruct (v1_out_gate cf st u Hs) as [Hn|(a' & m' & trO' & res' & Ha' & Htr' & Hr' & Hrp & Hem)].
    - exfalso. rewrite Htr in Hn. apply Forall_app in Hn. destruct Hn as [_ Hn]. inversion Hn; subst. discriminate.
    - rewrite Htr in Htr'.
      destruct (first_split_unique is_from_llm _ _ _ _ _ _ Htr' Ha Ha' eq_refl eq_refl) as (-> & Hm & _).
      inversion Hm; subst m'. rewrite Hr in Hr'. inversion Hr'; subst. split; assumption.
  Qed.

  (* C02_reject_hidden *)
  Theorem v1_reject_hidden :
    forall cf st u a m trO r x tail c',
      skip st = false ->
      snd (fst (turn_v1 cf st u)) = a ++ TBot FromLLM m :: trO ++ tail ->
      Forall (fun e => is_from_llm e = false) a ->
      run_rails (vf (tidx st)) SOut (orails cf) (n_rail_calls a) m = (trO, c', Blocked r x) ->
      snd (turn_v1 cf st u) = (if exceptions cf then RExc SOut r else RMsg [refusal]) /\
      emitted (snd (fst (turn_v1 cf st u))) = (if exceptions cf then [] else [refusal]).
  Proof.
    intros cf st u a m trO r x tail c' Hs Htr Ha Hr.
    exact (out_gate_decomposition cf st u a m trO tail c' (Blocked r x) Hs Htr Ha Hr).
  Qed.

  (* C02_rewrite_returned *)
  Theorem v1_rewrite_returned :
    forall cf st u a m trO m' tail c',
      skip st = false ->
      snd (fst (turn_v1 cf st u)) = a ++ TBot FromLLM m :: trO ++ tail ->
      Forall (fun e => is_from_llm e = false) a ->
      run_rails (vf (tidx st)) SOut (orails cf) (n_rail_calls a) m = (trO, c', Passed m') ->
      snd (turn_v1 cf st u) = RMsg [m'] /\ emitted (snd (fst (turn_v1 cf st u))) = [m'] /\
      m' = final_text (vf (tidx st)) (n_rail_calls a) m (orails cf).
  Proof.
    intros cf st u a m trO m' tail c' Hs Htr Ha Hr.
    destruct (out_gate_decomposition cf st u a m trO tail c' (Passed m') Hs Htr Ha Hr) as (H1 & H2).
    split; [exact H1|]. split; [exact H2|].
    apply run_rails_shape in Hr. destruct Hr as (calls & _ & _ & _ & (Hf & _)). exact Hf.
  Qed.

  (* C02_flag_invariant (1.0) *)
  Theorem v1_flag_invariant :
    forall cf us st, skip st = false -> Forall (fun r => skip (fst (fst r)) = false) (conv_v1 cf st us).
  Proof. intros. apply conv_v1_skip_invariant. assumption. Qed.

  (* ---- per-call generation options: whatever options EARLIER calls used (e.g. output rails
     switched off for one call), a call that does not disable a category runs it in full, and
     the skip flag stays clear ---- *)
  Notation turn_v1_opts := (turn_v1_opts vf llm post_general intent_step next_of predefined msg_of refusal).
  Notation conv_v1_opts := (conv_v1_opts vf llm post_general intent_step next_of predefined msg_of refusal).

  Theorem v1_flag_invariant_opts :
    forall cf ous st, skip st = false ->
      Forall (fun r => skip (fst (fst r)) = false) (conv_v1_opts cf st ous).
  Proof.
    intros cf ous. induction ous as [|[o u] ous IH]; intros st Hs; simpl; constructor.
    - apply turn_v1_skip_invariant. exact Hs.
    - apply IH. apply turn_v1_skip_invariant. exact Hs.
  Qed.

  Fixpoint states_before_opts (cf : cfg) (st : pstate) (ous : list (topts * text)) : list (pstate * topts * text) :=
    match ous with
    | [] => []
    | (o, u) :: ous' => (st, o, u) :: states_before_opts cf (fst (fst (turn_v1_opts cf o st u))) ous'
    end.

  Theorem v1_gates_with_options :
    forall cf ous st, skip st = false ->
      Forall (fun sou => let '(s, o, u) := sou in
                skip s = false /\
                (o_in o = true ->
                 ordered_calls (vf (tidx s)) u (irails cf) (rail_calls SIn (snd (fst (turn_v1_opts cf o s u))))) /\
                (o_out o = true ->
                 orails (eff cf o) = orails cf /\
                 out_gate (eff cf o) s (snd (fst (turn_v1_opts cf o s u))) (snd (turn_v1_opts cf o s u))))
             (states_before_opts cf st ous).
  Proof.
    intros cf ous. induction ous as [|[o u] ous IH]; intros st Hs; simpl; constructor.
    - split; [exact Hs|]. split.
      + intros Hi. unfold TurnV1.turn_v1_opts.
        assert (Hr : irails (eff cf o) = irails cf) by (unfold eff; simpl; rewrite Hi; reflexivity).
        rewrite <- Hr. apply v1_order.
      + intros Ho. split; [unfold eff; simpl; rewrite Ho; reflexivity|].
        unfold TurnV1.turn_v1_opts. apply v1_out_gate. exact Hs.
    - apply IH. apply turn_v1_skip_invariant. exact Hs.
  Qed.

  (* C02_later_turns (1.0): in every state a conversation can reach - whatever was blocked,
     rewritten or refused before - a bot message is checked exactly as in a fresh conversation
     at the same turn index *)
  Definition fresh_at (t : nat) : pstate := mkSt t false None None None None [] [].

  Theorem v1_later_turns :
    forall cf st c m, reachable cf st ->
      let r := process_bot cf st c m in
      let r0 := process_bot cf (fresh_at (tidx st)) c m in
      snd (fst (fst r)) = snd (fst (fst r0)) /\ snd (fst r) = snd (fst r0) /\ snd r = snd r0.
  Proof.
    intros cf st c m Hr. apply process_bot_state_independent.
    - eapply reachable_skip_false; eauto.
    - reflexivity.
    - reflexivity.
  Qed.
End V1.

(* ======================================================================= Colang 2.x *)
Section V2.
  Variable fixd : bool.
  Variable vf : nat -> nat -> rail -> text -> verdict.
  Variable llm : nat -> nat -> prompt -> text.
  Variable value_of : text -> text.
  Variable refusal_in refusal_out : text.

  Notation bot_say := (bot_say fixd vf refusal_out).
  Notation after_input2 := (after_input2 fixd vf llm value_of refusal_in refusal_out).
  Notation turn_v2 := (turn_v2 fixd vf llm value_of refusal_in refusal_out).
  Notation block_reply2 := (block_reply2 refusal_out).

  Lemma turn_v2_parts :
    forall cf st u,
    exists calls c res st1 tr2 rp,
      chain (no_rewrite (vf (tidx2 st))) 0 u (irails2 cf) calls /\ c = List.length calls /\
      rres_ok (no_rewrite (vf (tidx2 st))) 0 u (irails2 cf) calls res /\
      after_input2 cf (set_um2 st u) c u res = (st1, tr2, rp) /\
      snd (fst (turn_v2 cf st u)) = map (mk SIn) calls ++ tr2 /\
      snd (turn_v2 cf st u) = rp /\ fst (fst (turn_v2 cf st u)) = st1 /\
      Forall (fun e => is_in_rail e = false) tr2.
  Proof.
    intros cf st u.
    destruct (run_rails (no_rewrite (vf (tidx2 st))) SIn (irails2 cf) 0 u) as [[trI c] res] eqn:Hr.
    destruct (run_rails_shape _ _ _ _ _ _ _ _ Hr) as (calls & -> & Hch & Hc & Hres).
    destruct (after_input2 cf (set_um2 st u) c u res) as [[st1 tr2] rp] eqn:Ha.
    exists calls, c, res, st1, tr2, rp.
    rewrite turn_v2_unfold, Hr, Ha. simpl. repeat split; auto.
    eapply after_input2_no_in_rail; eauto.
  Qed.

  Lemma turn_v2_in_calls :
    forall cf st u calls tr2,
      snd (fst (turn_v2 cf st u)) = map (mk SIn) calls ++ tr2 ->
      Forall (fun e => is_in_rail e = false) tr2 ->
      rail_calls SIn (snd (fst (turn_v2 cf st u))) = calls.
  Proof.
    intros cf st u calls tr2 -> Hf.
    rewrite rail_calls_app, rail_calls_map_mk, (rail_calls_none SIn tr2 Hf). apply app_nil_r.
  Qed.

  Theorem v2_order :
    forall cf st u,
      ordered_calls (no_rewrite (vf (tidx2 st))) u (irails2 cf) (rail_calls SIn (snd (fst (turn_v2 cf st u)))).
  Proof.
    intros cf st u.
    destruct (turn_v2_parts cf st u) as (calls & c & res & st1 & tr2 & rp & Hch & _ & _ & _ & Htr & _ & _ & Hf).
    rewrite (turn_v2_in_calls cf st u calls tr2 Htr Hf). apply chain_ordered. exact Hch.
  Qed.

  Theorem v2_before_dialog : forall cf st u, gate_first (snd (fst (turn_v2 cf st u))).
  Proof.
    intros cf st u.
    destruct (turn_v2_parts cf st u) as (calls & c & res & st1 & tr2 & rp & _ & _ & _ & _ & Htr & _ & _ & Hf).
    exists (map (mk SIn) calls), tr2. split; [exact Htr|]. split; [apply forall_map_mk_in|exact Hf].
  Qed.

  (* a rejected input: no later rail, no LLM call; the reply is the rail exception, or the input
     refusal (which in Colang 2 is a `bot say`, hence itself subject to the output rails: if they
     reject it, their refusal / exception is the reply) *)
  Theorem v2_reject_stops :
    forall cf st u j r x,
      let tr := snd (fst (turn_v2 cf st u)) in
      nth_error (rail_calls SIn tr) j = Some (r, x) -> vf (tidx2 st) j r x = Reject ->
      List.length (rail_calls SIn tr) = S j /\ llm_calls tr = [] /\
      (snd (turn_v2 cf st u) = RExc SIn r \/ snd (turn_v2 cf st u) = RMsg [refusal_in] \/
       exists r', snd (turn_v2 cf st u) = block_reply2 cf r').
  Proof.
    intros cf st u j r x tr Hj Hrej. subst tr.
    destruct (turn_v2_parts cf st u) as (calls & c & res & st1 & tr2 & rp & Hch & _ & Hres & Ha & Htr & Hrp & _ & Hf).
    rewrite (turn_v2_in_calls cf st u calls tr2 Htr Hf) in *.
    assert (Hrej' : no_rewrite (vf (tidx2 st)) (0 + j) r x = Reject) by (unfold no_rewrite; simpl; rewrite Hrej; reflexivity).
    assert (Hlen : List.length calls = S j) by (eapply chain_reject_last with (c := 0); eauto).
    split; [exact Hlen|].
    destruct res as [t'|r' x'].
    - exfalso. destruct Hres as (_ & _ & Hn). exact (Hn j r x Hj Hrej').
    - destruct Hres as (pre & Hcalls & _ & _).
      assert (r' = r).
      { subst calls. rewrite app_length in Hlen. simpl in Hlen.
        assert (List.length pre = j) by lia. subst j.
        rewrite nth_error_app2 in Hj by lia. rewrite Nat.sub_diag in Hj. simpl in Hj. congruence. }
      subst r'. rewrite Htr, Hrp, llm_calls_app, llm_calls_map_mk. simpl.
      unfold TurnV2.after_input2 in Ha. destruct (exceptions2 cf) eqn:He.
      + inversion Ha; subst. split; [reflexivity|]. left. reflexivity.
      + match type of Ha with context[TurnV2.bot_say _ _ _ ?a ?b ?c ?d ?e] =>
          destruct (TurnV2.bot_say fixd vf refusal_out a b c d e) as [[[st3 tr3] c3] rp3] eqn:Hb end.
        inversion Ha; subst; clear Ha.
        split; [eapply bot_say_no_llm; eauto|].
        destruct (orip (set_um2 st u)) eqn:Ho.
        * destruct (bot_say_in_progress fixd vf refusal_out cf _ c Predefined refusal_in Ho) as (st' & H1 & _).
          rewrite H1 in Hb. inversion Hb; subst. right. left. reflexivity.
        * apply bot_say_checked in Hb; [|exact Ho]. destruct Hb as (_ & trO & res & _ & Hres).
          destruct res as [m'|r'' x''].
          -- destruct Hres as (_ & -> & _). right. left. reflexivity.
          -- destruct Hres as (_ & -> & _). right. right. exists r''. reflexivity.
  Qed.

  Definition gate_ok2 (cf : cfg2) (st : pstate2) (u : text) : Prop :=
    ordered_calls (no_rewrite (vf (tidx2 st))) u (irails2 cf) (rail_calls SIn (snd (fst (turn_v2 cf st u)))) /\
    gate_first (snd (fst (turn_v2 cf st u))) /\
    (forall j r x, nth_error (rail_calls SIn (snd (fst (turn_v2 cf st u)))) j = Some (r, x) ->
                   vf (tidx2 st) j r x = Reject -> llm_calls (snd (fst (turn_v2 cf st u))) = []).

  Theorem v2_gate_any_state : forall cf st u, gate_ok2 cf st u.
  Proof.
    intros cf st u. split; [apply v2_order|]. split; [apply v2_before_dialog|].
    intros j r x Hj Hr. destruct (v2_reject_stops cf st u j r x Hj Hr) as (_ & Hl & _). exact Hl.
  Qed.

  Fixpoint states_before2 (cf : cfg2) (st : pstate2) (us : list text) : list (pstate2 * text) :=
    match us with
    | [] => []
    | u :: us' => (st, u) :: states_before2 cf (fst (fst (turn_v2 cf st u))) us'
    end.

  Theorem v2_every_turn :
    forall cf us st, Forall (fun su => gate_ok2 cf (fst su) (snd su)) (states_before2 cf st us).
  Proof.
    intros cf us. induction us as [|u us IH]; intros st; simpl; constructor.
    - apply v2_gate_any_state.
    - apply IH.
  Qed.

  (* the LLM-generated bot message of a turn, when the in-progress flag is clear at the start *)
  Definition out_gate2 (cf : cfg2) (st : pstate2) (u : text) (tr : list tev) (rp : reply) : Prop :=
    llm_calls tr = []
    \/
    exists a m trO res,
      Forall (fun e => is_from_llm e = false) a /\
      tr = a ++ TBot FromLLM m :: trO ++
           match res with Passed _ => [TEmit m] | Blocked r _ => TurnV2_proofs.block_tail2 refusal_out cf r end /\
      run_rails (no_rewrite (vf (tidx2 st))) SOut (orails2 cf) (n_rail_calls a) m
      = (trO, n_rail_calls a + n_rail_calls trO, res) /\
      rp = match res with Passed _ => RMsg [m] | Blocked r _ => block_reply2 cf r end.

  Theorem v2_out_gate :
    forall cf st u, orip st = false ->
      out_gate2 cf st u (snd (fst (turn_v2 cf st u))) (snd (turn_v2 cf st u)).
  Proof.
    intros cf st u Ho.
    destruct (turn_v2_parts cf st u) as (calls & c & res & st1 & tr2 & rp & _ & Hc & _ & Ha & Htr & Hrp & _ & _).
    rewrite Htr, Hrp. clear Htr Hrp. unfold TurnV2.after_input2 in Ha. destruct res as [t|r x].
    - match type of Ha with context[TurnV2.bot_say _ _ _ ?a ?b ?c ?d ?e] =>
        destruct (TurnV2.bot_say fixd vf refusal_out a b c d e) as [[[st3 tr3] c3] rp3] eqn:Hb end.
      inversion Ha; subst st1 tr2 rp; clear Ha.
      apply bot_say_checked in Hb; [|exact Ho]. destruct Hb as (_ & trO & res & Hr & Hres).
      right.
      match type of Hr with run_rails _ _ _ _ ?mm = _ => set (m := mm) in * end.
      exists (map (mk SIn) calls ++ [TUser u; TLLM 0 (mkPrompt KValue (hist2 (push_hist2 (set_um2 st u) (HUser u))) u)]), m, trO, res.
      assert (Hn : n_rail_calls (map (mk SIn) calls ++ [TUser u; TLLM 0 (mkPrompt KValue (hist2 (push_hist2 (set_um2 st u) (HUser u))) u)]) = c).
      { rewrite n_rail_calls_app, n_rail_calls_map_mk. unfold n_rail_calls. simpl. lia. }
      split.
      { apply Forall_app. split; [apply forall_map_mk_not_llm|repeat constructor]. }
      pose proof (run_rails_shape _ _ _ _ _ _ _ _ Hr) as (callsO & HtrO & _ & HcO & _).
      assert (HnO : n_rail_calls trO = List.length callsO) by (rewrite HtrO; apply n_rail_calls_map_mk).
      rewrite Hn, HnO, <- HcO. simpl in Hr.
      destruct res as [m'|r x]; destruct Hres as (-> & -> & _).
      + split; [rewrite <- app_assoc; reflexivity|]. split; [exact Hr|reflexivity].
      + split; [rewrite <- app_assoc; reflexivity|]. split; [exact Hr|reflexivity].
    - left. rewrite llm_calls_app, llm_calls_map_mk. simpl.
      destruct (exceptions2 cf).
      + inversion Ha; subst. reflexivity.
      + match type of Ha with context[TurnV2.bot_say _ _ _ ?a ?b ?c ?d ?e] =>
          destruct (TurnV2.bot_say fixd vf refusal_out a b c d e) as [[[st3 tr3] c3] rp3] eqn:Hb end.
        inversion Ha; subst. eapply bot_say_no_llm; eauto.
  Qed.
End V2.

(* C02_later_turns (2.x, repaired file): in every reachable state a bot message is checked
   exactly as in a fresh conversation at the same turn index *)
Section V2later.
  Variable vf : nat -> nat -> rail -> text -> verdict.
  Variable llm : nat -> nat -> prompt -> text.
  Variable value_of : text -> text.
  Variable refusal_in refusal_out : text.

  Definition fresh2_at (t : nat) : pstate2 := mkSt2 t false None None [].

  Theorem v2_later_turns :
    forall cf st c pv m,
      reachable2 vf llm value_of refusal_in refusal_out cf st ->
      let r := bot_say true vf refusal_out cf st c pv m in
      let r0 := bot_say true vf refusal_out cf (fresh2_at (tidx2 st)) c pv m in
      snd (fst (fst r)) = snd (fst (fst r0)) /\ snd (fst r) = snd (fst r0) /\ snd r = snd r0.
  Proof.
    intros cf st c pv m Hr. apply reachable2_flag in Hr.
    unfold TurnV2.bot_say. simpl. rewrite Hr.
    destruct (orails2 cf) as [|r0 rs]; [simpl; auto|].
    destruct (run_rails (no_rewrite (vf (tidx2 st))) SOut (r0 :: rs) c m) as [[trO cO] [m'|r x]]; simpl; auto.
    destruct (exceptions2 cf); simpl; auto.
  Qed.
End V2later.
