(* C10 part 1: one `slide` of a guarded flow stops within |elements|+1 steps. *)
From Coq Require Import List Arith Bool Lia.
From NG Require Import V2.Term.
Import ListNotations.

Lemma eqb_labels_eq : forall a b, eqb_labels a b = true -> a = b.
Proof.
  induction a as [|x a IH]; destruct b as [|y b]; simpl; intros H; try discriminate; auto.
  apply andb_true_iff in H. destruct H as [H1 H2]. apply Nat.eqb_eq in H1. f_equal; auto.
Qed.

Lemma exec_raise_stops : forall es pos cs e, exists s, exec_elem es ORaise pos cs e = Stop s.
Proof. intros. simpl. eauto. Qed.

Lemma exec_cont_in_conts : forall es o pos cs e pos' cs' st ni,
  exec_elem es o pos cs e = Cont pos' cs' st ni -> In (pos', cs') (conts es cs pos e).
Proof.
  intros es o pos cs e pos' cs' st ni H. unfold conts. apply in_flat_map.
  destruct o.
  - exists OTrue. split; [left; reflexivity|]. rewrite H. left; reflexivity.
  - exists OFalse. split; [right; left; reflexivity|]. rewrite H. left; reflexivity.
  - simpl in H. discriminate.
Qed.

Lemma check_cert_pos : forall ti es r stk p, check_cert ti es r stk = true -> p < length es ->
  check_pos ti es r stk p = true.
Proof.
  intros ti es r stk p H Hp. unfold check_cert in H. rewrite forallb_forall in H.
  apply H. apply in_seq. lia.
Qed.

(* one step of the model respects the static stack and decreases the rank *)
Lemma cert_step : forall ti es r stk o pos cs e pos' cs' st ni,
  check_cert ti es r stk = true ->
  nth_error es pos = Some e -> stk_at stk pos = Some cs ->
  exec_elem es o pos cs e = Cont pos' cs' st ni ->
  rank_at r (Nat.min pos' (length es)) < rank_at r pos /\ rank_at r pos <= length es /\
  (pos' < length es -> stk_at stk pos' = Some cs').
Proof.
  intros ti es r stk o pos cs e pos' cs' st ni Hc Hnth Hstk Hex.
  assert (Hlt : pos < length es) by (apply nth_error_Some; congruence).
  pose proof (check_cert_pos ti es r stk pos Hc Hlt) as Hp.
  unfold check_pos in Hp. rewrite Hnth, Hstk in Hp.
  apply andb_true_iff in Hp. destruct Hp as [Hp Hok].
  apply andb_true_iff in Hp. destruct Hp as [Hle Hrk].
  apply Nat.leb_le in Hle.
  pose proof (exec_cont_in_conts _ _ _ _ _ _ _ _ _ Hex) as Hin.
  rewrite forallb_forall in Hrk, Hok.
  assert (Hin1 : In (pos', cs') (succ_cfg ti es stk pos)).
  { unfold succ_cfg. rewrite Hnth, Hstk. apply in_or_app. left. assumption. }
  specialize (Hrk _ Hin1). simpl in Hrk. apply Nat.ltb_lt in Hrk.
  assert (Hin2 : In (pos', cs') (conts es cs pos e ++ resumes es cs pos e)) by (apply in_or_app; left; assumption).
  specialize (Hok _ Hin2). simpl in Hok. unfold stk_ok in Hok.
  split; [assumption|]. split; [assumption|].
  intros Hp'. apply orb_true_iff in Hok. destruct Hok as [Hok|Hok].
  - apply Nat.leb_le in Hok. lia.
  - destruct (stk_at stk pos') as [s'|]; [|discriminate]. apply eqb_labels_eq in Hok. congruence.
Qed.

(* the measure: rank of the current position *)
Lemma slide_fuel_bound : forall es r stk, check_cert false es r stk = true ->
  forall fuel orc k pos cs starts ni,
    (pos < length es -> stk_at stk pos = Some cs) ->
    (pos < length es -> rank_at r pos < fuel) -> 0 < fuel ->
    s_stop (slide_fuel fuel es orc k pos cs starts ni) <> OutOfFuel.
Proof.
  intros es r stk Hc. induction fuel as [|fuel IH]; intros orc k pos cs starts ni Hcs Hrk Hpos.
  - lia.
  - simpl. destruct (nth_error es pos) as [e|] eqn:Hnth; [|simpl; discriminate].
    assert (Hlt : pos < length es) by (apply nth_error_Some; congruence).
    destruct (exec_elem es (orc k) pos cs e) as [pos' cs' st ni'|s] eqn:Hex.
    + destruct (cert_step false es r stk (orc k) pos cs e pos' cs' st ni' Hc Hnth (Hcs Hlt) Hex) as [Hdec [Hle Hstk']].
      specialize (Hrk Hlt).
      apply IH; [assumption | | lia].
      intros Hp'. rewrite Nat.min_l in Hdec by lia. lia.
    + simpl. unfold exec_elem in Hex.
      destruct (orc k); destruct e; try (inversion Hex; subst; discriminate);
        repeat match type of Hex with
               | context [match ?x with _ => _ end] => destruct x eqn:?; try discriminate
               end; inversion Hex; subst; discriminate.
Qed.

Lemma cert_rank_le : forall ti es r stk pos cs, check_cert ti es r stk = true ->
  pos < length es -> stk_at stk pos = Some cs -> rank_at r pos <= length es.
Proof.
  intros ti es r stk pos cs Hc Hlt Hs.
  pose proof (check_cert_pos ti es r stk pos Hc Hlt) as Hp. unfold check_pos in Hp.
  destruct (nth_error es pos) as [e|] eqn:Hn; [|apply nth_error_None in Hn; lia].
  rewrite Hs in Hp. apply andb_true_iff in Hp. destruct Hp as [Hp _].
  apply andb_true_iff in Hp. destruct Hp as [Hle _]. apply Nat.leb_le in Hle. assumption.
Qed.

Theorem slide_bound_cert : forall es r stk, check_cert false es r stk = true ->
  forall orc pos cs, (pos < length es -> stk_at stk pos = Some cs) ->
    s_stop (slide (length es + 1) es orc pos cs) <> OutOfFuel.
Proof.
  intros es r stk Hc orc pos cs Hcs. unfold slide.
  eapply slide_fuel_bound; [exact Hc | assumption | | lia].
  intros Hp. pose proof (cert_rank_le false es r stk pos cs Hc Hp (Hcs Hp)). lia.
Qed.

Theorem slide_bound : forall p, guardedb p = true ->
  forall es, In es p ->
  forall orc pos cs, (pos < length es -> stk_at (compute_stk es) pos = Some cs) ->
    s_stop (slide (length es + 1) es orc pos cs) <> OutOfFuel.
Proof.
  intros p Hg es Hin orc pos cs Hcs. unfold guardedb in Hg. rewrite forallb_forall in Hg.
  specialize (Hg es Hin). unfold guarded_flowb in Hg.
  eapply slide_bound_cert; eassumption.
Qed.

(* the number of executed elements is bounded as well *)
Lemma slide_fuel_steps : forall fuel es orc k pos cs starts ni,
  s_steps (slide_fuel fuel es orc k pos cs starts ni) <= k + fuel.
Proof.
  induction fuel as [|fuel IH]; intros; simpl; [lia|].
  destruct (nth_error es pos); [|simpl; lia].
  destruct (exec_elem es (orc k) pos cs e); [|simpl; lia].
  etransitivity; [apply IH|]. lia.
Qed.

(* an unguarded loop really spins: the hypothesis of slide_bound is not vacuous-by-weakness *)
Example unguarded_spins : exists es orc, guarded_flowb es = false /\
  forall n, s_stop (slide n es orc 1 []) = OutOfFuel.
Proof.
  exists [EWaitInt true; ELabel 0 false; EStep; EJump 0 false], (fun _ => OTrue).
  split; [reflexivity|].
  assert (H : forall n k st ni,
      s_stop (slide_fuel n [EWaitInt true; ELabel 0 false; EStep; EJump 0 false] (fun _ => OTrue) k 2 [] st ni) = OutOfFuel /\
      s_stop (slide_fuel n [EWaitInt true; ELabel 0 false; EStep; EJump 0 false] (fun _ => OTrue) k 3 [] st ni) = OutOfFuel /\
      s_stop (slide_fuel n [EWaitInt true; ELabel 0 false; EStep; EJump 0 false] (fun _ => OTrue) k 1 [] st ni) = OutOfFuel).
  { induction n as [|n IH]; intros; [repeat split; reflexivity|].
    destruct (IH (S k) st ni) as [H2 [H3 H1]].
    repeat split; simpl; unfold label_pos; simpl; try apply IH. }
  intros n. unfold slide. apply H.
Qed.

(* every start configuration the verifier predicts for a guarded flow: e.g. a flow start *)
Example guarded_inhabited :
  let es := [EWaitInt true; ECatch (Some 0); EBlock BMatch; EJump 1 false; ELabel 0 false; EWaitHeads; ECatch None;
             EStep; EAbort; ELabel 1 false; ECatch None] in
  guardedb [es] = true /\ stk_at (compute_stk es) 1 = Some [] /\ stk_at (compute_stk es) 3 = Some [0].
Proof. repeat split. Qed.
