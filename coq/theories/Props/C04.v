(* C04 - Colang 2 event matching follows the documented partial-match rules.
   Property theorems only; every proof is `exact <lemma>`; Print Assumptions beneath each.
   `score_now` / `event_score_now` are the matcher with the length guards AS READ FROM THE
   CURRENT SOURCE by the translator (Gen/MatchConsts.v): if a guard is missing in
   statemachine.py the first theorem fails to check. *)
From Coq Require Import ZArith QArith Qpower List String Bool.
From NG Require Import Gen.MatchConsts Val.Value Val.Match Val.MatchSpec Val.Match_proofs Val.ScoreQ
                       Val.Match_examples Val.Match_now.
Import ListNotations.
Open Scope string_scope.

(* (T) every container branch of the current source starts with the length guard *)
Theorem C04_length_guards_in_source :
  dict_length_guard = true /\ list_length_guard = true /\ set_length_guard = true.
Proof. exact (conj eq_refl (conj eq_refl eq_refl)). Qed.
Print Assumptions C04_length_guards_in_source.

(* (T) the specificity factor read from the source lies strictly between 0 and 1 *)
Theorem C04_factor_range : (0 < factor /\ factor < 1)%Q.
Proof. exact (conj eq_refl eq_refl). Qed.
Print Assumptions C04_factor_range.

(* the matcher advances exactly on the documented rules, for all patterns and payloads of
   any nesting depth (calls that raise - a comparison against another type - excluded) *)
Theorem C04_sound_complete :
  forall re_search str_of p v,
    score_now re_search str_of p v <> RErr ->
    (is_yes (score_now re_search str_of p v) <-> Matches re_search str_of p v).
Proof. exact score_sound_complete. Qed.
Print Assumptions C04_sound_complete.

(* ... never against a received container with fewer elements than expected *)
Theorem C04_no_smaller_container :
  forall re_search str_of,
    (forall ps vs, Matches re_search str_of (VList ps) (VList vs) -> (List.length ps <= List.length vs)%nat) /\
    (forall ps vs, Matches re_search str_of (VSet ps) (VSet vs) -> (List.length ps <= List.length vs)%nat) /\
    (forall ps vs, Matches re_search str_of (VDict ps) (VDict vs) -> (List.length ps <= List.length vs)%nat).
Proof. exact matches_no_smaller_container. Qed.
Print Assumptions C04_no_smaller_container.

(* parameters the statement does not mention never prevent a match; each one multiplies
   the score by `factor` *)
Theorem C04_unmentioned_harmless :
  forall re_search str_of pkvs vkvs extra k,
    score_now re_search str_of (VDict pkvs) (VDict vkvs) = RYes k ->
    score_now re_search str_of (VDict pkvs) (VDict (vkvs ++ extra))
    = RYes (k + Z.of_nat (List.length extra)).
Proof. exact (fun rs so => unmentioned_harmless rs so _ _ _). Qed.
Print Assumptions C04_unmentioned_harmless.

(* a positive score is factor^k with k >= 0: in (0, 1], strictly smaller with every further
   unmentioned parameter *)
Theorem C04_score_range :
  forall re_search str_of p v k,
    score_now re_search str_of p v = RYes k ->
    (0 <= k)%Z /\ (0 < factor ^ k /\ factor ^ k <= 1 /\ factor ^ (k + 1) < factor ^ k)%Q.
Proof. exact score_now_range. Qed.
Print Assumptions C04_score_range.

(* non-internal events: another name never matches *)
Theorem C04_event_name :
  forall re_search str_of action_args ev ref,
    umim ev ref -> e_name ref <> e_name ev ->
    event_score_now re_search str_of action_args ev ref = ENo.
Proof. exact (fun rs so => event_name_mismatch rs so _ _ _). Qed.
Print Assumptions C04_event_name.

(* a statement that refers to a specific action instance matches only that instance *)
Theorem C04_instance_action :
  forall re_search str_of action_args ev ref r eu,
    umim ev ref -> e_kind ref = KAction (Some r) -> e_kind ev = KAction eu -> eu <> Some r ->
    event_score_now re_search str_of action_args ev ref = ENo.
Proof. exact (fun rs so => event_action_instance rs so _ _ _). Qed.
Print Assumptions C04_instance_action.

(* a statement that refers to a specific flow instance never advances on another instance's event *)
Theorem C04_instance_flow :
  forall re_search str_of action_args ev ref u u' k,
    e_name ref <> ev_start_flow ->
    lookup "flow_instance_uid" (e_args ref) = Some (VStr u) ->
    lookup "flow_instance_uid" (e_args ev) = Some (VStr u') ->
    u <> u' ->
    event_score_now re_search str_of action_args ev ref <> EYes k.
Proof. exact (fun rs so aa ev ref u u' k => event_flow_instance rs so _ _ _ aa ev ref u u' k eq_refl). Qed.
Print Assumptions C04_instance_flow.

(* plain events: event-level score = argument-level score *)
Theorem C04_event_args :
  forall re_search str_of action_args ev ref,
    umim ev ref -> e_name ref = e_name ev -> e_kind ev = KPlain ->
    event_score_now re_search str_of action_args ev ref
    = eres_of_res (score_now re_search str_of (VDict (e_args ref)) (VDict (e_args ev))).
Proof. exact (fun rs so => event_umim_args rs so _ _ _). Qed.
Print Assumptions C04_event_args.

(* regression documentation: WITHOUT the set guard the property is false *)
Theorem C04_set_guard_missing_refuted :
  exists re_search str_of p v k,
    score re_search str_of true true false p v = RYes k /\ (k < 0)%Z /\ ~ Matches re_search str_of p v.
Proof. exact set_guard_missing_witness. Qed.
Print Assumptions C04_set_guard_missing_refuted.
