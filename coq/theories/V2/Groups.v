(* C07 - the head protocol that the expansion emits for a group statement, and its run.

   Source: nemoguardrails/colang/v2_x/lang/expansion.py
             _expand_match_element (group case), _expand_await_element (group case),
             _expand_when_stmt_element (one `when` case)
           nemoguardrails/colang/v2_x/runtime/statemachine.py
             slide: ForkHead / WaitForHeads / MergeHeads; run_to_completion: every head whose
             `match` element matches the processed event advances.

   What the expansion emits for the normalised group  alts = [c_1; ...; c_k]  (c_i a list of Specs):

     match, k = 1, c_1 = [a]         match a                                       (no fork)
     match, k = 1, |c_1| <> 1        Fork [event_0..event_n-1]; event_j: match a_j; goto end
                                     end: WaitForHeads(len(c_1)); MergeHeads
     match, k > 1                    Fork [group_0..group_k-1]; group_i: match {spec_and c_i}; goto end
                                     end: MergeHeads
                                     and `match {spec_and c_i}` is expanded again by the same
                                     function (normalize of an and-group of Specs = one
                                     alternative), giving one of the two k = 1 shapes
     await, k = 1                    start c_1...; match {spec_and [ref.Finished ...]}
     await, k > 1                    Fork [group_i]; group_i: start c_i...; match {spec_and [ref.Finished...]}; goto end
                                     end: MergeHeads; EndScope
     when (one case)                 Fork [case]; Fork [group_i]  (always, also for k = 1);
                                     group_i: start c_i...; match {spec_and ...}; goto case
                                     case: MergeHeads(cases fork); EndScope

   Runtime: a head sitting on `match a` advances when an event matching `a` is processed;
   a head that reaches WaitForHeads(n) passes iff at least n active heads sit on that element;
   the first head to reach the outer MergeHeads wins, every sibling head under the fork
   (all other alternatives and all their member heads) is removed, and the statement is
   complete.  Afterwards nothing of the statement is left to react.

   The state is therefore: per alternative, per member, whether its head still listens
   (HMatch a) or has matched and waits at WaitForHeads (HWait).

   `mt a e` says that the `match` element of atom `a` matches event `e`:
     match groups : the event has the name (and parameters) of the Spec;
     await / when on flows : atom = the flow instance started for that member occurrence,
       event step e makes that instance finish (its FlowFinished event is processed in step e). *)
From Coq Require Import List Bool Arith.
From NG Require Import V2.Dnf.
Import ListNotations.

(* kinds of group statements *)
Inductive stmt := SMatch | SAwait | SWhen.

(* result of observing a statement over a sequence of event steps *)
Inductive outcome :=
| OErr               (* the expansion raised *)
| ONever             (* not complete after all the events *)
| OAt (n : nat).     (* complete in step n (1-based: after n events) and not earlier *)

Section Groups.
  Variable A : Type.     (* atoms: the Specs of the group *)
  Variable E : Type.     (* events / steps *)
  Variable mt : A -> E -> bool.

  (* ---------- compile: what the expansion emits ---------- *)
  Inductive branch :=
  | BMatch (a : A)                              (* plain `match a` *)
  | BAnd (members : list A) (wait_n : nat).     (* fork per member, WaitForHeads(wait_n), merge *)

  Inductive prog :=
  | PSingle (b : branch)          (* a single alternative: no or-fork *)
  | POr (bs : list branch).       (* or-fork, one branch per alternative *)

  (*  if len(normalized_group["elements"][0]["elements"]) == 1:  SpecOp(match, the element)
      else:  ... WaitForHeads(number=len(and_group["elements"])) ...                         *)
  Definition branch_of (c : list A) : branch :=
    match c with
    | [a] => BMatch a
    | _ => BAnd c (length c)
    end.

  (* `match {spec_and c}` emitted inside an or-branch is expanded again by _expand_match_element:
     normalize it, expect a single alternative *)
  Definition branch_of_group (g : formula A) : option branch :=
    bind (normalize g) (fun d =>
    bind (alts_of d) (fun alts =>
    match alts with
    | [c] => Some (branch_of c)
    | _ => None   (* would be a further or-fork: cannot happen for an and-group of Specs *)
    end)).

  Definition compile (st : stmt) (f : formula A) : option prog :=
    bind (normalize f) (fun d =>
    bind (alts_of d) (fun alts =>
    match st, alts with
    | SWhen, _ => bind (mapM (fun c => branch_of_group (And (map Atom c))) alts) (fun bs => Some (POr bs))
    | _, [c] => bind (branch_of_group (And (map Atom c))) (fun b => Some (PSingle b))
    | _, _ => bind (mapM (fun c => branch_of_group (And (map Atom c))) alts) (fun bs => Some (POr bs))
    end)).

  (* what compile amounts to, given the alternatives of the DNF (Groups_proofs.compile_spec):
     one branch per alternative, one member head per atom occurrence, WaitForHeads(number of
     members); `when` always forks, match/await only for more than one alternative *)
  Definition prog_of (st : stmt) (alts : list (list A)) : prog :=
    match st, alts with
    | SWhen, _ => POr (map branch_of alts)
    | _, [c] => PSingle (branch_of c)
    | _, _ => POr (map branch_of alts)
    end.

  (* ---------- the heads ---------- *)
  Inductive head :=
  | HMatch (a : A)   (* listening on `match a` *)
  | HWait.           (* matched; sitting on WaitForHeads (or, for BMatch, past the match) *)

  Record bstate := mkB { b_heads : list head; b_need : nat }.

  Inductive gstate :=
  | GActive (bs : list bstate)
  | GDone.           (* merged: all heads of the statement are gone *)

  (* a plain `match a` branch is complete as soon as its only head has matched: need = 1 *)
  Definition init_branch (b : branch) : bstate :=
    match b with
    | BMatch a => mkB [HMatch a] 1
    | BAnd ms n => mkB (map HMatch ms) n
    end.

  Definition init (p : prog) : gstate :=
    match p with
    | PSingle b => GActive [init_branch b]
    | POr bs => GActive (map init_branch bs)
    end.

  Definition adv_head (e : E) (h : head) : head :=
    match h with
    | HMatch a => if mt a e then HWait else h
    | HWait => HWait
    end.

  Definition head_moves (e : E) (h : head) : bool :=
    match h with
    | HMatch a => mt a e
    | HWait => false
    end.

  Definition is_wait (h : head) : bool := match h with HWait => true | _ => false end.

  Definition adv_branch (e : E) (b : bstate) : bstate :=
    mkB (map (adv_head e) (b_heads b)) (b_need b).

  (* WaitForHeads is evaluated by a head that arrives there: some head of the branch moved on
     this event, and now at least b_need heads sit on the element *)
  Definition passes (e : E) (b : bstate) : bool :=
    existsb (head_moves e) (b_heads b)
    && (b_need b <=? length (filter is_wait (map (adv_head e) (b_heads b)))).

  (* one event step; the boolean says "the statement completed in this step" *)
  Definition deliver (s : gstate) (e : E) : gstate * bool :=
    match s with
    | GDone => (GDone, false)
    | GActive bs =>
        if existsb (passes e) bs then (GDone, true)
        else (GActive (map (adv_branch e) bs), false)
    end.

  Fixpoint run_from (s : gstate) (evs : list E) (k : nat) : outcome :=
    match evs with
    | [] => ONever
    | e :: r =>
        let (s', d) := deliver s e in
        if d then OAt (S k) else run_from s' r (S k)
    end.

  Definition run (st : stmt) (f : formula A) (evs : list E) : outcome :=
    match compile st f with
    | None => OErr
    | Some p => run_from (init p) evs 0
    end.

  (* ---------- specification: first satisfaction of the formula ---------- *)
  (* the set of atoms received (matched by some event) in a sequence of events *)
  Definition received (evs : list E) (a : A) : bool := existsb (mt a) evs.

  (* the first n in 1..length evs such that the events of the first n steps satisfy f *)
  Definition first_sat (f : formula A) (evs : list E) : outcome :=
    match find (fun n => eval (received (firstn n evs)) f) (seq 1 (length evs)) with
    | Some n => OAt n
    | None => ONever
    end.

End Groups.

Arguments BMatch {A} a.
Arguments BAnd {A} members wait_n.
Arguments PSingle {A} b.
Arguments POr {A} bs.
Arguments branch_of {A} c.
Arguments branch_of_group {A} g.
Arguments compile {A} st f.
Arguments prog_of {A} st alts.
Arguments HMatch {A} a.
Arguments HWait {A}.
Arguments mkB {A} b_heads b_need.
Arguments GActive {A} bs.
Arguments GDone {A}.
Arguments init_branch {A} b.
Arguments init {A} p.
Arguments b_heads {A} b.
Arguments b_need {A} b.
Arguments adv_head {A E} mt e h.
Arguments head_moves {A E} mt e h.
Arguments is_wait {A} h.
Arguments adv_branch {A E} mt e b.
Arguments passes {A E} mt e b.
Arguments deliver {A E} mt s e.
Arguments run_from {A E} mt s evs k.
Arguments run {A E} mt st f evs.
Arguments received {A E} mt evs a.
Arguments first_sat {A E} mt f evs.

(* sanity *)
Example compile_ex1 :
  compile SMatch (Or [And [Atom 0; Atom 1]; Atom 2])
  = Some (POr [BAnd [0; 1] 2; BMatch 2]).
Proof. reflexivity. Qed.

Example compile_ex2 : compile SMatch (And [Atom 0; Atom 1]) = Some (PSingle (BAnd [0; 1] 2)).
Proof. reflexivity. Qed.

Example compile_ex3 : compile SWhen (And [Atom 0; Atom 1]) = Some (POr [BAnd [0; 1] 2]).
Proof. reflexivity. Qed.

(* (0 and 1) or (0 and 2) over events 1, 9, 1, 2, 0 : complete in step 5, whichever comes first *)
Example run_ex1 :
  run Nat.eqb SMatch (Or [And [Atom 0; Atom 1]; And [Atom 0; Atom 2]]) [1; 9; 1; 2; 0; 0] = OAt 5.
Proof. reflexivity. Qed.

Example run_ex2 :
  run Nat.eqb SAwait (And [Or [Atom 0; Atom 1]; Atom 2]) [2; 9; 2; 1; 0] = OAt 4
  /\ first_sat Nat.eqb (And [Or [Atom 0; Atom 1]; Atom 2]) [2; 9; 2; 1; 0] = OAt 4.
Proof. split; reflexivity. Qed.
