(* Pipe.TurnV2 - one turn of a Colang 2.x configuration that imports the guardrails library
   (nemoguardrails/colang/v2_x/library/guardrails.co), with the global variables that survive
   a turn explicit.

     _user_said (8-22):   $user_message := text; await run input rails   (gate of every `user said`)
     run input rails:     await `input rails $input_text` when that flow is defined
     _bot_say (56-70):    $bot_message := text; if not $output_rails_in_progress: await run output
                          rails $text; await UtteranceBotAction(script=$text)
     run output rails:    $output_rails_in_progress := True; await `output rails`; ... := False

   The text is passed BY VALUE ($input_text / $text): a Colang 2 rail cannot rewrite, so a
   `Rewrite` verdict counts as `Accept` here (C01's rewrite clause is about Colang 1.0 only).
   A rejecting rail says its refusal with `bot say` (or sends the rail exception when
   enable_rails_exceptions) and `abort`s - the shape of the library's self check flows.  In
   Colang 2 the refusal is itself a `bot say`, i.e. it passes `_bot_say` and the output rails.

   `fix` selects what `run output rails` does when the awaited `output rails` flow FAILS:
     fix = false   the shipped file: the flow is aborted with it, `$output_rails_in_progress`
                   is never reset (DESIGN section 5, F3);
     fix = true    the repaired file (fixes/C02-output-rails-flag.patch): reset, then abort.
   Which of the two the CURRENT guardrails.co is, is decided by Gen/C01Flows.v (translator) and
   the checker in Pipe/FlowCheck.v.  Definitions only. *)
From Coq Require Import List String Bool Arith.
From NG Require Import Pipe.Rails.
Import ListNotations.
Open Scope list_scope.

Record cfg2 := mkCfg2 {
  irails2 : list rail;         (* the checks of the user's `flow input rails`, in order; [] = flow not defined *)
  orails2 : list rail;         (* the checks of the user's `flow output rails` *)
  exceptions2 : bool }.

Record pstate2 := mkSt2 {
  tidx2 : nat;
  orip : bool;                 (* global $output_rails_in_progress *)
  um2 : option text;           (* global $user_message *)
  bm2 : option text;           (* global $bot_message (= $last_bot_message) *)
  hist2 : list hentry }.

Definition init_state2 : pstate2 := mkSt2 0 false None None [].

Definition set_orip (st : pstate2) (b : bool) : pstate2 := mkSt2 (tidx2 st) b (um2 st) (bm2 st) (hist2 st).
Definition set_um2 (st : pstate2) (t : text) : pstate2 := mkSt2 (tidx2 st) (orip st) (Some t) (bm2 st) (hist2 st).
Definition set_bm2 (st : pstate2) (t : text) : pstate2 := mkSt2 (tidx2 st) (orip st) (um2 st) (Some t) (hist2 st).
Definition push_hist2 (st : pstate2) (h : hentry) : pstate2 :=
  mkSt2 (tidx2 st) (orip st) (um2 st) (bm2 st) (hist2 st ++ [h]).
Definition bump2 (st : pstate2) : pstate2 := mkSt2 (S (tidx2 st)) (orip st) (um2 st) (bm2 st) (hist2 st).

Definition no_rewrite (v : nat -> rail -> text -> verdict) : nat -> rail -> text -> verdict :=
  fun c r x => match v c r x with Rewrite _ => Accept | w => w end.

Section V2.
  Variable fixd : bool.
  Variable vf : nat -> nat -> rail -> text -> verdict.
  Variable llm : nat -> nat -> prompt -> text.
  Variable value_of : text -> text.            (* parse of the generated value *)
  Variable refusal_in refusal_out : text.      (* what the rejecting rails say *)

  (* `_bot_say $text` *)
  Definition bot_say (cf : cfg2) (st : pstate2) (c : nat) (pv : prov) (m : text)
    : pstate2 * list tev * nat * reply :=
    let st1 := set_bm2 st m in
    if orip st1 then
      (* "avoid running output rails on messages coming from the output rails themselves" *)
      (push_hist2 st1 (HBot m), [TBot pv m; TEmit m], c, RMsg [m])
    else
      match orails2 cf with
      | [] => (push_hist2 st1 (HBot m), [TBot pv m; TEmit m], c, RMsg [m])
      | _ =>
        match run_rails (no_rewrite (vf (tidx2 st))) SOut (orails2 cf) c m with
        | (tr, c', Passed _) =>
          (push_hist2 st1 (HBot m), TBot pv m :: tr ++ [TEmit m], c', RMsg [m])
        | (tr, c', Blocked r _) =>
          (* inside `output rails` the flag is True; on the failure path it is reset only by the repaired file *)
          let stF := set_orip st1 (negb fixd) in
          if exceptions2 cf then (stF, TBot pv m :: tr ++ [TExc SOut r], c', RExc SOut r)
          else
            (push_hist2 (set_bm2 stF refusal_out) (HBot refusal_out),
             TBot pv m :: tr ++ [TBot Predefined refusal_out; TEmit refusal_out], c', RMsg [refusal_out])
        end
      end.

  Definition after_input2 (cf : cfg2) (st1 : pstate2) (c : nat) (u : text) (res : rres)
    : pstate2 * list tev * reply :=
    match res with
    | Passed _ =>
      let st2 := push_hist2 st1 (HUser u) in
      let p := mkPrompt KValue (hist2 st2) u in
      let m := value_of (llm (tidx2 st1) 0 p) in
      let '(st3, tr, _, rp) := bot_say cf st2 c FromLLM m in
      (bump2 st3, TUser u :: TLLM 0 p :: tr, rp)
    | Blocked r _ =>
      if exceptions2 cf then (bump2 st1, [TExc SIn r], RExc SIn r)
      else
        let '(st3, tr, _, rp) := bot_say cf st1 c Predefined refusal_in in
        (bump2 st3, tr, rp)
    end.

  Definition turn_v2 (cf : cfg2) (st : pstate2) (u : text) : pstate2 * list tev * reply :=
    let '(trI, c, res) := run_rails (no_rewrite (vf (tidx2 st))) SIn (irails2 cf) 0 u in
    let '(st', tr, rp) := after_input2 cf (set_um2 st u) c u res in
    (st', trI ++ tr, rp).

  Fixpoint conv_v2 (cf : cfg2) (st : pstate2) (us : list text) : list (pstate2 * list tev * reply) :=
    match us with
    | [] => []
    | u :: us' => let r := turn_v2 cf st u in r :: conv_v2 cf (fst (fst r)) us'
    end.
End V2.
