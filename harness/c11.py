"""C11 - a saved or aged Colang 2 conversation state continues exactly like the live one.

Models: coq/theories/V2/Serial.v (object graph, encode_to_dict / decode_from_dict /
json_to_state), coq/theories/V2/Cleanup.v (_clean_up_state); theorems: Props/C11.v.
Tie: (T) Gen/C11Consts.v regenerated from serialization.py / statemachine.py / the imported
name_to_class; (X1) differential of the real encoder/decoder against the model evaluated inside
Coq on object graphs built from the real classes; (X2) behavioural oracle = the property text:
on generated programs, at every cut point, the restored (and the aged) state must produce the
same outgoing events as the live one for every continuation.
"""
from __future__ import annotations

import json
import os
import random
import re
import struct
import subprocess
import sys
import time

from harness import common as C

PID = "C11"
GEN = ["C11Consts"]

PREAMBLE = """From Coq Require Import ZArith List String.
From NG Require Import V2.Serial V2.SerialRun.
Import ListNotations.
Open Scope string_scope.
Open Scope Z_scope.
"""


# ---------------------------------------------------------------------------------------
# rendering of real object graphs as terms of V2/Serial.v


def _impl():
    sys.path.insert(1, C.REPO)
    from nemoguardrails.colang.v2_x.runtime import flows as fl
    from nemoguardrails.colang.v2_x.runtime import serialization as ser
    from nemoguardrails.colang.v2_x.lang import colang_ast as ca

    return fl, ser, ca


def clist(items) -> str:
    """Explicit cons-chain: Coq parses it ~5x faster than the [a; b] notation."""
    items = list(items)
    return "(" + "".join(f"cons {x} (" for x in items) + "nil" + ")" * len(items) + ")"


def cstr(s: str) -> str:
    return C.coq_string(s.encode("utf-8").decode("latin-1"))


def ftoken(x: float) -> int:
    return struct.unpack(">q", struct.pack(">d", x))[0]


class Unrenderable(Exception):
    pass


class TemporaryInRefs(Exception):
    """The real JSON marks (`__id`) an object that is not part of the live graph: the encoder
    registered a temporary in its refs table (keyed by id(), the id can be reused)."""


def coq_prim(x):
    if x is None:
        return "PNone"
    if isinstance(x, bool):
        return f"(PBool {C.coq_bool(x)})"
    if isinstance(x, int):
        return f"(PInt {C.coq_Z(x)})"
    if isinstance(x, float):
        return f"(PFloat {C.coq_Z(ftoken(x))})"
    if isinstance(x, str):
        return f"(PStr {cstr(x)})"
    raise Unrenderable(type(x).__name__)


def is_prim(x):
    return x is None or type(x) in (bool, int, float, str)


def coq_key(k):
    if type(k) is str:
        return f"(KS {cstr(k)})"
    if type(k) is bool:
        return f"(KB {C.coq_bool(k)})"
    if type(k) is int:
        return f"(KI {C.coq_Z(k)})"
    if k is None:
        return "KN"
    if type(k) is float:
        return f"(KF {C.coq_Z(ftoken(k))})"
    return "KObj"


def head_and_kids(obj):
    """(head term, list of child objects) following the isinstance order of encode_to_dict."""
    import dataclasses
    import functools
    from collections import deque
    from datetime import datetime
    from enum import Enum

    fl, ser, ca = _impl()
    from nemoguardrails.rails.llm.config import RailsConfig

    if isinstance(obj, list):
        return "HList", list(obj)
    if isinstance(obj, functools.partial):
        return f"(HPartial {cstr(getattr(obj.func, '__name__', '?'))})", list(obj.args)
    if isinstance(obj, dict):
        return "(HDict " + clist([coq_key(k) for k in obj]) + ")", list(obj.values())
    if dataclasses.is_dataclass(obj) and not isinstance(obj, type):
        fs = list(obj.__dataclass_fields__.keys())
        return f"(HData {cstr(type(obj).__name__)} " + clist([cstr(f) for f in fs]) + ")", [getattr(obj, f) for f in fs]
    if isinstance(obj, RailsConfig):
        return "(HRailsConfig 0)", []
    if isinstance(obj, ca.SpecType):
        return f"(HSpecType {cstr(obj.value)})", []
    if isinstance(obj, fl.Action):
        # the LIVE attributes, in the order of to_dict() (to_dict() itself may hand out temporaries)
        keys = ["uid", "name", "flow_uid", "status", "context", "start_event_arguments", "flow_scope_count"]
        vals = [obj.uid, obj.name, obj.flow_uid, obj.status.name, obj.context, obj.start_event_arguments, obj.flow_scope_count]
        return "(HAction " + clist([cstr(k) for k in keys]) + ")", vals
    if isinstance(obj, datetime):
        return f"(HDatetime {cstr(obj.isoformat())})", []
    if isinstance(obj, Enum):
        return f"(HEnum {cstr(type(obj).__name__)} {cstr(obj.name)})", []
    if isinstance(obj, deque):
        return "HDeque", list(obj)
    if isinstance(obj, tuple):
        return "HTuple", list(obj)
    if isinstance(obj, set):
        return "HSet", list(obj)
    if isinstance(obj, re.Pattern):
        return f"(HRegex {cstr(obj.pattern)} {C.coq_Z(obj.flags)})", []
    return f"(HOther {cstr(type(obj).__name__)})", []


def render_graph(root, max_nodes=6000):
    """-> (heap term, root term, {id(obj): n}, keepalive list)."""
    idmap = {}
    rows = []
    keep = []

    def val(x):
        if is_prim(x):
            return f"(VP {coq_prim(x)})"
        return f"(VO {ref(x)})"

    stack_guard = [0]

    def ref(obj):
        if id(obj) in idmap:
            return idmap[id(obj)]
        n = len(idmap)
        if n >= max_nodes:
            raise Unrenderable("graph too large")
        idmap[id(obj)] = n
        keep.append(obj)
        rows.append(None)
        stack_guard[0] += 1
        if stack_guard[0] > 400:
            raise Unrenderable("too deep")
        hd, kids = head_and_kids(obj)
        keep.append(kids)
        rows[n] = f"({n}, mk {hd} " + clist([val(k) for k in kids]) + ")"
        stack_guard[0] -= 1
        return n

    r = val(root)
    return clist(rows), r, idmap, keep


def _cj_raw(j):
    """JSON as is (no mark is renumbered): user data."""
    if j is None:
        return "JNull"
    if isinstance(j, bool):
        return f"(JBool {C.coq_bool(j)})"
    if isinstance(j, int):
        return f"(JInt {C.coq_Z(j)})"
    if isinstance(j, float):
        return f"(JFloat {C.coq_Z(ftoken(j))})"
    if isinstance(j, str):
        return f"(JStr {cstr(j)})"
    if isinstance(j, list):
        return "(JArr " + clist([_cj_raw(x) for x in j]) + ")"
    return "(JObj " + clist([f"({cstr(k)}, {_cj_raw(v)})" for k, v in j.items()]) + ")"


_RAW_VALUE_TYPES = ("enum", "SpecType", "datetime", "re.Pattern", "ref")
_SEQ_TYPES = ("set", "tuple", "deque")


def coq_json(j, idmap):
    """Real JSON (after json.loads) -> json term; the "__id" marks of the ENCODER's wrapper objects
    are renumbered through idmap.  The traversal follows the structure the encoder emits, so that
    user dictionaries (which may themselves have keys like "__id" or "__type") are never taken for
    wrappers: a dict at a value position is a wrapper iff it has "__type"; the "value" of a
    dict/dataclass/Action wrapper is a mapping from user keys / field names to value positions."""
    if isinstance(j, list):
        return "(JArr " + clist([coq_json(x, idmap) for x in j]) + ")"
    if not isinstance(j, dict) or "__type" not in j:
        return _cj_raw(j)
    t = j.get("__type")
    items = []
    for k, v in j.items():
        if k == "__id" and isinstance(v, int) and not isinstance(v, bool):
            if v not in idmap:
                raise TemporaryInRefs(str(v))
            items.append(f'("__id", JInt {C.coq_Z(idmap[v])})')
        elif k == "value" and t == "RailsConfig":
            items.append('("value", JInt 0)')
        elif k == "value" and isinstance(t, str) and t in _SEQ_TYPES and isinstance(v, list):
            items.append('("value", (JArr ' + clist([coq_json(x, idmap) for x in v]) + "))")
        elif k == "value" and isinstance(t, str) and t not in _RAW_VALUE_TYPES and isinstance(v, dict):
            items.append('("value", (JObj ' + clist([f"({cstr(k2)}, {coq_json(v2, idmap)})" for k2, v2 in v.items()]) + "))")
        elif k == "items" and t == "dict" and isinstance(v, list):
            prs = []
            for pr in v:
                if isinstance(pr, list) and len(pr) == 2:
                    prs.append("(JArr " + clist([coq_json(pr[0], idmap), coq_json(pr[1], idmap)]) + ")")
                else:
                    prs.append(_cj_raw(pr))
            items.append('("items", (JArr ' + clist(prs) + "))")
        else:
            items.append(f"({cstr(k)}, {_cj_raw(v)})")
    return "(JObj " + clist(items) + ")"


def canon_py(root, guide=None):
    """Canonical form (ctree term) of the graph reachable from root: objects numbered by first
    visit.  `guide` (the original graph) only fixes the order in which the members of a rebuilt
    set are listed (set iteration order is not part of the state)."""
    seen = {}
    keep = []

    def go(x, g):
        if is_prim(x):
            return f"(CP {coq_prim(x)})"
        if id(x) in seen:
            return f"(CBack {seen[id(x)]})"
        n = len(seen)
        seen[id(x)] = n
        keep.append(x)
        hd, kids = head_and_kids(x)
        gk = None
        if g is not None and not is_prim(g):
            try:
                ghd, gk = head_and_kids(g)
                if len(gk) != len(kids):
                    gk = None
            except Exception:
                gk = None
        if isinstance(x, set) and gk is not None:
            # list the members in the order of the guide's members (match by equality)
            rest = list(kids)
            ordered = []
            for ge in gk:
                for e in rest:
                    try:
                        same = (type(e) is type(ge)) and e == ge
                    except Exception:
                        same = False
                    if same:
                        ordered.append(e)
                        rest.remove(e)
                        break
            kids = ordered + rest
        keep.append(kids)
        cs = [go(k, gk[i] if gk is not None else None) for i, k in enumerate(kids)]
        return f"(CNew {n} {hd} " + clist(cs) + ")"

    return go(root, guide)


# ---------------------------------------------------------------------------------------
# X1: generated object graphs built from the REAL classes


def gen_value(rng, depth, pool):
    """A value a flow variable can hold.  `pool` collects objects that may be shared."""
    r = rng.random()
    if pool and r < 0.18:
        return rng.choice(pool)
    if depth <= 0 or r < 0.45:
        k = rng.randrange(9)
        if k == 0:
            return None
        if k == 1:
            return rng.choice([True, False])
        if k == 2:
            return rng.choice([0, 1, -3, 12, 10**12])
        if k == 3:
            return rng.choice([0.5, -2.25, 1e300, 3.0])
        if k == 4:
            v = re.compile(rng.choice(["a", "a.", "^b$", "c|d"]), rng.choice([0, 0, re.I]))
            pool.append(v)
            return v
        return rng.choice(["", "a", "hello world", "__type", "ref", 'q"uote', "ünï"])
    if r < 0.6:
        v = [gen_value(rng, depth - 1, pool) for _ in range(rng.randint(0, 3))]
    elif r < 0.75:
        keys = rng.sample(["a", "b", "k", "__id", "value", "__type", "x y"], rng.randint(0, 3))
        v = {k: gen_value(rng, depth - 1, pool) for k in keys}
        if rng.random() < 0.25:
            for k in rng.sample([1, 2, 7, False, None], rng.randint(1, 2)):
                v[k] = gen_value(rng, depth - 1, pool)
    elif r < 0.85:
        v = set()
        for _ in range(rng.randint(0, 3)):
            e = rng.choice([1, 2, "a", "b", None, 2.5, (1, "t"), ("u",)])
            v.add(e)
    elif r < 0.93:
        v = tuple(gen_value(rng, depth - 1, pool) for _ in range(rng.randint(0, 3)))
    else:
        from collections import deque

        v = deque(gen_value(rng, depth - 1, pool) for _ in range(rng.randint(0, 2)))
    pool.append(v)
    return v


def gen_state_graph(rng, kinds):
    """A State built from the real dataclasses: flow states with heads (and callbacks), actions
    referenced from several places, events, contexts with shared sub-objects."""
    from collections import deque
    from functools import partial

    fl, ser, ca = _impl()
    from nemoguardrails.colang.v2_x.runtime import statemachine as sm
    from nemoguardrails.colang.v2_x.runtime.eval import ComparisonExpression

    pool = []
    n_flows = rng.randint(1, 3)
    state = fl.State(flow_states={}, flow_configs={})
    acts = []
    for a in range(rng.randint(0, 2)):
        act = fl.Action("MyAction%d" % a, {"x": gen_value(rng, 1, pool)} if rng.random() < 0.7 else {}, flow_uid="f0")
        act.uid = "act%d" % a
        act.status = rng.choice(list(fl.ActionStatus))
        if rng.random() < 0.5:
            act.context = {"k": gen_value(rng, 1, pool)}
        state.actions[act.uid] = act
        acts.append(act)
        pool.append(act)
    events = []
    for e in range(rng.randint(0, 2)):
        kind = rng.randrange(3)
        if kind == 0:
            ev = fl.Event("Ev%d" % e, {"a": gen_value(rng, 1, pool)})
        elif kind == 1:
            ev = fl.ActionEvent("MyActionFinished", {"r": 1}, action_uid="act0", action=acts[0] if acts else None)
        else:
            ev = fl.InternalEvent("FlowFinished", {"flow_id": "f"}, matching_scores=[0.5, 1.0])
        events.append(ev)
        pool.append(ev)
    fss = []
    for f in range(n_flows):
        uid = "(f%d)u%d" % (f, f)
        fs = fl.FlowState(uid=uid, flow_id="f%d" % f, loop_id=rng.choice([None, "L"]), hierarchy_position="0.%d" % f)
        for hn in range(rng.randint(1, 2)):
            h = fl.FlowHead(uid="h%d_%d" % (f, hn), flow_state_uid=uid, matching_scores=[1.0] if rng.random() < 0.5 else [],
                            scope_uids=["s"] if rng.random() < 0.3 else [])
            h._position = rng.randint(0, 5)
            h._status = rng.choice(list(fl.FlowHeadStatus))
            if rng.random() < 0.9:
                h.position_changed_callback = partial(sm._flow_head_changed, state, fs)
                h.status_changed_callback = partial(sm._flow_head_changed, state, fs)
            else:
                kinds["head_without_callbacks"] = kinds.get("head_without_callbacks", 0) + 1
            fs.heads[h.uid] = h
        fs._status = rng.choice(list(fl.FlowStatus))
        fs.activated = rng.choice([0, 0, 1])
        if rng.random() < 0.4:
            fs.scopes["sc"] = ([uid], [a.uid for a in acts])
        for v in range(rng.randint(0, 4)):
            fs.context["v%d" % v] = gen_value(rng, 3, pool)
        if acts and rng.random() < 0.7:
            fs.context["act"] = rng.choice(acts)
            fs.action_uids.append(fs.context["act"].uid)
        if events and rng.random() < 0.5:
            fs.context["ev"] = rng.choice(events)
        if fss and rng.random() < 0.5:
            fs.context["ref"] = rng.choice(fss)              # reference to an earlier flow state (acyclic)
            fs.parent_uid = fs.context["ref"].uid
        fs.arguments = {"p": gen_value(rng, 1, pool)} if rng.random() < 0.4 else {}
        if rng.random() < 0.5:
            fs.status_updated = fss[0].status_updated if fss else fs.status_updated
        state.flow_states[uid] = fs
        state.flow_id_states.setdefault(fs.flow_id, []).append(fs)
        fss.append(fs)
    state.main_flow_state = fss[0]
    state.context = {"g": gen_value(rng, 2, pool)} if rng.random() < 0.6 else {}
    state.last_events = [rng.choice(events)] if events and rng.random() < 0.6 else []
    state.outgoing_events = [{"type": "Out", "v": gen_value(rng, 1, pool)}] if rng.random() < 0.4 else []
    if rng.random() < 0.3:
        state.internal_events = deque(events[:1])
    for fs in fss:
        for h in fs.heads.values():
            if rng.random() < 0.6:
                state.event_matching_heads.setdefault("Ev", []).append((fs.uid, h.uid))
                state.event_matching_heads_reverse_map[fs.uid + h.uid] = "Ev"
    # shapes outside `supported`
    q = rng.random()
    if q < 0.05:
        fss[-1].context["cmp"] = ComparisonExpression(lambda v: v < 5, 5)
        kinds["unsupported_object"] = kinds.get("unsupported_object", 0) + 1
    elif q < 0.10:
        lst = [1]
        lst.append(fss[0] if rng.random() < 0.5 else lst)
        fss[0].context["cyc"] = lst
        kinds["cyclic"] = kinds.get("cyclic", 0) + 1
    elif q < 0.2 and fss:
        shared = [1, 2]
        fss[0].context["la"] = shared
        fss[-1].context["lb"] = shared
        fss[0].context["lc"] = shared
        kinds["shared_list"] = kinds.get("shared_list", 0) + 1
    return state


REAL_STATE_PROGRAMS = ["three-live-actions", "actions-in-two-flows", "two-flows-one-action", "shared-action-owner-finishes", "action-status-through-reference",
                       "set-variable", "finished-child-then-idle", "activated-restarts", "regex-variable", "int-keys"]
OR_GROUP_PROGRAM = 'flow main\n  match E1() or E2()\n  send Out1(v=1)\n  match E3() and E2()\n  send Out2(v=2)\n  match Never()\n'


def real_states():
    """Reachable states of the real interpreter (probe programs, 0..2 events), for X1 and for the
    decidable hypothesis of C11_state_roundtrip."""
    import logging

    from harness import v2util

    logging.disable(logging.CRITICAL)
    out = []
    progs = [(n, PROBES[n]) for n in REAL_STATE_PROGRAMS] + [("or-and-group", OR_GROUP_PROGRAM)]
    for name, src in progs:
        try:
            st = _fresh_state(src)
            st = v2util.start_main(st)
            out.append((name + "@0", st))
            started = [e["action_uid"] for e in st.outgoing_events if isinstance(e, dict) and "action_uid" in e]
            for k, ev in enumerate([{"type": "E1", "x": "a"}, {"type": "E2"}]):
                import copy

                st = copy.deepcopy(st)
                st = v2util.step(st, dict(ev))
                out.append((f"{name}@{k + 1}", st))
        except Exception:
            continue
    return out


def oracle_applicable(root):
    """The shape-and-sharing oracle applies to graphs the code is expected to restore exactly: no
    list referenced twice (recorded finding) and, for States, heads with both callbacks."""
    fl, ser, ca = _impl()
    fg = _shape_flags(root)
    if fg["shared_list"] or fg["cyclic"] or fg["other"]:
        return False
    if isinstance(root, fl.State):
        for f in root.flow_states.values():
            for hd in f.heads.values():
                if hd.position_changed_callback is None or hd.status_changed_callback is None:
                    return False
    return True


def x1_case(root, mode):
    """Run the real encoder/decoder on `root`; -> (coq case term, info) ; mode 0/1."""
    fl, ser, ca = _impl()
    heap, r, idmap, keep = render_graph(root)
    info = {"nodes": len(idmap), "enc": "ok", "dec": "ok"}
    cj = cd = "None"
    decoded = None
    d = js = None
    try:
        if mode == 1:
            js = ser.state_to_json(root)
            d = json.loads(js)
        else:
            d = ser.encode_to_dict(root, {})
            js = json.dumps(d)
            d = json.loads(js)
    except RecursionError:
        info["enc"] = "RecursionError"
    except Exception as e:  # noqa
        info["enc"] = type(e).__name__ + ":" + str(e)[:60]
    if info["enc"] == "ok":
        try:
            cj = "(Some " + coq_json(d, idmap) + ")"
        except TemporaryInRefs as ex:
            # the model (which never registers temporaries) will disagree with this JSON; keep the
            # case: the marks of temporaries are renumbered to -1
            info["temporary_in_refs"] = True
            tmp = dict(idmap)

            class _M(dict):
                def __contains__(self, k):
                    return True

                def __getitem__(self, k):
                    return tmp.get(k, -1)

            cj = "(Some " + coq_json(d, _M()) + ")"
        try:
            decoded = ser.json_to_state(js) if mode == 1 else ser.decode_from_dict(json.loads(js), {})
            cd_inner = canon_py(decoded, root)
            cd = "(Some " + cd_inner + ")"
            # direct oracle, independent of the model: the restored graph has the canonical form
            # (first-visit numbering = shape + sharing) of the original
            info["same_shape_and_sharing"] = (cd_inner == canon_py(root)) if oracle_applicable(root) else None
        except RecursionError:
            info["dec"] = "RecursionError"
        except Exception as e:  # noqa
            info["dec"] = type(e).__name__ + ":" + str(e)[:60]
    term = f"({heap}, {r}, {mode}, {cj}, {cd})"
    return term, info, decoded


# ---------------------------------------------------------------------------------------
# X2: behavioural oracle on the real interpreter (runs in child processes)

VALUE_EXPRS = [
    '1', '2.5', '"txt"', 'None', 'True', '[1, 2]', '{"a", "b"}', '{"k": [1, {"z": 2}]}',
    '{1: "x", 2: "y"}', 'regex("a.")', '[regex("b"), "c"]', '{"s": {"p", "q"}}', '[[1], [2, [3]]]',
    '{"n": None, "f": 0.5}', '[]', '{"a"}',
]
PATTERNS = ['', 'x="a"', 'x=regex("a")', 'x=1', 'x={"a"}', 'x=[1]']
EVENT_ALPHABET = [
    {"type": "E1", "x": "a"}, {"type": "E1", "x": 1}, {"type": "E2"}, {"type": "E3"},
    {"type": "MyActionFinished", "action_uid": "@0"}, {"type": "MyActionStarted", "action_uid": "@0"},
    {"type": "MyActionFinished", "action_uid": "@1"}, {"type": "E1", "x": ["a"]},
]

HELPERS = '''flow f1 $p
  match E1()
  send F1Out(v=len($p))
  return $p

flow f2
  start MyAction(x=1) as $a
  match $a.Finished()
  send F2Done()

flow f3 $p
  $q = $p
  match E2()
  send F3Out(v=$q)

flow f4 $act
  match $act.Finished()
  send F4Fin(n=$act.name, s=str($act.status))

flow f5 $act
  match E2()
  send F5Report(s=str($act.status), n=$act.name)

flow s1
  match E1(x="a")
  start MyAction(x=7) as $a
  match E2()
  send S1Done(s=str($a.status))

flow s2
  match E1()
  start MyAction(x=7) as $a
  match $a.Finished()
  send S2Fin(s=str($a.status))
  match E3()
  send S2Done()

flow s3
  match E1()
  await MyAction(x=7)
  send S3Done()

flow g1
  match E3()
  send G1()

flow g2
  match E1(x="a")
  $c = 1
  send G2(c=$c)
'''


def gen_program(rng, stats):
    """A Colang 2 program: variables holding sets, regexes, nested containers, references to
    flows / actions / events; start / await / activate / when; pending actions."""
    lines = ["flow main"]
    vars_, refs, acts, evs = [], [], [], []
    n_out = [0]

    def out(expr):
        n_out[0] += 1
        return f"  send Out{n_out[0]}(v={expr})"

    def use_expr():
        c = []
        if vars_:
            v = rng.choice(vars_)
            c += [f"${v}", f"len(${v})", f"type(${v})", f"is_regex(${v})", f"str(${v}) + \"!\""]
        if refs:
            c += [f"${rng.choice(refs)}.flow_id", f"${rng.choice(refs)}.hierarchy_position"]
        if acts:
            c += [f"${rng.choice(acts)}.name", f"str(${rng.choice(acts)}.status)", f"str(${rng.choice(acts)}.status)",
                  f"${rng.choice(acts)}.p", f"${rng.choice(acts)}.start_event_arguments", f"${rng.choice(acts)}.p"]
        if evs:
            c += [f"${rng.choice(evs)}.name"]
        return rng.choice(c) if c else "1"

    n = rng.randint(4, 9)
    for k in range(n):
        r = rng.random()
        if r < 0.22:
            v = f"v{len(vars_)}"
            lines.append(f"  ${v} = {rng.choice(VALUE_EXPRS)}")
            vars_.append(v)
            stats["assign"] = stats.get("assign", 0) + 1
        elif r < 0.27 and vars_:
            v = f"v{len(vars_)}"
            lines.append(f"  ${v} = ${rng.choice(vars_)}")
            vars_.append(v)
            stats["alias"] = stats.get("alias", 0) + 1
        elif r < 0.30 and vars_:
            lines.append(f"  $tmp{k} = ${rng.choice(vars_)}.append({rng.choice(['9', '\"z\"'])})")
            stats["mutate"] = stats.get("mutate", 0) + 1
        elif r < 0.42:
            f = rng.choice(["f1", "f3"])
            arg = f"${rng.choice(vars_)}" if vars_ else rng.choice(VALUE_EXPRS[:8])
            ref = f"r{len(refs)}"
            lines.append(f"  start {f} {arg} as ${ref}")
            refs.append(ref)
            stats["start_flow"] = stats.get("start_flow", 0) + 1
        elif r < 0.48:
            ref = f"r{len(refs)}"
            lines.append(f"  start f2 as ${ref}")
            refs.append(ref)
            stats["start_flow_with_action"] = stats.get("start_flow_with_action", 0) + 1
        elif r < 0.58:
            a = f"a{len(acts)}"
            arg = rng.choice(VALUE_EXPRS) if not vars_ or rng.random() < 0.5 else f"${rng.choice(vars_)}"
            lines.append(f"  start MyAction(p={arg}) as ${a}")
            acts.append(a)
            stats["start_action"] = stats.get("start_action", 0) + 1
            if rng.random() < 0.5:
                lines.append(f"  start {rng.choice(['f4', 'f5'])} ${a}")
                stats["flow_given_action_ref"] = stats.get("flow_given_action_ref", 0) + 1
        elif r < 0.62:
            lines.append(f"  activate {rng.choice(['g1', 'g2'])}")
            stats["activate"] = stats.get("activate", 0) + 1
        elif r < 0.66:
            # two flows that start the identical action on the same event (one shared Action)
            for f in rng.sample(["s1", "s2", "s3"], 2):
                lines.append(f"  start {f}")
            stats["co_winning_actions"] = stats.get("co_winning_actions", 0) + 1
        elif r < 0.80:
            e = f"e{len(evs)}"
            ev = rng.choice(["E1", "E2", "E3"])
            pat = rng.choice(PATTERNS) if ev == "E1" else ""
            if rng.random() < 0.4:
                lines.append(f"  match {ev}({pat}) as ${e}")
                evs.append(e)
            else:
                lines.append(f"  match {ev}({pat})")
            stats["match"] = stats.get("match", 0) + 1
        elif r < 0.85 and refs:
            lines.append(f"  match ${rng.choice(refs)}.Finished()")
            stats["match_flow_finished"] = stats.get("match_flow_finished", 0) + 1
        elif r < 0.89 and acts:
            lines.append(f"  match ${rng.choice(acts)}.Finished()")
            stats["match_action_finished"] = stats.get("match_action_finished", 0) + 1
        elif r < 0.905:
            # ask the library whether a flow (that may have run and ended long ago) exists
            fid = rng.choice(["f1", "f2", "f3", "g1", "s1", "nope"])
            x = f"x{k}"
            lines.append(f'  ${x} = await {rng.choice(["CheckValidFlowExistsAction", "CheckValidFlowExistsAction", "CheckFlowDefinedAction"])}(flow_id="{fid}")')
            lines.append(out(f"${x}"))
            stats["flow_existence_query"] = stats.get("flow_existence_query", 0) + 1
        elif r < 0.93:
            lines.append("  when E2()")
            lines.append("  " + out(use_expr()))
            lines.append("  or when E3()")
            lines.append("  " + out(use_expr()))
            stats["when"] = stats.get("when", 0) + 1
        elif r < 0.96 and vars_:
            lines.append(f"  await f1 ${rng.choice(vars_)}")
            stats["await"] = stats.get("await", 0) + 1
        else:
            lines.append(out(use_expr()))
            stats["send"] = stats.get("send", 0) + 1
    lines.append(out(use_expr()))
    lines.append("  match Never()")
    return HELPERS + "\n" + "\n".join(lines) + "\n"


# programs that exercise the recorded defect classes deterministically (always run)
PROBES = {
    "regex-variable": 'flow main\n  $r = regex("a")\n  match E1(x=$r)\n  send Out1(v=1)\n  match Never()\n',
    "int-keys": 'flow main\n  $d = {1: "a", 2: "b"}\n  match E2()\n  send Out1(v=$d[1])\n  match Never()\n',
    "action-set-argument": 'flow main\n  start MyAction(tags={"a", "b"}) as $a0\n  match E2()\n  send Out1(v=$a0.name)\n  match Never()\n',
    "comparison-expression": 'flow main\n  $c = less_than(5)\n  match E1(x=$c)\n  send Out1(v=1)\n  match Never()\n',
    "cyclic-list": 'flow main\n  $l = [1]\n  $q = $l.append($l)\n  match E2()\n  send Out1(v=len($l))\n  match Never()\n',
    "shared-list": 'flow main\n  $a = [1]\n  $b = $a\n  match E2()\n  $x = $a.append(2)\n  send Out1(v=$b)\n  match Never()\n',
    "two-flows-one-action": HELPERS + '\nflow main\n  start MyAction(x=1) as $a0\n  start f4 $a0\n  start f4 $a0\n  match E2()\n  send Out1(v=$a0.name)\n  match $a0.Finished()\n  send Out2(v=1)\n  match Never()\n',
    "set-variable": 'flow main\n  $s = {"a", "b"}\n  match E2()\n  send Out1(v=len($s), t=type($s))\n  match E1(x=$s)\n  send Out2(v=1)\n  match Never()\n',
    "finished-child-then-idle": HELPERS + '\nflow main\n  start f1 [1] as $r0\n  match $r0.Finished()\n  send Out1(v=$r0.flow_id)\n  match E2()\n  send Out2(v=$r0.flow_id)\n  start f1 [2] as $r1\n  match $r1.Finished()\n  send Out3(v=1)\n  match Never()\n',
    "shared-action-owner-finishes": HELPERS + '\nflow main\n  start s1\n  start s2\n  match Never()\n',
    "shared-action-awaited": HELPERS + '\nflow main\n  start s1\n  start s3\n  match Never()\n',
    "action-status-through-reference": HELPERS + '\nflow main\n  start MyAction(x=1) as $a0\n  start f5 $a0\n  match E1()\n  send MainReport(s=str($a0.status))\n  match $a0.Finished()\n  send Fin(s=str($a0.status))\n  match Never()\n',
    "three-live-actions": 'flow main\n  start MyAction(p="one") as $a0\n  start OtherAction(q="wave", n=2) as $a1\n  start ThirdAction(r={"idle"}) as $a2\n  match E2()\n  send Out1(a=$a0.p, b=$a1.q, c=len($a2.r), d=$a1.start_event_arguments)\n  match E3()\n  send Out2(v=1)\n  match Never()\n',
    "actions-in-two-flows": HELPERS + '\nflow k1\n  start MyAction(p="k1") as $a\n  match E2()\n  send K1(v=$a.p, s=str($a.status))\n\nflow k2\n  start MyAction(p="k2") as $a\n  match E2()\n  send K2(v=$a.p, s=str($a.status))\n\nflow main\n  start k1\n  start k2\n  start MyAction(p="main") as $a0\n  match E2()\n  send Out1(v=$a0.p)\n  match Never()\n',
    "flow-exists-after-idle": 'flow helper\n  send HelperRan()\n\nflow main\n  match E1()\n  await helper\n  match E2()\n  $exists = await CheckValidFlowExistsAction(flow_id="helper")\n  $defd = await CheckFlowDefinedAction(flow_id="helper")\n  send Result(exists=$exists, defined=$defd)\n  match E3()\n  await helper\n  send Done()\n  match Never()\n',
    "activated-restarts": HELPERS + '\nflow main\n  activate g1\n  activate g2\n  match E2()\n  send Out1(v=1)\n  match Never()\n',
}

# histories / continuations of probes that need longer, specific event sequences
_A = EVENT_ALPHABET
PROBE_PLANS = {
    "flow-exists-after-idle": {
        "histories": [[_A[0]], [_A[0], _A[2]]],
        "continuations": [[_A[2], _A[3]], [_A[2]], [_A[3]], [_A[1], _A[2], _A[3]]]},
    "shared-action-owner-finishes": {
        "histories": [[_A[0], _A[5], _A[2]], [_A[0], _A[2]]],
        "continuations": [[_A[3], _A[4], _A[3]], [_A[4], _A[3]], [_A[4]], [_A[3]], [_A[1], _A[4], _A[3]]]},
    "shared-action-awaited": {
        "histories": [[_A[0], _A[5], _A[2]], [_A[0], _A[2]]],
        "continuations": [[_A[3], _A[4]], [_A[4]], [_A[1], _A[4], _A[3]]]},
    "action-status-through-reference": {
        "histories": [[_A[5]], [_A[5], _A[0]]],
        "continuations": [[_A[5], _A[0], _A[2]], [_A[4], _A[0], _A[2]], [_A[0], _A[4], _A[2]], [_A[2], _A[4]], [_A[4], _A[2]]]},
}

_UUID_RE = re.compile(r"[0-9a-f]{8}-[0-9a-f]{4}-[0-9a-f]{4}-[0-9a-f]{4}-[0-9a-f]{12}|\([a-z_0-9 ]+\)[0-9a-f]{4,5}-[0-9a-f]{2,}")


class _StepTimeout(BaseException):
    """Raised from SIGALRM inside a child process: not swallowed by the interpreter's `except Exception`."""


def _alarm_handler(signum, frame):
    raise _StepTimeout()


STEP_SECONDS = 6


class _Renamer:
    def __init__(self):
        self.m = {}

    def sub(self, s):
        def rep(mo):
            k = mo.group(0)
            if k not in self.m:
                self.m[k] = "@uid%d" % len(self.m)
            return self.m[k]

        return _UUID_RE.sub(rep, s)

    def canon(self, x):
        if isinstance(x, str):
            return self.sub(x)
        if isinstance(x, dict):
            return {self.canon(k) if isinstance(k, str) else repr(k): self.canon(v) for k, v in x.items()
                    if k not in ("uid", "event_created_at", "source_uid")}
        if isinstance(x, (list, tuple)):
            return [self.canon(v) for v in x]
        if isinstance(x, (set, frozenset)):
            return {"__set__": sorted((json.dumps(self.canon(v), sort_keys=True, default=repr) for v in x))}
        if isinstance(x, re.Pattern):
            return {"__regex__": x.pattern}
        if x is None or isinstance(x, (bool, int, float)):
            return x
        return {"__obj__": type(x).__name__}


class _Clock:
    """Controllable replacement of `datetime` in statemachine.py / flows.py (harness process only)."""

    offset = 0.0

    @classmethod
    def install(cls):
        import datetime as dtm

        from nemoguardrails.colang.v2_x.runtime import flows as fl
        from nemoguardrails.colang.v2_x.runtime import statemachine as sm

        base = dtm.datetime.now()

        class FakeDT(dtm.datetime):
            @classmethod
            def now(klass, tz=None):
                return base + dtm.timedelta(seconds=cls.offset)

        sm.datetime = FakeDT
        fl.datetime = FakeDT


def _index_invariant(state):
    """Hypothesis of C11_cleanup_commutes_partial, checked on real states: every entry of the
    matcher index names a head of an existing flow state that is not done."""
    from nemoguardrails.colang.v2_x.runtime.statemachine import _is_done_flow

    bad = []
    for name, heads in state.event_matching_heads.items():
        for fuid, huid in heads:
            fs = state.flow_states.get(fuid)
            if fs is None or huid not in fs.heads or _is_done_flow(fs):
                bad.append((name, fuid, huid, None if fs is None else fs.status.name))
    return bad


def _shape_flags(state):
    """Why a state may be outside `supported`: shared lists, cycles, unsupported objects."""
    import functools

    seen, onpath = {}, set()
    flags = {"shared_list": False, "cyclic": False, "nonstr_keys": False, "other": set()}

    def go(x, depth):
        if is_prim(x) or depth > 300:
            return
        if id(x) in onpath:
            flags["cyclic"] = True
            return
        if id(x) in seen:
            if isinstance(x, list):
                flags["shared_list"] = True
            return
        seen[id(x)] = x
        if isinstance(x, functools.partial):
            return
        if isinstance(x, dict) and any(not isinstance(k, str) for k in x):
            flags["nonstr_keys"] = True
        try:
            hd, kids = head_and_kids(x)
        except Exception:
            return
        if hd.startswith("(HOther"):
            flags["other"].add(type(x).__name__)
        onpath.add(id(x))
        for k in kids:
            go(k, depth + 1)
        onpath.discard(id(x))

    go(state, 0)
    flags["other"] = sorted(flags["other"])
    return flags


_CFG_CACHE = {}

# library actions that only read the interpreter state: executed in the harness by the real code
_SYSTEM_ACTIONS = {"StartCheckValidFlowExistsAction": "check_if_flow_exists",
                   "StartCheckFlowDefinedAction": "check_if_flow_defined"}


def _run_system_action(state, ev):
    import asyncio

    from nemoguardrails.actions.v2_x.generation import LLMGenerationActionsV2dotx as G

    fn = getattr(G, _SYSTEM_ACTIONS[ev["type"]])
    try:
        return asyncio.run(fn(None, state=state, flow_id=ev.get("flow_id")))
    except Exception as ex:  # noqa
        return "raised:" + type(ex).__name__



def _fresh_state(src):
    """Parse once per program; every run gets its own copy of the flow configs."""
    import copy

    from nemoguardrails.colang import parse_colang_file
    from nemoguardrails.colang.v2_x.runtime.flows import State
    from nemoguardrails.colang.v2_x.runtime.runtime import create_flow_configs_from_flow_list
    from nemoguardrails.colang.v2_x.runtime.statemachine import initialize_state

    if src not in _CFG_CACHE:
        _CFG_CACHE[src] = create_flow_configs_from_flow_list(
            parse_colang_file(filename="", content=src, include_source_mapping=True, version="2.x")["flows"])
    state = State(flow_states=[], flow_configs=copy.deepcopy(_CFG_CACHE[src]))
    initialize_state(state)
    return state


def _run_trace(src, events, cut, mode, pick):
    """Run `events` on a fresh state; at `cut` apply `mode`:
       live     : nothing
       restored : json_to_state(state_to_json(s))
       aged     : the clock advances by 6 s before every later event
       aged+restored : both.
    Returns (list of canonical outputs per step AFTER the cut, info)."""
    import random as _random
    import signal

    from harness import v2util
    from nemoguardrails.colang.v2_x.runtime import serialization as ser

    signal.signal(signal.SIGVTALRM, _alarm_handler)
    _Clock.offset = 0.0
    _random.choice = (lambda seq: seq[0]) if pick == 0 else (lambda seq: seq[-1])
    info = {}
    ren = _Renamer()
    started = []   # action uids in order of their Start event
    state = _fresh_state(src)
    outs = []

    def step(st, ev, record):
        ev = dict(ev)
        if isinstance(ev.get("action_uid"), str) and ev["action_uid"].startswith("@"):
            k = int(ev["action_uid"][1:])
            ev["action_uid"] = started[k] if k < len(started) else "none"
        try:
            signal.setitimer(signal.ITIMER_VIRTUAL, STEP_SECONDS)      # CPU time of this process: immune to machine load
            try:
                st = v2util.step(st, ev) if ev.get("type") != "__start__" else v2util.start_main(st)
            finally:
                signal.setitimer(signal.ITIMER_VIRTUAL, 0)
            o = list(st.outgoing_events)
            # state-reading library actions are executed by the REAL action code (as the runtime
            # would do) and their result is fed back at once
            for _round in range(6):
                pend = [e for e in st.outgoing_events if isinstance(e, dict) and e.get("type") in _SYSTEM_ACTIONS]
                if not pend:
                    break
                for e in pend:
                    rv = _run_system_action(st, e)
                    fin = {"type": e["type"][5:] + "Finished", "action_uid": e["action_uid"], "is_success": True,
                           "return_value": rv, "action_name": e["type"][5:]}
                    signal.setitimer(signal.ITIMER_VIRTUAL, STEP_SECONDS)
                    try:
                        st = v2util.step(st, fin)
                    finally:
                        signal.setitimer(signal.ITIMER_VIRTUAL, 0)
                    o += list(st.outgoing_events)
            for e in o:
                if isinstance(e, dict) and str(e.get("type", "")).startswith("Start") and "action_uid" in e \
                        and e.get("type") not in _SYSTEM_ACTIONS:
                    started.append(e["action_uid"])
            res = ren.canon(o)
        except BaseException as ex:  # noqa
            if isinstance(ex, (KeyboardInterrupt, SystemExit)):
                raise
            res = {"__raised__": type(ex).__name__}
        if record:
            outs.append(res)
        return st

    seq = [{"type": "__start__"}] + list(events)
    for i, ev in enumerate(seq):
        if i == cut:
            bad = _index_invariant(state)
            if bad:
                info["index_invariant_violated"] = [list(b) for b in bad[:3]]
            if "restored" in mode:
                try:
                    js = ser.state_to_json(state)
                except BaseException as ex:  # noqa
                    info["save_raised"] = type(ex).__name__ + ": " + str(ex)[:120]
                    info["shape"] = _shape_flags(state)
                    return None, info
                try:
                    state = ser.json_to_state(js)
                except BaseException as ex:  # noqa
                    info["restore_raised"] = type(ex).__name__ + ": " + str(ex)[:120]
                    return None, info
            if mode == "live":
                info["shape"] = _shape_flags(state)
                info["n_flows"] = len(state.flow_states)
                info["n_done"] = sum(1 for f in state.flow_states.values() if f.status.name in ("FINISHED", "STOPPED"))
                info["n_actions"] = len(state.actions)
        if i >= cut and "aged" in mode:
            _Clock.offset += 6.0
        state = step(state, ev, i >= cut)
    info["flows_after"] = len(state.flow_states)
    return outs, info


def worker_main():
    """Child process: reads a job (JSON) from argv[1], writes results to argv[2]."""
    import logging

    logging.disable(logging.CRITICAL)
    job = json.load(open(sys.argv[1]))
    sys.path.insert(1, C.REPO)
    _Clock.install()
    results = []
    t_end = time.time() + job.get("budget_s", 150)
    n_items = len(job["items"])
    for k_item, item in enumerate(job["items"]):
        src, pid_ = item["src"], item["id"]
        # every program gets its share of what is left of the budget
        item_end = time.time() + max(0.0, (t_end - time.time()) / max(1, n_items - k_item))
        try:
            _fresh_state(src)
        except Exception as ex:  # not a program of the language: not a case
            results.append({"id": pid_, "skipped": "parse: " + type(ex).__name__})
            continue
        rec = {"id": pid_, "runs": 0, "diffs": [], "save_failures": [], "cuts": 0, "invariant": [], "aged_removed": 0,
               "nontrivial_cuts": 0}
        for hist in item["histories"]:
            for cut in range(1, len(hist) + 2):       # cut before event index `cut` (after start + cut-1 events)
                if time.time() > item_end:
                    rec["truncated"] = True
                    break
                for cont in item["continuations"]:
                    if time.time() > item_end:
                        rec["truncated"] = True
                        break
                    evs = hist[: cut - 1] + cont
                    for pick in item.get("picks", [0]):
                        live, li = _run_trace(src, evs, cut, "live", pick)
                        rec["runs"] += 1
                        if li.get("index_invariant_violated"):
                            rec["invariant"].append({"history": hist[: cut - 1], "bad": li["index_invariant_violated"]})
                        nontriv = li.get("n_flows", 0) >= 2 and (li.get("n_actions", 0) > 0 or li.get("n_done", 0) > 0)
                        for mode in ("restored", "aged", "aged+restored"):
                            got, gi = _run_trace(src, evs, cut, mode, pick)
                            rec["runs"] += 1
                            if got is None:
                                rec["save_failures"].append({"history": hist[: cut - 1], "mode": mode, "info": gi,
                                                             "shape": gi.get("shape") or li.get("shape")})
                                continue
                            if mode == "aged" and gi.get("flows_after", 0) < li.get("flows_after", 0):
                                rec["aged_removed"] += 1
                            if got != live:
                                # confirm: a difference is reported only if it reproduces
                                live2, _li2 = _run_trace(src, evs, cut, "live", pick)
                                got2, _gi2 = _run_trace(src, evs, cut, mode, pick)
                                rec["runs"] += 2
                                if live2 != live or got2 != got:
                                    rec["unconfirmed_diffs"] = rec.get("unconfirmed_diffs", 0) + 1
                                    continue
                                rec["diffs"].append({"history": hist[: cut - 1], "continuation": cont, "mode": mode, "pick": pick,
                                                     "live": live, "other": got, "shape": li.get("shape")})
                        rec["cuts"] += 1
                        rec["nontrivial_cuts"] += 1 if nontriv else 0
        # keep the result small
        rec["diffs"] = rec["diffs"][:6]
        rec["save_failures"] = rec["save_failures"][:6]
        rec["invariant"] = rec["invariant"][:3]
        results.append(rec)
        json.dump(results, open(sys.argv[2] + ".part", "w"), default=repr)
    json.dump(results, open(sys.argv[2], "w"), default=repr)


# ---------------------------------------------------------------------------------------
# X3: the real _clean_up_state against V2/Cleanup.v on abstracted real states

PREAMBLE_CL = """From Coq Require Import ZArith List String.
From NG Require Import V2.Cleanup V2.CleanupRun.
Import ListNotations.
Open Scope string_scope.
Open Scope Z_scope.
"""


def _abstract_state(state, base, actnum):
    """Real State -> term of V2/Cleanup.v `state` (actions are opaque numbers, clock in microseconds).
    base=None: the timestamps and the actions are abstracted to 0 (what BridgeDef.alpha ts0 reads)."""
    def us(dt):
        if base is None:
            return 0
        d = dt - base
        return d.days * 86400 * 10**6 + d.seconds * 10**6 + d.microseconds

    rows = []
    for uid, fs in state.flow_states.items():
        heads = clist([f"({cstr(h)}, {clist([C.coq_Z(ftoken(float(x))) for x in hd.matching_scores])})"
                       for h, hd in fs.heads.items()])
        par = "None" if fs.parent_uid is None else f"(Some {cstr(fs.parent_uid)})"
        scopes = clist([f"({cstr(k)}, {clist([cstr(u) for u in v[0]])})" for k, v in fs.scopes.items()])
        rows.append(f"({cstr(uid)}, mkInst {cstr(fs.flow_id)} {cstr(fs.status.name)} {C.coq_Z(us(fs.status_updated))} "
                    f"{C.coq_Z(int(fs.activated))} {par} {clist([cstr(c) for c in fs.child_flow_uids])} "
                    f"{clist([cstr(a) for a in fs.action_uids])} {heads} {scopes} 0)")
    byf = clist([f"({cstr(k)}, {clist([cstr(f.uid) for f in v])})" for k, v in state.flow_id_states.items()])
    acts = []
    for k, a in state.actions.items():
        actnum.setdefault(id(a), len(actnum))
        acts.append(f"({cstr(k)}, {0 if base is None else actnum[id(a)]})")
    return f"(mkState {clist(rows)} {byf} {clist(acts)} 0)"


def _x3_cases(src, events, rng_seed, limit):
    """Run the program with a clock that advances irregularly; at every point evaluate the real
    _clean_up_state on a copy for several clock values."""
    import copy
    import datetime as dtm
    import random as _random

    from harness import v2util
    from nemoguardrails.colang.v2_x.runtime import statemachine as sm

    rr = _random.Random(rng_seed)
    _random.choice = lambda seq: seq[0]
    _Clock.offset = 0.0
    base = sm.datetime.now()
    state = _fresh_state(src)
    cases = []
    started = []
    seq = [{"type": "__start__"}] + list(events)
    for ev in seq:
        ev = dict(ev)
        if isinstance(ev.get("action_uid"), str) and ev["action_uid"].startswith("@"):
            k = int(ev["action_uid"][1:])
            ev["action_uid"] = started[k] if k < len(started) else "none"
        try:
            state = v2util.start_main(state) if ev["type"] == "__start__" else v2util.step(state, ev)
        except BaseException:  # noqa
            break
        for e in state.outgoing_events:
            if isinstance(e, dict) and str(e.get("type", "")).startswith("Start") and "action_uid" in e:
                started.append(e["action_uid"])
        _Clock.offset += rr.choice([0.0, 0.5, 2.0, 3.0, 4.999999, 5.000001])
        for delta in (0.0, rr.choice([1.0, 2.5, 5.0, 5.000001, 7.0]), 100.0):
            if len(cases) >= limit:
                return cases
            saved = _Clock.offset
            _Clock.offset = saved + delta
            now = sm.datetime.now() - base
            now_us = now.days * 86400 * 10**6 + now.seconds * 10**6 + now.microseconds
            st2 = copy.deepcopy(state)
            actnum = {}
            # number the actions on the copy (same objects before and after the clean-up)
            before = _abstract_state(st2, base, actnum)
            n_before = len(st2.flow_states)
            snapshot = {u: (f.status.name, int(f.activated), f.status_updated) for u, f in st2.flow_states.items()}
            keys_before = list(st2.flow_id_states)
            acts_before = set(st2.actions)
            refd = None
            try:
                sm._clean_up_state(st2)
                after = "(Some " + _abstract_state(st2, base, actnum) + ")"
            except Exception:
                after = "None"
            # direct oracle (independent restatement of the property text): only long-finished,
            # non-activated instances may be discarded
            wrong = []
            tnow = sm.datetime.now()
            for u, (stn, actv, upd) in snapshot.items():
                if u not in st2.flow_states:
                    age_s = (tnow - upd).total_seconds()
                    if stn not in ("FINISHED", "STOPPED") or actv != 0 or not age_s > 5.0:
                        wrong.append({"uid": u, "status": stn, "activated": actv, "age_s": age_s})
            # ... the flows that ever ran stay known (flow_id_states keys are read by library actions)
            if after != "None":
                for k in keys_before:
                    if k not in st2.flow_id_states:
                        wrong.append({"uid": k, "status": "FLOWKEY", "activated": 0, "age_s": 0.0})
            # ... and no action that a remaining instance still lists may be discarded
            if after != "None":
                for u, f in st2.flow_states.items():
                    for a in f.action_uids:
                        if a in acts_before and a not in st2.actions:
                            wrong.append({"uid": u, "status": "ACTION:" + a, "activated": 0, "age_s": 0.0})
            _Clock.offset = saved
            cases.append({"term": f"({C.coq_Z(now_us)}, {before}, {after})", "removed": n_before - len(st2.flow_states),
                          "flows": n_before, "wrong": wrong[:3], "src": src if wrong else None,
                          "events": list(events) if wrong else None, "clock_s": saved + delta,
                          "seed": rng_seed, "limit": limit})
    return cases


def x3_worker_main():
    import logging

    logging.disable(logging.CRITICAL)
    job = json.load(open(sys.argv[1]))
    sys.path.insert(1, C.REPO)
    _Clock.install()
    res = []
    for it in job["items"]:
        try:
            res += _x3_cases(it["src"], it["events"], it["seed"], it["limit"])
        except Exception as ex:  # noqa
            res.append({"error": type(ex).__name__ + ": " + str(ex)[:200]})
    json.dump(res, open(sys.argv[2], "w"))


# ---------------------------------------------------------------------------------------
# through LLMRails.generate_async(state=...)

RAILS_PROGRAMS = {
    "regex-var-two-turns": '''
import core

flow main
  $r = regex("h.")
  $seen = {"a", "b"}
  user said "hi"
  bot say "Hello!"
  user said $r
  bot say "Hello again!"
  user said "bye"
  bot say "Bye {len($seen)}"
''',
    "flow-ref-and-counter": '''
import core

flow greet $names
  user said "hi"
  bot say "Hi {len($names)}"

flow main
  $l = ["x", "y"]
  start greet $l as $g
  match $g.Finished()
  bot say "done {$g.flow_id}"
  user said "hi"
  bot say "second"
  user said "hi"
  bot say "third"
''',
}


def rails_worker_main():
    """Child process, through the public API LLMRails.generate_async(state=...):
    (a) linear: three turns, once passing the serialised state of the previous turn (restored on
        every turn) and once passing one live State object; the bot responses must agree;
    (b) NON-linear use of saved states on ONE LLMRails instance: the same saved JSON state is
        restored several times - retried with the same continuation, branched with different
        continuations, and gone back to after later turns.  Reference: the same continuation on a
        FRESH LLMRails instance from the same saved state."""
    import asyncio
    import logging

    logging.disable(logging.CRITICAL)
    sys.path.insert(1, C.REPO)
    sys.path.insert(2, os.path.join(C.REPO, "tests"))
    from nemoguardrails import LLMRails, RailsConfig
    from nemoguardrails.colang.v2_x.runtime.serialization import json_to_state
    from utils import FakeLLM

    out = []
    for name, co in RAILS_PROGRAMS.items():
        rec = {"name": name}
        try:
            config = RailsConfig.from_content(co, 'colang_version: "2.x"\n')
            turns = ["hi", "hi", "bye", "hi"]

            def text(r):
                return [m.get("content") for m in r.response] if isinstance(r.response, list) else r.response

            async def drive(live):
                rails = LLMRails(config=config, llm=FakeLLM(responses=[]))
                resp = []
                r = await rails.generate_async(messages=[{"role": "user", "content": turns[0]}], state={})
                resp.append(r.response)
                st = r.state
                if live:
                    st = json_to_state(st["state"])
                for t in turns[1:]:
                    r = await rails.generate_async(messages=[{"role": "user", "content": t}], state=st)
                    resp.append(r.response)
                    if not live:
                        st = r.state
                return resp

            a = asyncio.run(drive(False))
            b = asyncio.run(drive(True))
            rec["restored_each_turn"] = a
            rec["live"] = b
            rec["same"] = (a == b)
            rec["nonempty"] = any(x for x in a)

            async def cont_from(rails, saved, msgs):
                """Responses of the messages `msgs` starting from the saved state (JSON dict)."""
                st, resp = saved, []
                for t in msgs:
                    r = await rails.generate_async(messages=[{"role": "user", "content": t}], state=st)
                    resp.append(text(r))
                    st = r.state
                return resp, st

            async def branching():
                shared = LLMRails(config=config, llm=FakeLLM(responses=[]))
                r1 = await shared.generate_async(messages=[{"role": "user", "content": "hi"}], state={})
                S1 = r1.state
                plan = [["hi"], ["hi"], ["bye"], ["hi", "hi"], ["hi"], ["hi", "bye"], ["bye"]]
                diffs = []
                S2 = None
                refs = {}

                async def reference(tag, saved, msgs):
                    # one fresh instance per distinct (saved state, continuation)
                    key = (tag, tuple(msgs))
                    if key not in refs:
                        fresh = LLMRails(config=config, llm=FakeLLM(responses=[]))
                        refs[key] = (await cont_from(fresh, saved, msgs))[0]
                    return refs[key]

                for k, msgs in enumerate(plan):
                    got, st_after = await cont_from(shared, S1, msgs)          # S1 restored AGAIN on the shared instance
                    if k == 0:
                        S2 = st_after
                    want = await reference("S1", S1, msgs)
                    if got != want:
                        diffs.append({"restore_no": k + 1, "saved_state": "S1 (after turn 1)", "continuation": msgs,
                                      "shared_instance": got, "fresh_instance": want})
                # go back to S2 after everything above, twice
                for k in range(2):
                    got, _ = await cont_from(shared, S2, ["bye"])
                    want = await reference("S2", S2, ["bye"])
                    if got != want:
                        diffs.append({"restore_no": k + 1, "saved_state": "S2 (after turn 2)", "continuation": ["bye"],
                                      "shared_instance": got, "fresh_instance": want})
                return diffs, len(plan) + 2

            diffs, n = asyncio.run(branching())
            rec["branching_restores"] = n
            rec["branching_diffs"] = diffs[:4]
        except BaseException as ex:  # noqa
            rec["raised"] = type(ex).__name__ + ": " + str(ex)[:200]
        out.append(rec)
        json.dump(out, open(sys.argv[1], "w"), default=repr)          # partial results survive a timeout
    json.dump(out, open(sys.argv[1], "w"), default=repr)


# ---------------------------------------------------------------------------------------
# orchestration


def _spawn(entry, args, timeout_s, extra_env=None):
    env = dict(os.environ)
    env.update(C.impl_env())
    env["NEMO_GUARDRAILS_VERIF_MAX_STEPS"] = "4000"
    if extra_env:
        env.update(extra_env)
    return subprocess.Popen(["timeout", str(timeout_s), C.PY, "-c", f"from harness import c11; c11.{entry}()"] + args,
                            cwd=C.VERIF, env=env, stdout=subprocess.DEVNULL, stderr=subprocess.PIPE, text=True)


def classify_save(info, shape):
    msg = info.get("save_raised") or ""
    if msg:
        if "re.Pattern" in msg:
            return "unserializable-value:Pattern"
        m = re.search(r"Unhandled type in encode_to_dict: <class '([\w.]+)'>", msg)
        if m:
            return "unserializable-value:" + m.group(1).split(".")[-1]
        if msg.startswith("RecursionError"):
            return "cyclic-reference" if (shape or {}).get("cyclic") else "recursion-error"
        if "not JSON serializable" in msg:
            return "unserializable-action-arguments"
        return "save-raised:" + msg.split(":")[0]
    return "restore-raised:" + (info.get("restore_raised") or "?").split(":")[0]


def classify_diff(d, src=""):
    shape = d.get("shape") or {}
    if d["mode"] == "aged":
        return "aged-state-behaves-differently"
    # a copied list is observable only through a later in-place mutation: the recorded class is
    # claimed only for programs that mutate a list while the saved state holds a list twice
    if shape.get("shared_list") and ".append(" in src:
        return "shared-list-copied"
    return "restored-state-behaves-differently"


def _histories(rng, alphabet, n, maxlen):
    return [[rng.choice(alphabet) for _ in range(rng.randint(1, maxlen))] for _ in range(n)]


def run(tier, seed, replay=None):
    import tempfile

    out = C.Outcome(PID, tier, seed)
    rng = random.Random(seed * 1000003 + 11)
    b = C.build_and_audit(PID, GEN)
    C.proof_coverage(out, b, "make theories/Props/C11.vo && coqc Props/C11.v (Print Assumptions)")
    for br in b["broken"]:
        out.add_broken(br, b["log"])
    with C.BuildLock():
        okm, logm = C.coq_make(["theories/V2/SerialRun.vo", "theories/V2/CleanupRun.vo", "theories/V2/BridgeRun.vo"])
    if not okm:
        out.add_broken("coq:theories/V2/SerialRun.v|CleanupRun.v", logm)

    quick = tier == "quick"
    tmp = tempfile.mkdtemp(prefix="c11_", dir=C.BUILD)
    A = EVENT_ALPHABET
    conts1 = [[a] for a in A]
    conts2 = [[a, b2] for a in A[:6] for b2 in A[:6]]
    conts3 = [[a, b2, c] for a in (A[0], A[2], A[3], A[4], A[5]) for b2 in (A[0], A[2], A[3], A[4], A[5])
              for c in (A[0], A[2], A[3], A[4])]

    # ---- X2 jobs (child processes, started first)
    stats = {}
    items = []
    if replay:
        rp = json.load(open(replay))
        rp = rp.get("replay", rp)
        if rp.get("kind") == "x2":
            items.append({"id": "replay", "src": rp["src"], "histories": [rp["history"] + [A[2]]],
                          "continuations": [rp["continuation"]], "picks": [rp.get("pick", 0)]})
    else:
        for name, src in PROBES.items():
            plan = PROBE_PLANS.get(name, {})
            items.append({"id": "probe:" + name, "src": src, "histories": plan.get("histories", [[A[2]], [A[0], A[2], A[4]]]),
                          "continuations": plan.get("continuations", conts1 + conts2[:10]), "picks": [0]})
        corpus_dir = os.path.join(C.VERIF, "corpus", PID)
        if os.path.isdir(corpus_dir):
            for fn in sorted(os.listdir(corpus_dir)):
                if fn.endswith(".json"):
                    d = json.load(open(os.path.join(corpus_dir, fn)))
                    if d.get("kind") == "x2":
                        items.append({"id": "corpus:" + fn, "src": d["src"], "histories": [d["history"] + [A[2]]],
                                      "continuations": [d["continuation"]], "picks": [d.get("pick", 0)]})
        n_prog = 96 if quick else 640
        for i in range(n_prog):
            src = gen_program(rng, stats)
            cs = list(conts1) + rng.sample(conts2, 8 if quick else 25) + (rng.sample(conts3, 3 if quick else 20))
            items.append({"id": "gen%d" % i, "src": src, "histories": _histories(rng, A, 2 if quick else 3, 3 if quick else 4),
                          "continuations": cs, "picks": [0] if i % 4 else [0, 1]})
    nw = min(C.NPROC, max(1, len(items)))
    budget = 85 if quick else 900
    procs = []
    for w in range(nw):
        job = {"items": items[w::nw], "budget_s": budget}
        jp, rpth = os.path.join(tmp, f"job{w}.json"), os.path.join(tmp, f"res{w}.json")
        json.dump(job, open(jp, "w"))
        procs.append((_spawn("worker_main", [jp, rpth], budget + 120), rpth, job))
    # X3 + rails workers
    x3_items = []
    if replay and rp.get("kind") == "x3":
        x3_items.append({"src": rp["src"], "events": rp["events"], "seed": rp.get("seed", 1), "limit": rp.get("limit", 21)})
    if not replay:
        for i in range(24 if quick else 120):
            src = gen_program(rng, {})
            x3_items.append({"src": src, "events": [rng.choice(A) for _ in range(6)], "seed": rng.randrange(10**6), "limit": 14})
        for name in ("finished-child-then-idle", "two-flows-one-action", "activated-restarts"):
            x3_items.append({"src": PROBES[name], "events": [A[0], A[2], A[4], A[3], A[0], A[2]], "seed": 1, "limit": 21})
        x3_items.append({"src": PROBES["flow-exists-after-idle"], "events": [A[0], A[2], A[3], A[0]], "seed": 3, "limit": 21})
        for name in ("shared-action-owner-finishes", "shared-action-awaited"):
            for sd, evs in ((1, [A[0], A[5], A[2], A[3], A[4], A[3]]), (2, [A[0], A[2], A[1], A[4], A[3]])):
                x3_items.append({"src": PROBES[name], "events": evs, "seed": sd, "limit": 21})
    x3p = None
    if x3_items:
        jp, x3res = os.path.join(tmp, "x3job.json"), os.path.join(tmp, "x3res.json")
        json.dump({"items": x3_items}, open(jp, "w"))
        x3p = _spawn("x3_worker_main", [jp, x3res], 300 if quick else 900)
    railsres = os.path.join(tmp, "rails.json")
    railsp = None if (replay and rp.get("kind") != "rails") else _spawn("rails_worker_main", [railsres], 900)

    # ---- X1 (this process): generated graphs from the real classes
    kinds = {}
    terms, infos = [], []
    n_x1 = 0 if replay else (150 if quick else 1500)
    only_x1 = None
    if replay and rp.get("kind") == "x1":
        # regenerate the recorded case: X1 has its own generator state (tier of the recording)
        only_x1 = int(rp["index"])
        n_x1 = only_x1 + 1
    seen_hash = set()
    x1_nontrivial = 0
    oracle_x1 = []
    rng1 = random.Random((int(rp.get("seed", seed)) if replay and rp.get("kind") == "x1" else seed) * 1000003 + 111)
    for i in range(n_x1):
        if i % 4 == 0:
            root, mode = gen_value(rng1, 3, []), 0
        else:
            root, mode = gen_state_graph(rng1, kinds), 1
        if only_x1 is not None and i != only_x1:
            continue
        try:
            term, info, decoded = x1_case(root, mode)
        except Unrenderable as ex:
            kinds["unrenderable"] = kinds.get("unrenderable", 0) + 1
            continue
        info["case"] = {"kind": "x1", "index": i, "mode": mode}
        terms.append(term)
        infos.append(info)
        hsh = C.canon_hash(term)
        if hsh not in seen_hash:
            seen_hash.add(hsh)
            if info["nodes"] >= 15 and "__ref_count" in term:
                x1_nontrivial += 1
    # reachable states of the real interpreter: X1 + the hypothesis of C11_state_roundtrip
    real_terms, real_names, alpha_terms = [], [], []
    if not replay or rp.get("kind") == "x1real":
        for name, st in real_states():
            if replay and name != rp.get("state"):
                continue
            try:
                term, info, _dec = x1_case(st, 1)
                hp, rt, _im, _kp = render_graph(st)
                alpha_terms.append(f"({hp}, {rt}, {_abstract_state(st, None, {})})")
            except Unrenderable:
                continue
            info["case"] = {"kind": "x1real", "state": name}
            terms.append(term)
            infos.append(info)
            real_terms.append(term)
            real_names.append(name)
    hyps_bad = []
    if okm and real_terms:
        bools, err = C.run_cases(PID + "_hyps", PREAMBLE, real_terms, "check_hyps", shard=4)
        if err:
            out.add_broken("assumption:state_hyps(coqc)", err)
        else:
            hyps_bad = [n for n, ok in zip(real_names, bools) if not ok]
            if hyps_bad:
                out.add_broken("assumption:state_hyps-on-real-states",
                               "the decidable hypothesis of C11_state_roundtrip (canonical callbacks, State shape) is false on "
                               "reachable states, or is not re-established by the model's save/restore: " + ", ".join(hyps_bad))
    # the bridge: BridgeDef.alpha on the rendered graph = the harness's abstraction of the same state
    if okm and alpha_terms:
        pre = PREAMBLE_CL.replace("V2.CleanupRun.", "V2.CleanupRun V2.Serial V2.BridgeDef V2.BridgeRun.")
        bools, err = C.run_cases(PID + "_alpha", pre, alpha_terms, "check_alpha", shard=4)
        if err:
            out.add_broken("correspondence:C11-bridge(coqc)", err)
        else:
            badn = [n for n, ok in zip(real_names, bools) if not ok]
            out.coverage["real_states_checked_against_alpha"] = len(bools)
            if badn:
                out.add_broken("correspondence:C11-bridge",
                               "BridgeDef.alpha on the rendered real State differs from the harness's abstraction: " + ", ".join(badn))
    # direct oracle on the implementation for X1: same shape and sharing after the round trip
    for inf in infos:
        if inf.get("same_shape_and_sharing") is False or inf.get("temporary_in_refs"):
            sig = "encoder-registers-temporary-object" if inf.get("temporary_in_refs") else "restored-graph-differs-in-shape-or-sharing"
            out.findings.append(C.Finding(sig, "json_to_state(state_to_json(g)) is not isomorphic to g (object identities merged or split)"
                                          + (": the JSON marks an object that is not part of the live graph" if inf.get("temporary_in_refs") else ""),
                                          {**inf["case"], "tier": tier, "seed": seed, "nodes": inf["nodes"],
                                           "required": "restored graph has the shape and the sharing of the live one"}))
    x1_dis = 0
    if okm and terms:
        bools, err = C.run_cases(PID + "_x1", PREAMBLE, terms, "check_case", shard=12)
        if err:
            out.add_broken("correspondence:C11-serial(coqc)", err)
        else:
            bad = [i for i, ok in enumerate(bools) if not ok]
            x1_dis = len(bad)
            if bad:
                i = min(bad, key=lambda k: len(terms[k]))
                model = C.eval_term(PID + "_x1", PREAMBLE, "show_case " + terms[i])
                out.add_broken("correspondence:C11-serial",
                               f"{len(bad)} disagreements between serialization.py and V2/Serial.v; smallest case: {infos[i]} "
                               f"term={terms[i][:1500]} model={model[:1500]}")

    # ---- collect X3
    x3_n = x3_removed = 0
    if x3p is not None:
        _, err = x3p.communicate()
        try:
            x3cases = json.load(open(x3res))
        except Exception as ex:
            x3cases = []
            out.add_broken("correspondence:C11-cleanup(worker)", f"{ex}: {err[-1500:]}")
        errs = [c for c in x3cases if "error" in c]
        x3cases = [c for c in x3cases if "term" in c]
        if errs and not x3cases:
            out.add_broken("correspondence:C11-cleanup(worker)", str(errs[:2]))
        x3_n = len(x3cases)
        x3_removed = sum(1 for c in x3cases if c["removed"] > 0)
        for c in x3cases:
            if c.get("wrong"):
                w = c["wrong"][0]
                sig = ("cleanup-forgets-flow-id" if w["status"] == "FLOWKEY" else
                       "cleanup-removes-referenced-action" if str(w["status"]).startswith("ACTION:") else
                       "cleanup-removes-activated-instance" if w["activated"] != 0 else
                       "cleanup-removes-unfinished-instance" if w["status"] not in ("FINISHED", "STOPPED") else
                       "cleanup-removes-recently-finished-instance")
                what = (f"_clean_up_state dropped the flow_id_states entry of flow {w['uid']} (CheckValidFlowExistsAction answers differently afterwards)"
                        if sig == "cleanup-forgets-flow-id" else
                        f"_clean_up_state discarded action {w['status'][7:]} although the remaining instance {w['uid']} still lists it"
                        if sig == "cleanup-removes-referenced-action" else
                        f"_clean_up_state discarded instance {w['uid']} (status {w['status']}, activated {w['activated']}, finished {w['age_s']:.6f} s ago)")
                out.findings.append(C.Finding(sig, what,
                                              {"kind": "x3", "src": c["src"], "events": c["events"], "clock_s": c["clock_s"], "removed": c["wrong"],
                                               "seed": c.get("seed"), "limit": c.get("limit"),
                                               "required": "only FINISHED/STOPPED, non-activated instances older than 5 s and only actions no remaining instance references are discarded"}))
        if okm and x3cases:
            bools, err = C.run_cases(PID + "_x3", PREAMBLE_CL, [c["term"] for c in x3cases], "check_cleanup", shard=40)
            if err:
                out.add_broken("correspondence:C11-cleanup(coqc)", err)
            else:
                bad = [c for c, ok in zip(x3cases, bools) if not ok]
                if bad:
                    c = min(bad, key=lambda c: len(c["term"]))
                    model = C.eval_term(PID + "_x3", PREAMBLE_CL, "let '(n, s, e) := " + c["term"] + " in cleanup_now n s")
                    out.add_broken("correspondence:C11-cleanup",
                                   f"{len(bad)} disagreements between _clean_up_state and V2/Cleanup.v; smallest: {c['term'][:1500]} model={model[:1200]}")

    # the hypothesis of the clean-up theorems (`refs_ok`) on the same abstracted real states
    if okm and x3_n:
        bools, err = C.run_cases(PID + "_refs", PREAMBLE_CL, [c["term"] for c in x3cases], "check_refs", shard=40)
        if err:
            out.add_broken("assumption:refs_ok(coqc)", err)
        else:
            bad = [c for c, ok in zip(x3cases, bools) if not ok]
            out.coverage["real_states_checked_against_refs_ok"] = len(bools)
            if bad:
                c = min(bad, key=lambda c: len(c["term"]))
                out.add_broken("assumption:refs_ok-on-real-states",
                               f"{len(bad)} reachable states violate the reference closure assumed by C11_cleanup_lookups/"
                               f"_total/_later_clock_ext (or the model's clean-up breaks it); smallest: {c['term'][:1500]}")

    # ---- collect X2
    x2 = {"programs": 0, "skipped": 0, "runs": 0, "cuts": 0, "nontrivial_cuts": 0, "aged_removed": 0, "truncated": 0,
          "unconfirmed_diffs": 0}
    inv_bad = []
    for p, rpth, job in procs:
        _, err = p.communicate()
        try:
            res = json.load(open(rpth))
        except Exception as ex:
            out.add_broken("behavioural:C11-worker", f"worker died (rc={p.returncode}): {err[-1200:]}")
            try:
                res = json.load(open(rpth + ".part"))      # what it finished before dying
            except Exception:
                continue
        srcs = {it["id"]: it["src"] for it in job["items"]}
        for r in res:
            if "skipped" in r:
                x2["skipped"] += 1
                continue
            x2["programs"] += 1
            for k in ("runs", "cuts", "nontrivial_cuts", "aged_removed", "unconfirmed_diffs"):
                x2[k] += r.get(k, 0)
            x2["truncated"] += 1 if r.get("truncated") else 0
            for f in r["save_failures"]:
                sig = classify_save(f["info"], f.get("shape"))
                what = (f["info"].get("save_raised") or f["info"].get("restore_raised") or "")[:140]
                out.findings.append(C.Finding(sig, f"state_to_json/json_to_state raises on a reachable state: {what}",
                                              {"kind": "x2", "program": r["id"], "src": srcs[r["id"]], "history": f["history"],
                                               "continuation": [], "mode": f["mode"], "observed": what,
                                               "required": "saving and restoring succeeds at every cut point"}))
            for d in r["diffs"]:
                sig = classify_diff(d, srcs[r["id"]])
                out.findings.append(C.Finding(sig, f"{d['mode']} state reacts differently from the live one",
                                              {"kind": "x2", "program": r["id"], "src": srcs[r["id"]], "history": d["history"],
                                               "continuation": d["continuation"], "mode": d["mode"], "pick": d["pick"],
                                               "live_outputs": d["live"], "other_outputs": d["other"],
                                               "required": "same outgoing events up to fresh identifiers"}))
            inv_bad += r["invariant"]
    if inv_bad:
        out.add_broken("assumption:matcher-index-lists-only-live-heads",
                       "hypothesis of C11_cleanup_commutes_partial violated on a real state: " + json.dumps(inv_bad[:2])[:1500])

    # ---- rails
    rails_info = []
    if railsp is not None:
        _, err = railsp.communicate()
        try:
            rails_info = json.load(open(railsres))
        except Exception as ex:
            out.add_broken("behavioural:C11-rails-worker", f"{ex}: {err[-1200:]}")
        for r in rails_info:
            if r.get("raised"):
                msg = r["raised"]
                sig = classify_save({"save_raised": msg.replace("Exception: ", "Exception: ", 1)}, None) if "encode_to_dict" in msg or "JSON" in msg else "generate-async-raised"
                out.findings.append(C.Finding(sig, f"LLMRails.generate_async raises for a Colang 2 config: {msg[:140]}",
                                              {"kind": "rails", "config": r["name"], "colang": RAILS_PROGRAMS[r["name"]], "observed": msg}))
            elif r.get("branching_diffs"):
                d = r["branching_diffs"][0]
                out.findings.append(C.Finding("same-saved-state-restored-again-behaves-differently",
                                              f"generate_async(state=S) on one LLMRails instance: restore no. {d['restore_no']} of the same saved "
                                              f"state answers {d['shared_instance']} instead of {d['fresh_instance']}",
                                              {"kind": "rails", "config": r["name"], "colang": RAILS_PROGRAMS[r["name"]], **d,
                                               "required": "restoring a saved state always yields the saved state, however often it was restored before"}))
            elif not r.get("same"):
                out.findings.append(C.Finding("restored-state-behaves-differently",
                                              "generate_async(state=<json>) answers differently from the live state",
                                              {"kind": "rails", "config": r["name"], "colang": RAILS_PROGRAMS[r["name"]],
                                               "restored_each_turn": r.get("restored_each_turn"), "live": r.get("live")}))

    enc_hist, dec_hist = {}, {}
    for inf in infos:
        enc_hist[inf["enc"].split(":")[0]] = enc_hist.get(inf["enc"].split(":")[0], 0) + 1
        dec_hist[inf["dec"].split(":")[0]] = dec_hist.get(inf["dec"].split(":")[0], 0) + 1
    out.coverage.update({
        "evaluations": len(terms) + x3_n + x2["runs"],
        "distinct_nontrivial": x1_nontrivial + x2["nontrivial_cuts"] + x3_removed,
        "rule": "X1: distinct generated object graphs (by hash of the case term) with >=15 objects and at least one shared "
                "object written as __id/ref; X2: (program, history prefix, continuation, pick) combinations whose state at the "
                "cut point has >=2 flow instances and a pending action or a finished instance; X3: clean-up cases in which at "
                "least one instance is removed",
        "samples": [{"x1": infos[:2]}, {"x2_program": items[len(PROBES)]["src"] if len(items) > len(PROBES) else None},
                    {"rails": [{k: r.get(k) for k in ("name", "same", "raised", "branching_restores")} for r in rails_info]}],
        "input_distribution": {"x1_graph_kinds": kinds, "x1_encoder_results": enc_hist, "x1_decoder_results": dec_hist,
                               "x2_statement_mix": stats, "x2": x2, "x3_cases": x3_n, "x3_cases_with_removal": x3_removed,
                               "probe_programs": sorted(PROBES)},
        "traces_validated_against_impl": len(terms) + x3_n,
        "correspondence_disagreements": x1_dis,
        "real_states_checked_against_state_hyps": len(real_terms),
        "oracle_violations": len(out.findings),
    })
    out.assumptions += [
        "json.dumps/json.loads, pydantic model_dump/model_validate (RailsConfig = opaque token), datetime.isoformat/fromisoformat and re.compile are oracles",
        "set iteration order is not part of the state (members of a rebuilt set are compared in the order of the original)",
        "recursion limit abstracted to a depth bound (model LIMIT=150; generated graphs are shallower, cyclic ones exceed any bound)",
        "dict keys: str/int/bool/None (float and tuple keys not generated); strings as UTF-8 bytes",
        "the re-creation of head callbacks is modelled and tied by X1 (mode 1) and the translator, the round-trip theorem relates callbacks to None",
        "a behavioural difference is reported only if it reproduces when both runs are repeated (count of non-reproducing differences: coverage.input_distribution.x2.unconfirmed_diffs)",
        "behavioural claim (same outgoing events after restore / after clean-up) is validated by exploration: continuations of length <=3 over 7 events, random.choice patched to first/last, clock substituted in statemachine/flows",
        "C11_cleanup_commutes_partial assumes the matcher index lists only heads of instances that are not done: checked on every real state at every cut point",
        "C11_cleanup_lookups/_total/_preserves_refs/_later_clock_ext assume the reference closure refs_ok: its decidable version is evaluated inside Coq on every abstracted real state of X3 (before and after the model's clean-up)",
        "C11_state_roundtrip assumes state_hyps (State shape, canonical callbacks): evaluated inside Coq on reachable real states",
    ]
    if tier == "thorough" and b["ok"]:
        ok, log = C.coqchk(PID, b["files"])
        out.coverage["coqchk"] = "ok" if ok else "FAILED"
        if not ok:
            out.add_broken("coqchk", log)
    import shutil

    shutil.rmtree(tmp, ignore_errors=True)
    return C.finish(out)
