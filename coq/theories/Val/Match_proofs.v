(* Proofs about the matcher model: soundness/completeness w.r.t. MatchSpec.Matches,
   score exponent range, harmlessness of unmentioned parameters. *)
From Coq Require Import ZArith List String Bool Lia.
From NG Require Import Gen.MatchConsts Val.Value Val.Match Val.MatchSpec.
Open Scope string_scope.
Open Scope Z_scope.
Import ListNotations.
Open Scope Z_scope.

Arguments too_long : simpl never.
Arguments add_len_diff : simpl never.

Definition is_yes (r : res) : Prop := exists k, r = RYes k.

Lemma is_yes_RYes k : is_yes (RYes k).
Proof. exists k; reflexivity. Qed.

Lemma not_yes_RNo : ~ is_yes RNo.
Proof. intros [k H]; discriminate. Qed.

Lemma not_yes_RErr : ~ is_yes RErr.
Proof. intros [k H]; discriminate. Qed.

Lemma yes_if_yes b : is_yes (yes_if b) <-> b = true.
Proof. destruct b; simpl; split; intro H; try reflexivity; try (apply is_yes_RYes);
       try discriminate; destruct H; discriminate. Qed.

Lemma add_len_diff_yes r np nv : is_yes (add_len_diff r np nv) <-> is_yes r.
Proof. destruct r as [| |k0]; unfold add_len_diff; split; intros [k' H]; try discriminate; eexists; reflexivity. Qed.

Lemma add_len_diff_err r np nv : add_len_diff r np nv = RErr <-> r = RErr.
Proof. destruct r; unfold add_len_diff; split; intro H; try discriminate; reflexivity. Qed.

(* ---------------------------------------------------------------- Embeds *)

Lemma Embeds_tail R p ps vs : Embeds R (p :: ps) vs -> Embeds R ps vs.
Proof.
  intro H. remember (p :: ps) as l eqn:El. revert p ps El.
  induction H as [vs|p' ps' v vs Hr He IH|ps' v vs He IH]; intros p0 ps0 El.
  - discriminate.
  - inversion El; subst. apply E_skip. exact He.
  - apply E_skip. eapply IH. exact El.
Qed.

Lemma Embeds_length R ps vs : Embeds R ps vs -> (List.length ps <= List.length vs)%nat.
Proof. induction 1; simpl; lia. Qed.

(* ---------------------------------------------------------------- generic loops *)

Section LoopLemmas.
  Variable sc : value -> value -> res.
  Variable R : value -> value -> Prop.

  (* what the induction hypothesis gives for one pattern *)
  Definition agrees (p : value) : Prop :=
    forall v, sc p v <> RErr -> (is_yes (sc p v) <-> R p v).

  Lemma scan_spec ps :
    Forall agrees ps ->
    forall vs k, scan sc ps vs k <> RErr -> (is_yes (scan sc ps vs k) <-> Embeds R ps vs).
  Proof.
    induction ps as [|p0 ps' IHps]; intros Hag vs k Hne.
    - simpl. split; intros _; [apply E_nil | apply is_yes_RYes].
    - inversion Hag as [|? ? Hp0 Hps']; subst.
      revert Hne. induction vs as [|v0 vs' IHvs]; intro Hne.
      + simpl. split; intro H; [destruct (not_yes_RNo H) | inversion H].
      + simpl in *. destruct (sc p0 v0) as [| |k0] eqn:E0.
        * congruence.
        * (* RNo: v0 cannot be taken *)
          specialize (IHvs Hne).
          assert (Hno : ~ R p0 v0).
          { intro Hr. apply Hp0 in Hr; [|rewrite E0; discriminate].
            rewrite E0 in Hr. exact (not_yes_RNo Hr). }
          split; intro H.
          -- apply E_skip. apply IHvs. exact H.
          -- apply IHvs. inversion H; subst; [contradiction | assumption].
        * (* RYes: greedy take *)
          assert (Hr : R p0 v0).
          { apply Hp0; [rewrite E0; discriminate | rewrite E0; apply is_yes_RYes]. }
          specialize (IHps Hps' vs' (k + k0) Hne).
          split; intro H.
          -- apply E_take; [exact Hr | apply IHps; exact H].
          -- apply IHps. inversion H; subst; [assumption | eapply Embeds_tail; eassumption].
  Qed.

  Lemma find_first_spec p0 :
    agrees p0 ->
    forall vs, find_first sc p0 vs <> RErr -> (is_yes (find_first sc p0 vs) <-> Exists (R p0) vs).
  Proof.
    intros Hp0 vs. induction vs as [|v0 vs' IH]; intro Hne.
    - simpl. split; intro H; [destruct (not_yes_RNo H) | inversion H].
    - simpl in *. destruct (sc p0 v0) as [| |k0] eqn:E0.
      + congruence.
      + specialize (IH Hne).
        assert (Hno : ~ R p0 v0).
        { intro Hr. apply Hp0 in Hr; [|rewrite E0; discriminate].
          rewrite E0 in Hr. exact (not_yes_RNo Hr). }
        split; intro H.
        * apply Exists_cons_tl. apply IH. exact H.
        * apply IH. inversion H; subst; [contradiction | assumption].
      + split; intro H; [|apply is_yes_RYes].
        apply Exists_cons_hd. apply Hp0; rewrite E0; [discriminate | apply is_yes_RYes].
  Qed.

  Lemma all_found_spec ps :
    Forall agrees ps ->
    forall vs k, all_found sc ps vs k <> RErr ->
                 (is_yes (all_found sc ps vs k) <-> Forall (fun p => Exists (R p) vs) ps).
  Proof.
    induction ps as [|p0 ps' IH]; intros Hag vs k Hne.
    - simpl. split; intros _; [constructor | apply is_yes_RYes].
    - inversion Hag as [|? ? Hp0 Hps']; subst. simpl in *.
      pose proof (find_first_spec p0 Hp0 vs) as Hff.
      destruct (find_first sc p0 vs) as [| |k0] eqn:E0.
      + congruence.
      + split; intro H; [destruct (not_yes_RNo H)|].
        inversion H; subst. exfalso. apply not_yes_RNo. apply Hff; [discriminate | assumption].
      + specialize (IH Hps' vs (k + k0) Hne). split; intro H.
        * constructor; [apply Hff; [discriminate | apply is_yes_RYes] | apply IH; exact H].
        * apply IH. inversion H; assumption.
  Qed.

  Definition agrees_kv (kp : string * value) : Prop := agrees (snd kp).

  Lemma dict_all_spec pkvs :
    Forall agrees_kv pkvs ->
    forall vkvs k, dict_all sc pkvs vkvs k <> RErr ->
      (is_yes (dict_all sc pkvs vkvs k) <->
       Forall (fun kp => in_filter (fst kp) = true \/
                         exists v, lookup (fst kp) vkvs = Some v /\ R (snd kp) v) pkvs).
  Proof.
    induction pkvs as [|[key p0] rest IH]; intros Hag vkvs k Hne.
    - simpl. split; intros _; [constructor | apply is_yes_RYes].
    - inversion Hag as [|? ? Hp0 Hrest]; subst. unfold agrees_kv in Hp0. simpl in *.
      destruct (in_filter key) eqn:Ef.
      + specialize (IH Hrest vkvs k Hne). split; intro H.
        * constructor; [left; exact Ef | apply IH; exact H].
        * apply IH. inversion H; assumption.
      + destruct (lookup key vkvs) as [v0|] eqn:El.
        * destruct (sc p0 v0) as [| |k0] eqn:E0.
          -- congruence.
          -- split; intro H; [destruct (not_yes_RNo H)|].
             inversion H as [|? ? Hhd Htl]; subst. simpl in Hhd.
             destruct Hhd as [Hf|[v [Hl Hr]]]; [congruence|].
             rewrite El in Hl. inversion Hl; subst.
             apply Hp0 in Hr; [|rewrite E0; discriminate]. rewrite E0 in Hr.
             destruct (not_yes_RNo Hr).
          -- specialize (IH Hrest vkvs (k + k0) Hne). split; intro H.
             ++ constructor; [|apply IH; exact H].
                right. exists v0. split; [exact El|].
                apply Hp0; rewrite E0; [discriminate | apply is_yes_RYes].
             ++ apply IH. inversion H; assumption.
        * split; intro H; [destruct (not_yes_RNo H)|].
          inversion H as [|? ? Hhd Htl]; subst. simpl in Hhd.
          destruct Hhd as [Hf|[v [Hl Hr]]]; congruence.
  Qed.
End LoopLemmas.

(* ---------------------------------------------------------------- soundness + completeness *)

Section Correct.
  Variable re_search : string -> string -> bool.
  Variable str_of : value -> string.

  (* all three length guards present (the repaired source) *)
  Notation score3 := (score re_search str_of true true true).
  Notation Matches' := (Matches re_search str_of).

  Lemma too_long_true_spec np nv : too_long true np nv = false <-> (np <= nv)%nat.
  Proof. unfold too_long. cbn [andb]. destruct (Z.gtb_spec (Z.of_nat np) (Z.of_nat nv)); split; intro; try lia; try reflexivity; try discriminate. Qed.

  Theorem score_sound_complete :
    forall p v, score3 p v <> RErr -> (is_yes (score3 p v) <-> Matches' p v).
  Proof.
    induction p as [ |b|z|q|s|ps IH|ps IH|pkvs IH|r|op n] using value_ind'; intros v Hne.
    - (* VNone *) destruct v; simpl; split; intro H; try (destruct (not_yes_RNo H)); try (inversion H);
        try apply is_yes_RYes; constructor.
    - (* VBool *)
      destruct v as [ |b'|z'| | | | | | | ]; simpl; try (split; intro H; [destruct (not_yes_RNo H) | inversion H]).
      + rewrite yes_if_yes. split; intro H.
        * apply Bool.eqb_prop in H. subst. constructor.
        * inversion H; subst. apply Bool.eqb_reflx.
      + rewrite yes_if_yes. split; intro H.
        * apply Z.eqb_eq in H. subst. constructor.
        * inversion H; subst. apply Z.eqb_refl.
    - (* VInt *)
      destruct v as [ | |z'| | | | | | | ]; simpl; try (split; intro H; [destruct (not_yes_RNo H) | inversion H]).
      rewrite yes_if_yes. split; intro H.
      + apply Z.eqb_eq in H. subst. constructor.
      + inversion H; subst. apply Z.eqb_refl.
    - (* VFloat *)
      destruct v as [ | | |q'| | | | | | ]; simpl; try (split; intro H; [destruct (not_yes_RNo H) | inversion H]).
      rewrite yes_if_yes. split; intro H.
      + apply Z.eqb_eq in H. subst. constructor.
      + inversion H; subst. apply Z.eqb_refl.
    - (* VStr *)
      destruct v as [ | | | |s'| | | | | ]; simpl; try (split; intro H; [destruct (not_yes_RNo H) | inversion H]).
      rewrite yes_if_yes. split; intro H.
      + apply String.eqb_eq in H. subst. constructor.
      + inversion H; subst. apply String.eqb_refl.
    - (* VList *)
      destruct v as [ | | | | |vs| | | | ]; simpl in *; try (split; intro H; [destruct (not_yes_RNo H) | inversion H]).
      destruct (too_long true (Datatypes.length ps) (Datatypes.length vs)) eqn:Etl.
      + split; intro H; [destruct (not_yes_RNo H)|].
        inversion H as [| | | | | | | | |? ? He| | ]; subst. apply Embeds_length in He.
        apply too_long_true_spec in He. congruence.
      + rewrite add_len_diff_yes.
        assert (Hne' : scan score3 ps vs 0 <> RErr).
        { intro E. apply Hne. apply add_len_diff_err. exact E. }
        pose proof (scan_spec score3 Matches' ps IH vs 0 Hne') as Hs.
        rewrite Hs. split; intro H; [constructor; exact H | inversion H; assumption].
    - (* VSet *)
      destruct v as [ | | | | | |vs| | | ]; simpl in *; try (split; intro H; [destruct (not_yes_RNo H) | inversion H]).
      destruct (too_long true (Datatypes.length ps) (Datatypes.length vs)) eqn:Etl.
      + split; intro H; [destruct (not_yes_RNo H)|].
        inversion H as [| | | | | | | | | |? ? Hl Hf| ]; subst.
        apply too_long_true_spec in Hl. congruence.
      + rewrite add_len_diff_yes.
        assert (Hne' : all_found score3 ps vs 0 <> RErr).
        { intro E. apply Hne. apply add_len_diff_err. exact E. }
        pose proof (all_found_spec score3 Matches' ps IH vs 0 Hne') as Hs.
        rewrite Hs. apply too_long_true_spec in Etl.
        split; intro H; [constructor; assumption | inversion H; assumption].
    - (* VDict *)
      destruct v as [ | | | | | | |vkvs| | ]; simpl in *; try (split; intro H; [destruct (not_yes_RNo H) | inversion H]).
      destruct (too_long true (Datatypes.length pkvs) (Datatypes.length vkvs)) eqn:Etl.
      + split; intro H; [destruct (not_yes_RNo H)|].
        inversion H as [| | | | | | | | | | |? ? Hl Hf]; subst.
        apply too_long_true_spec in Hl. congruence.
      + rewrite add_len_diff_yes.
        assert (Hne' : dict_all score3 pkvs vkvs 0 <> RErr).
        { intro E. apply Hne. apply add_len_diff_err. exact E. }
        pose proof (dict_all_spec score3 Matches' pkvs IH vkvs 0 Hne') as Hs.
        rewrite Hs. apply too_long_true_spec in Etl.
        split; intro H; [constructor; assumption | inversion H; assumption].
    - (* VRegex *)
      destruct v as [ |b'|z'|q'|s'| | | |r'| ]; simpl;
        try (split; intro H; [destruct (not_yes_RNo H) | inversion H; discriminate]);
        try (rewrite yes_if_yes; split; intro H; [constructor; [reflexivity|exact H] | inversion H; assumption]).
      rewrite yes_if_yes. split; intro H.
      + apply String.eqb_eq in H. subst. apply M_regex_eq.
      + inversion H; subst; [discriminate | apply String.eqb_refl].
    - (* VCmp *)
      simpl in *. split; intro H.
      + constructor. destruct H as [k Hk].
        assert (k = 0).
        { unfold cmp_res in Hk. destruct n, v; try discriminate;
            match type of Hk with (if ?c then _ else _) = _ => destruct c end; inversion Hk; reflexivity. }
        subst. exact Hk.
      + inversion H; subst. eexists; eassumption.
  Qed.
End Correct.

(* ---------------------------------------------------------------- exponent range *)

Section Range.
  Variable re_search : string -> string -> bool.
  Variable str_of : value -> string.
  Notation score3 := (score re_search str_of true true true).

  Lemma yes_if_k b k : yes_if b = RYes k -> k = 0.
  Proof. destruct b; simpl; intro H; inversion H; reflexivity. Qed.

  Lemma cmp_res_k op n v k : cmp_res op n v = RYes k -> k = 0.
  Proof.
    unfold cmp_res. destruct n, v; try discriminate;
      match goal with |- (if ?c then _ else _) = _ -> _ => destruct c end;
      intro H; inversion H; reflexivity.
  Qed.

  Section Mono.
    Variable sc : value -> value -> res.
    Definition nonneg (p : value) : Prop := forall v k, sc p v = RYes k -> 0 <= k.

    Lemma scan_mono ps : Forall nonneg ps -> forall vs k k', scan sc ps vs k = RYes k' -> k <= k'.
    Proof.
      induction ps as [|p0 ps' IH]; intros Hnn vs k k' H.
      - simpl in H. inversion H. lia.
      - inversion Hnn as [|? ? Hp0 Hps']; subst.
        induction vs as [|v0 vs' IHvs]; simpl in H; [discriminate|].
        destruct (sc p0 v0) as [| |k0] eqn:E0; [discriminate | apply IHvs; exact H |].
        apply Hp0 in E0. apply IH in H; [lia | exact Hps'].
    Qed.

    Lemma find_first_nonneg p0 : nonneg p0 -> forall vs k, find_first sc p0 vs = RYes k -> 0 <= k.
    Proof.
      intros Hp0 vs. induction vs as [|v0 vs' IH]; simpl; intros k H; [discriminate|].
      destruct (sc p0 v0) as [| |k0] eqn:E0; [discriminate | apply IH; exact H |].
      inversion H; subst. eapply Hp0; eassumption.
    Qed.

    Lemma all_found_mono ps : Forall nonneg ps -> forall vs k k', all_found sc ps vs k = RYes k' -> k <= k'.
    Proof.
      induction ps as [|p0 ps' IH]; intros Hnn vs k k' H.
      - simpl in H. inversion H. lia.
      - inversion Hnn as [|? ? Hp0 Hps']; subst. simpl in H.
        destruct (find_first sc p0 vs) as [| |k0] eqn:E0; try discriminate.
        apply find_first_nonneg in E0; [|exact Hp0]. apply IH in H; [lia | exact Hps'].
    Qed.

    Lemma dict_all_mono pkvs : Forall (fun kp => nonneg (snd kp)) pkvs ->
      forall vkvs k k', dict_all sc pkvs vkvs k = RYes k' -> k <= k'.
    Proof.
      induction pkvs as [|[key p0] rest IH]; intros Hnn vkvs k k' H.
      - simpl in H. inversion H. lia.
      - inversion Hnn as [|? ? Hp0 Hrest]; subst. simpl in *.
        destruct (in_filter key); [eapply IH; eassumption|].
        destruct (lookup key vkvs) as [v0|]; [|discriminate].
        destruct (sc p0 v0) as [| |k0] eqn:E0; try discriminate.
        apply Hp0 in E0. apply IH in H; [lia | exact Hrest].
    Qed.
  End Mono.

  Lemma too_long_false_le np nv : too_long true np nv = false -> 0 <= Z.of_nat nv - Z.of_nat np.
  Proof. unfold too_long; cbn [andb]. destruct (Z.gtb_spec (Z.of_nat np) (Z.of_nat nv)); [discriminate | lia]. Qed.

  (* With the three length guards in place a positive score is factor^k with k >= 0,
     i.e. it never exceeds 1 (and k counts unmentioned members). *)
  Theorem score_exponent_nonneg : forall p v k, score3 p v = RYes k -> 0 <= k.
  Proof.
    induction p as [ |b|z|q|s|ps IH|ps IH|pkvs IH|r|op n] using value_ind'; intros v k H.
    - destruct v; simpl in H; inversion H; lia.
    - destruct v; simpl in H; try discriminate; apply yes_if_k in H; lia.
    - destruct v; simpl in H; try discriminate; apply yes_if_k in H; lia.
    - destruct v; simpl in H; try discriminate; apply yes_if_k in H; lia.
    - destruct v; simpl in H; try discriminate; apply yes_if_k in H; lia.
    - destruct v as [ | | | | |vs| | | | ]; simpl in H; try discriminate.
      destruct (too_long true _ _) eqn:Etl; [discriminate|]. apply too_long_false_le in Etl.
      unfold add_len_diff in H. destruct (scan _ ps vs 0) as [| |k0] eqn:Es; try discriminate.
      apply scan_mono in Es; [|exact IH]. inversion H; lia.
    - destruct v as [ | | | | | |vs| | | ]; simpl in H; try discriminate.
      destruct (too_long true _ _) eqn:Etl; [discriminate|]. apply too_long_false_le in Etl.
      unfold add_len_diff in H. destruct (all_found _ ps vs 0) as [| |k0] eqn:Es; try discriminate.
      apply all_found_mono in Es; [|exact IH]. inversion H; lia.
    - destruct v as [ | | | | | | |vkvs| | ]; simpl in H; try discriminate.
      destruct (too_long true _ _) eqn:Etl; [discriminate|]. apply too_long_false_le in Etl.
      unfold add_len_diff in H. destruct (dict_all _ pkvs vkvs 0) as [| |k0] eqn:Es; try discriminate.
      apply dict_all_mono in Es; [|exact IH]. inversion H; lia.
    - destruct v; simpl in H; try discriminate; apply yes_if_k in H; lia.
    - simpl in H. apply cmp_res_k in H. lia.
  Qed.
End Range.

(* ---------------------------------------------------------------- unmentioned parameters *)

Section Unmentioned.
  Variable re_search : string -> string -> bool.
  Variable str_of : value -> string.
  Variables gd gl gs : bool.
  Notation sc := (score re_search str_of gd gl gs).

  Lemma lookup_app_some key kvs extra v :
    lookup key kvs = Some v -> lookup key (kvs ++ extra) = Some v.
  Proof.
    induction kvs as [|[k' v'] rest IH]; simpl; [discriminate|].
    destruct (String.eqb key k'); [trivial | exact IH].
  Qed.

  Lemma dict_all_extend pkvs vkvs extra k k' :
    dict_all sc pkvs vkvs k = RYes k' -> dict_all sc pkvs (vkvs ++ extra) k = RYes k'.
  Proof.
    revert k. induction pkvs as [|[key p0] rest IH]; intros k H; simpl in *; [exact H|].
    destruct (in_filter key); [apply IH; exact H|].
    destruct (lookup key vkvs) as [v0|] eqn:El; [|discriminate].
    rewrite (lookup_app_some _ _ extra _ El).
    destruct (sc p0 v0) as [| |k0]; try discriminate. apply IH; exact H.
  Qed.

  (* Adding any parameters to a received event never turns a match into a non-match; the
     score is multiplied by factor once per added parameter. *)
  Theorem unmentioned_harmless pkvs vkvs extra k :
    sc (VDict pkvs) (VDict vkvs) = RYes k ->
    sc (VDict pkvs) (VDict (vkvs ++ extra)) = RYes (k + Z.of_nat (List.length extra)).
  Proof.
    simpl. intro H.
    destruct (too_long gd (Datatypes.length pkvs) (Datatypes.length vkvs)) eqn:Etl; [discriminate|].
    assert (Etl' : too_long gd (Datatypes.length pkvs) (Datatypes.length (vkvs ++ extra)) = false).
    { unfold too_long in *. destruct gd; [|reflexivity]. cbn [andb] in *.
      rewrite app_length.
      destruct (Z.gtb_spec (Z.of_nat (Datatypes.length pkvs)) (Z.of_nat (Datatypes.length vkvs))); [discriminate|].
      destruct (Z.gtb_spec (Z.of_nat (Datatypes.length pkvs)) (Z.of_nat (Datatypes.length vkvs + Datatypes.length extra))); [lia|reflexivity]. }
    rewrite Etl'. unfold add_len_diff in *.
    destruct (dict_all sc pkvs vkvs 0) as [| |k0] eqn:Ed; try discriminate.
    rewrite (dict_all_extend _ _ extra _ _ Ed). inversion H; subst.
    rewrite app_length. f_equal. lia.
  Qed.

  (* every mentioned, unfiltered parameter must be present with a matching value *)
  Lemma dict_all_yes_in pkvs vkvs k k' :
    dict_all sc pkvs vkvs k = RYes k' ->
    forall key p, In (key, p) pkvs -> in_filter key = false ->
                  exists v, lookup key vkvs = Some v /\ is_yes (sc p v).
  Proof.
    revert k. induction pkvs as [|[key0 p0] rest IH]; intros k H key p Hin Hf; [destruct Hin|].
    simpl in H. destruct Hin as [Heq|Hin].
    - inversion Heq; subst. rewrite Hf in H.
      destruct (lookup key vkvs) as [v0|]; [|discriminate].
      exists v0. split; [reflexivity|]. destruct (sc p v0); try discriminate. apply is_yes_RYes.
    - destruct (in_filter key0); [eapply IH; eassumption|].
      destruct (lookup key0 vkvs) as [v0|]; [|discriminate].
      destruct (sc p0 v0); try discriminate. eapply IH; eassumption.
  Qed.

  Lemma lookup_In key kvs v : lookup key kvs = Some v -> In (key, v) kvs.
  Proof.
    induction kvs as [|[k' v'] rest IH]; simpl; [discriminate|].
    destruct (String.eqb_spec key k'); intro H; [inversion H; subst; left; reflexivity | right; auto].
  Qed.

  Theorem mentioned_param_required pkvs vkvs k key p :
    sc (VDict pkvs) (VDict vkvs) = RYes k ->
    lookup key pkvs = Some p -> in_filter key = false ->
    exists v, lookup key vkvs = Some v /\ is_yes (sc p v).
  Proof.
    simpl. intros H Hl Hf.
    destruct (too_long gd _ _); [discriminate|]. unfold add_len_diff in H.
    destruct (dict_all sc pkvs vkvs 0) as [| |k0] eqn:Ed; try discriminate.
    eapply dict_all_yes_in; [exact Ed | apply lookup_In; exact Hl | exact Hf].
  Qed.
End Unmentioned.

(* ---------------------------------------------------------------- event level *)

Section EventLevel.
  Variable re_search : string -> string -> bool.
  Variable str_of : value -> string.
  Variables gd gl gs : bool.
  Variable action_args : string -> option (list (string * value)).
  Notation esc := (event_score re_search str_of gd gl gs action_args).
  Notation sc := (score re_search str_of gd gl gs).

  Definition umim (ev ref : event) : Prop :=
    (is_internal (e_name ev) && is_internal (e_name ref)) = false.

  Lemma umim_not_start ev ref : umim ev ref ->
    (String.eqb (e_name ev) ev_start_flow && String.eqb (e_name ref) ev_start_flow) = false.
  Proof.
    unfold umim. intro H.
    destruct (String.eqb_spec (e_name ev) ev_start_flow) as [E1|]; [|reflexivity].
    destruct (String.eqb_spec (e_name ref) ev_start_flow) as [E2|]; [|reflexivity].
    rewrite E1, E2 in H. vm_compute in H. discriminate.
  Qed.

  (* a non-internal event with another name never matches *)
  Theorem event_name_mismatch ev ref :
    umim ev ref -> e_name ref <> e_name ev -> esc ev ref = ENo.
  Proof.
    intros Hu Hn. unfold event_score.
    destruct (negb (kind_compatible _ _)); [reflexivity|].
    rewrite (umim_not_start _ _ Hu). unfold umim in Hu. rewrite Hu.
    destruct (String.eqb_spec (e_name ref) (e_name ev)); [contradiction | reflexivity].
  Qed.

  (* a statement that refers to a specific action instance matches only that instance's
     events.  The received event is an ActionEvent: run_to_completion converts every dict
     event whose type contains "Action" with ActionEvent.from_umim_event, and the name must
     equal the statement's (event_name_mismatch).  (A hand-built plain flows.Event object
     of the same name has no action_uid attribute and skips the instance rule - see
     Example plain_event_skips_instance_rule in Match_examples.v.) *)
  Theorem event_action_instance ev ref r eu :
    umim ev ref -> e_kind ref = KAction (Some r) ->
    e_kind ev = KAction eu -> eu <> Some r -> esc ev ref = ENo.
  Proof.
    intros Hu Hr He Hne. unfold event_score.
    destruct (negb (kind_compatible (e_kind ev) (e_kind ref))) eqn:Ek; [reflexivity|].
    rewrite (umim_not_start _ _ Hu). unfold umim in Hu. rewrite Hu.
    destruct (negb (String.eqb (e_name ref) (e_name ev))); [reflexivity|].
    rewrite Hr, He. destruct eu as [e|]; [|reflexivity].
    destruct (String.eqb_spec r e); [subst; contradiction | reflexivity].
  Qed.

  Lemma lookup_dict_set_other key key' v kvs :
    key <> key' -> lookup key (dict_set key' v kvs) = lookup key kvs.
  Proof.
    intro Hne. induction kvs as [|[k0 v0] rest IH]; simpl.
    - destruct (String.eqb_spec key key'); [contradiction | reflexivity].
    - destruct (String.eqb_spec key' k0) as [E|E]; simpl.
      + subst. destruct (String.eqb_spec key k0); [contradiction | reflexivity].
      + destruct (String.eqb key k0); [reflexivity | exact IH].
  Qed.

  (* a statement that names a flow instance (flow_instance_uid) never advances on an event
     of another instance.  (The StartFlow/StartFlow branch is excluded: there the code
     replaces the argument score by the comparison of flow_id alone; StartFlow events
     create instances, they are not events "of" one.) *)
  Theorem event_flow_instance ev ref u u' k :
    in_filter "flow_instance_uid" = false ->
    e_name ref <> ev_start_flow ->
    lookup "flow_instance_uid" (e_args ref) = Some (VStr u) ->
    lookup "flow_instance_uid" (e_args ev) = Some (VStr u') ->
    u <> u' -> esc ev ref <> EYes k.
  Proof.
    intros Hf Hns Hr He Hne Hyes.
    assert (Hargs : forall args' k0, lookup "flow_instance_uid" args' = Some (VStr u') ->
                                     sc (VDict (e_args ref)) (VDict args') <> RYes k0).
    { intros args' k0 He' H.
      destruct (mentioned_param_required re_search str_of gd gl gs _ _ _ _ _ H Hr Hf) as [v [Hl Hy]].
      rewrite He' in Hl. inversion Hl; subst. simpl in Hy.
      destruct (String.eqb_spec u' u); [subst; contradiction|]. destruct (not_yes_RNo Hy). }
    unfold event_score, args_score in Hyes.
    destruct (negb (kind_compatible _ _)); [discriminate|].
    destruct (String.eqb_spec (e_name ref) ev_start_flow) as [E|_]; [contradiction|].
    rewrite andb_false_r in Hyes.
    destruct (is_internal (e_name ev) && is_internal (e_name ref)).
    - destruct (match lookup "flow_id" (e_args ref) with
                | Some rf => match lookup "flow_id" (e_args ev) with
                             | Some ef => is1 (sc rf ef) | None => Some false end
                | None => Some false end) as [[|]|]; try discriminate.
      destruct (match e_kind ref with
                | KInternal (Some fuid) =>
                    match lookup "source_flow_instance_uid" (e_args ev) with
                    | Some src => is1 (sc (VStr fuid) src) | None => Some false end
                | _ => Some false end) as [[|]|]; try discriminate.
      destruct (sc (VDict (e_args ref)) (VDict (e_args ev))) as [| |k0] eqn:Es; try discriminate.
      exact (Hargs _ k0 He Es).
    - destruct (negb (String.eqb (e_name ref) (e_name ev))); [discriminate|].
      destruct (e_kind ev) as [|fu|eu]; destruct (e_kind ref) as [|fr|ru];
        try (destruct (sc (VDict (e_args ref)) (VDict (e_args ev))) as [| |k0] eqn:Es; try discriminate;
             exact (Hargs _ k0 He Es)).
      match type of Hyes with (if ?c then _ else _) = _ => destruct c end; [discriminate|].
      match type of Hyes with eres_of_res (sc _ (VDict ?a)) = _ =>
        destruct (sc (VDict (e_args ref)) (VDict a)) as [| |k0] eqn:Es; try discriminate;
        apply (Hargs a k0); [|exact Es] end.
      destruct eu as [e|]; [|exact He]. destruct (action_args e); [|exact He].
      rewrite lookup_dict_set_other; [exact He | discriminate].
  Qed.

  (* UMIM events: the event-level score is the argument score (name equal, no instance rule
     in the way, no action arguments injected) *)
  Theorem event_umim_args ev ref :
    umim ev ref -> e_name ref = e_name ev -> e_kind ev = KPlain ->
    esc ev ref = eres_of_res (sc (VDict (e_args ref)) (VDict (e_args ev))).
  Proof.
    intros Hu Hn Hk. unfold event_score, args_score. rewrite Hk. cbn [kind_compatible negb].
    rewrite (umim_not_start _ _ Hu). unfold umim in Hu. rewrite Hu.
    rewrite Hn, String.eqb_refl. cbn [negb]. destruct (e_kind ref); reflexivity.
  Qed.
End EventLevel.

(* ---------------------------------------------------------------- packaging for Props/C04 *)

Lemma matches_no_smaller_container :
  forall re_search str_of,
    (forall ps vs, Matches re_search str_of (VList ps) (VList vs) -> (List.length ps <= List.length vs)%nat) /\
    (forall ps vs, Matches re_search str_of (VSet ps) (VSet vs) -> (List.length ps <= List.length vs)%nat) /\
    (forall ps vs, Matches re_search str_of (VDict ps) (VDict vs) -> (List.length ps <= List.length vs)%nat).
Proof.
  intros rs so. repeat split; intros ps vs H; inversion H; subst; try assumption.
  eapply Embeds_length; eassumption.
Qed.
