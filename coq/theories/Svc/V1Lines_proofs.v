(* C13 (layout, Colang 1.0) - proofs about Svc/V1Lines.v *)
From Coq Require Import NArith List Bool Lia.
From NG Require Import Svc.V1Lines.
Import ListNotations.
Open Scope N_scope.
Local Arguments N.add : simpl never.
Local Arguments N.mul : simpl never.

Lemma lstrip_all_ws : forall ws, forallb is_wsc ws = true -> lstrip ws = [].
Proof.
  induction ws as [|c ws IH]; simpl; intros H; [reflexivity|].
  apply andb_prop in H. destruct H as [Hc H]. rewrite Hc. now apply IH.
Qed.

Lemma rstrip_all_ws : forall ws, forallb is_wsc ws = true -> rstrip ws = [].
Proof.
  induction ws as [|c ws IH]; simpl; intros H; [reflexivity|].
  apply andb_prop in H. destruct H as [Hc H]. rewrite (IH H). now rewrite Hc.
Qed.

Lemma rstrip_app_ws : forall x ws, forallb is_wsc ws = true -> rstrip (x ++ ws) = rstrip x.
Proof.
  induction x as [|c x IH]; simpl; intros ws H.
  - now apply rstrip_all_ws.
  - now rewrite IH.
Qed.

Lemma strip_app_ws : forall l ws, forallb is_wsc ws = true -> strip (l ++ ws) = strip l.
Proof.
  unfold strip. induction l as [|c l IH]; simpl; intros ws H.
  - now rewrite lstrip_all_ws.
  - destruct (is_wsc c); [now apply IH|].
    change (c :: l ++ ws) with ((c :: l) ++ ws). now apply rstrip_app_ws.
Qed.

Lemma strip_all_ws : forall ws, forallb is_wsc ws = true -> strip ws = [].
Proof. intros ws H. unfold strip. now rewrite lstrip_all_ws. Qed.

Lemma lead_sp_app_ws : forall l ws, strip l <> [] -> lead_sp (l ++ ws) = lead_sp l.
Proof.
  induction l as [|c l IH]; simpl; intros ws H.
  - exfalso. now apply H.
  - destruct c; try reflexivity. f_equal. apply IH. exact H.
Qed.

(* blank lines (possibly holding whitespace) are dropped *)
Lemma pre_go_unnumbered_shift :
  forall ls i j, map unnumbered (pre_go i ls) = map unnumbered (pre_go j ls).
Proof.
  induction ls as [|l r IH]; intros i j; simpl; [reflexivity|].
  destruct (strip l) as [|c s]; [apply IH|].
  destruct c; simpl; try apply IH; f_equal; apply IH.
Qed.

Theorem v1_blank :
  forall a ws b, forallb is_wsc ws = true ->
    map unnumbered (pre (a ++ ws :: b)) = map unnumbered (pre (a ++ b)).
Proof.
  intros a ws b H. unfold pre. generalize 0 as i.
  induction a as [|l a IH]; intros i; simpl.
  - rewrite (strip_all_ws ws H). apply pre_go_unnumbered_shift.
  - destruct (strip l) as [|c s]; [apply IH|].
    destruct c; simpl; try apply IH; f_equal; apply IH.
Qed.

(* trailing whitespace (spaces or tabs) on any lines changes nothing at all *)
Theorem v1_trailing_ws :
  forall ls ls',
    Forall2 (fun l l' => exists ws, forallb is_wsc ws = true /\ l' = l ++ ws) ls ls' ->
    pre ls' = pre ls.
Proof.
  intros ls ls' H. unfold pre. generalize 0 as i.
  induction H as [|l l' r r' [ws [Hws ->]] _ IH]; intros i; simpl; [reflexivity|].
  rewrite (strip_app_ws l ws Hws).
  destruct (strip l) as [|c s] eqn:Hs; [apply IH|].
  assert (Hl : lead_sp (l ++ ws) = lead_sp l) by (apply lead_sp_app_ws; rewrite Hs; discriminate).
  destruct c; rewrite ?Hl, ?IH; reflexivity.
Qed.

(* scaling *)
Lemma lstrip_repeat_sp : forall k x, lstrip (repeat CSp k ++ x) = lstrip x.
Proof. induction k as [|k IH]; simpl; intros x; [reflexivity | apply IH]. Qed.

Lemma strip_scale_line : forall k l, strip (scale_line k l) = strip l.
Proof.
  unfold strip. intros k. induction l as [|c l IH]; simpl; [reflexivity|].
  destruct c; try reflexivity. rewrite lstrip_repeat_sp. simpl. exact IH.
Qed.

Lemma lead_sp_repeat : forall k x, lead_sp (repeat CSp k ++ x) = N.of_nat k + lead_sp x.
Proof.
  induction k as [|k IH]; intros x; simpl repeat; simpl app; [reflexivity|].
  simpl lead_sp. rewrite IH. lia.
Qed.

Lemma lead_sp_scale_line : forall k l, lead_sp (scale_line k l) = N.of_nat k * lead_sp l.
Proof.
  intros k. induction l as [|c l IH]; simpl; [lia|].
  destruct c; simpl; try lia. rewrite lead_sp_repeat, IH. lia.
Qed.

(* Uniform scaling changes ONLY the recorded indentation numbers, each multiplied by k *)
Theorem v1_scale :
  forall k ls, pre (map (scale_line k) ls) = map (scale_ind k) (pre ls).
Proof.
  intros k ls. unfold pre. generalize 0 as i.
  induction ls as [|l r IH]; intros i; simpl; [reflexivity|].
  rewrite strip_scale_line.
  destruct (strip l) as [|c s]; [apply IH|].
  destruct c; simpl; rewrite ?IH; try reflexivity;
    unfold scale_ind; simpl; now rewrite lead_sp_scale_line.
Qed.

(* ... hence, for k > 0, every comparison between two lines' indentations is preserved.
   (The parser after this function also ADDS constants to indentations in a few places, so
   this is not yet invariance of the parse: that part is explored by the differential.) *)
Theorem v1_scale_order :
  forall k, (0 < k)%nat -> forall x y : nline,
    (n_ind (scale_ind k x) ?= n_ind (scale_ind k y)) = (n_ind x ?= n_ind y).
Proof.
  intros k Hk x y. unfold scale_ind. simpl.
  assert (HK : 0 < N.of_nat k) by lia.
  destruct (n_ind x ?= n_ind y) eqn:H.
  - apply N.compare_eq_iff in H. rewrite H. apply N.compare_refl.
  - apply N.compare_lt_iff in H. apply N.compare_lt_iff. now apply N.mul_lt_mono_pos_l.
  - apply N.compare_gt_iff in H. apply N.compare_gt_iff. now apply N.mul_lt_mono_pos_l.
Qed.

Example v1_hyps_inhabited :
  let ls := [[CChr 1; CSp; CChr 2]; [CSp; CSp; CChr 4; CSp; CChr 5]; [CSp; CSp; CSp; CSp; CChr 6]] in
  map n_ind (pre (map (scale_line 3) ls)) = [0; 6; 12] /\ map n_ind (pre ls) = [0; 2; 4].
Proof. split; reflexivity. Qed.

(* ------------------------------------------------------------------------------------ *)
(* the model with the continuation join (pre_c) *)

(* what `go` reads of a physical line: its stripped text and, if that is not empty, its
   number of leading blanks *)
Definition line_eqv (l l' : list ch) : Prop :=
  strip l' = strip l /\ (strip l <> [] -> lead_sp l' = lead_sp l).

Lemma go_congr :
  forall ls ls', Forall2 line_eqv ls ls' ->
  forall i pend, go i pend ls' = go i pend ls.
Proof.
  intros ls ls' H. induction H as [|l l' r r' [Hs Hl] Hr IH]; intros i pend; [reflexivity|].
  assert (Hn : match r' with [] => false | _ => true end = match r with [] => false | _ => true end).
  { destruct Hr; reflexivity. }
  simpl. rewrite Hn. unfold join_next. rewrite Hs.
  destruct pend as [[text ind]|].
  - destruct (if ends_bsl text then removelast text else text) as [|c t1]; [reflexivity|].
    rewrite !IH. reflexivity.
  - destruct (strip l) as [|c s] eqn:Es; [apply IH|].
    rewrite Hl by discriminate.
    destruct c; rewrite ?IH; reflexivity.
Qed.

(* trailing whitespace on ANY physical lines - first lines, continuation lines after a
   backslash or " or", blank lines - changes nothing *)
Theorem v1_trailing_ws_cont :
  forall ls ls',
    Forall2 (fun l l' => exists ws, forallb is_wsc ws = true /\ l' = l ++ ws) ls ls' ->
    pre_c ls' = pre_c ls.
Proof.
  intros ls ls' H. unfold pre_c. apply go_congr.
  induction H as [|l l' r r' [ws [Hws ->]] _ IH]; constructor; [|exact IH].
  split; [now apply strip_app_ws | intros Hne; now apply lead_sp_app_ws].
Qed.

(* scaling: only the recorded indentation of each statement is multiplied by k *)
Lemma go_scale :
  forall k ls i pend,
    go i (option_map (fun p => (fst p, N.of_nat k * snd p)) pend) (map (scale_line k) ls)
    = option_map (map (scale_ind k)) (go i pend ls).
Proof.
  intros k ls. induction ls as [|l r IH]; intros i pend.
  - destruct pend as [[t n]|]; reflexivity.
  - assert (Hn : match map (scale_line k) r with [] => false | _ => true end
                 = match r with [] => false | _ => true end) by (destruct r; reflexivity).
    pose proof (IH (i + 1) None) as EN. simpl in EN.
    pose proof (fun t n => IH (i + 1) (Some (t, n))) as ES. simpl in ES.
    assert (FIN : forall text ind,
      (if (ends_bsl text && match r with [] => false | _ => true end) || ends_or text
       then go (i + 1) (Some (text, N.of_nat k * ind)) (map (scale_line k) r)
       else option_map (cons {| n_text := text; n_number := i + 1; n_ind := N.of_nat k * ind |})
                       (go (i + 1) None (map (scale_line k) r)))
      = option_map (map (scale_ind k))
          (if (ends_bsl text && match r with [] => false | _ => true end) || ends_or text
           then go (i + 1) (Some (text, ind)) r
           else option_map (cons {| n_text := text; n_number := i + 1; n_ind := ind |}) (go (i + 1) None r))).
    { intros text ind.
      destruct ((ends_bsl text && match r with [] => false | _ => true end) || ends_or text).
      - apply ES.
      - rewrite EN. destruct (go (i + 1) None r); reflexivity. }
    simpl. rewrite Hn. unfold join_next. rewrite strip_scale_line.
    destruct pend as [[text ind]|]; simpl.
    + destruct (if ends_bsl text then removelast text else text) as [|c t1]; [reflexivity|].
      apply FIN.
    + destruct (strip l) as [|c s] eqn:Es; [exact EN|].
      rewrite lead_sp_scale_line.
      destruct c; try exact EN; apply FIN.
Qed.

Theorem v1_scale_cont :
  forall k ls, pre_c (map (scale_line k) ls) = option_map (map (scale_ind k)) (pre_c ls).
Proof. intros k ls. exact (go_scale k ls 0 None). Qed.

(* on texts without continuation markers the two models agree *)
Definition no_cont (l : list ch) : bool := negb (ends_bsl (strip l)) && negb (ends_or (strip l)).

Lemma go_no_cont :
  forall ls, forallb no_cont ls = true -> forall i, go i None ls = Some (pre_go i ls).
Proof.
  induction ls as [|l r IH]; intros H i; [reflexivity|].
  simpl in H. apply andb_prop in H. destruct H as [Hl Hr].
  unfold no_cont in Hl. apply andb_prop in Hl. destruct Hl as [Hb Ho].
  apply negb_true_iff in Hb. apply negb_true_iff in Ho.
  simpl. destruct (strip l) as [|c s] eqn:Es; [now apply IH|].
  destruct c; try (now apply IH); rewrite Hb, Ho; simpl; rewrite (IH Hr); reflexivity.
Qed.

Theorem v1_cont_agrees :
  forall ls, forallb no_cont ls = true -> pre_c ls = Some (pre ls).
Proof. intros ls H. exact (go_no_cont ls H 0). Qed.

(* hypotheses inhabited: a statement continued over three physical lines, trailing blanks
   after EVERY line incl. after the second backslash *)
Example v1_cont_inhabited :
  let ls  := [[CChr 1; CSp; CChr 92]; [CSp; CSp; CChr 2; CSp; CChr 92]; [CSp; CChr 3]] in
  let ls' := [[CChr 1; CSp; CChr 92; CSp]; [CSp; CSp; CChr 2; CSp; CChr 92; CSp; CTab]; [CSp; CChr 3; CSp]] in
  pre_c ls' = pre_c ls /\
  pre_c ls = Some [{| n_text := [CChr 1; CSp; CChr 2; CSp; CChr 3]; n_number := 3; n_ind := 0 |}].
Proof. split; vm_compute; reflexivity. Qed.

(* ------------------------------------------------------------------------------------ *)
(* the pending comment *)

Lemma pre_cm_go_shift :
  forall ls i j cm, map unnumbered_cm (pre_cm_go i cm ls) = map unnumbered_cm (pre_cm_go j cm ls).
Proof.
  induction ls as [|l r IH]; intros i j cm; simpl; [reflexivity|].
  destruct (strip l) as [|c s]; [apply IH|].
  destruct c; simpl; try apply IH; f_equal; apply IH.
Qed.

(* a blank line (possibly holding whitespace) ANYWHERE - also between a comment and the
   statement it belongs to, or between two comment lines - changes neither the statements
   nor the comment attached to each of them *)
Theorem v1_blank_cm :
  forall a ws b, forallb is_wsc ws = true ->
    map unnumbered_cm (pre_cm (a ++ ws :: b)) = map unnumbered_cm (pre_cm (a ++ b)).
Proof.
  intros a ws b H. unfold pre_cm. generalize 0 as i. generalize (@None (list (list ch))) as cm.
  induction a as [|l a IH]; intros cm i; simpl.
  - rewrite (strip_all_ws ws H). apply pre_cm_go_shift.
  - destruct (strip l) as [|c s]; [apply IH|].
    destruct c; simpl; try apply IH; f_equal; apply IH.
Qed.

(* the statements of pre_cm are those of pre *)
Lemma pre_cm_go_fst : forall ls i cm, map fst (pre_cm_go i cm ls) = pre_go i ls.
Proof.
  induction ls as [|l r IH]; intros i cm; simpl; [reflexivity|].
  destruct (strip l) as [|c s]; [apply IH|].
  destruct c; simpl; try apply IH; f_equal; apply IH.
Qed.

Theorem pre_cm_fst : forall ls, map fst (pre_cm ls) = pre ls.
Proof. intros ls. apply pre_cm_go_fst. Qed.

Example v1_blank_cm_inhabited :
  let a := [[CChr 9]; [CSp; CSp; CHash; CSp; CChr 1]] in
  let b := [[CSp; CSp; CChr 3]] in
  map unnumbered_cm (pre_cm (a ++ [CSp; CTab] :: b)) = [([CChr 9], 0, None); ([CChr 3], 2, Some [[CChr 1]])].
Proof. reflexivity. Qed.
