(* Executable checkers for the cascade part of the C10 correspondence. *)
From Coq Require Import List Arith Bool.
From NG Require Import V2.Term V2.Cascade.
Import ListNotations.

(* is the (real, loaded) program inside the class covered by C10_rtc_bound_partial? *)
Definition in_class (prog : program) : bool := cascade_guardedb prog.

(* the same with a given number of weight passes (= depth of the StartFlow graph + 1 suffices);
   fewer passes can only reject more *)
Definition in_class_n (n : nat) (prog : program) : bool := cascade_cert_ok prog (compute_certs prog n).

(* why not: 0 accepted; 1 a flow does not start with `match StartFlow` / static stacks inconsistent or
   the cascade graph has a cycle without external match; 2 no weights (StartFlow cycle without
   external match); 3 side conditions for activated flows *)
Definition class_reason_n (n : nat) (prog : program) : nat :=
  let certs := compute_certs prog n in
  if cascade_cert_ok prog certs then 0
  else if negb (forallb (fun ec => check_cert true (fst ec) (f_rank (snd ec)) (f_stk (snd ec))) (combine prog certs)) then 1
  else if negb (Cascade.forallb_i (fun f es => match nth_error certs f with Some ct => check_w prog certs f es ct | None => false end) prog 0) then 2
  else 3.

(* case = (program, [(live heads, live instances before the event, internal events processed by the
   real run_to_completion)]).  The real interpreter additionally emits one UnhandledEvent per
   internal event nobody matches, hence the factor 2. *)
Definition reason_is (n k : nat) (prog : program) : bool := Nat.eqb (class_reason_n n prog) k.

Definition check_bound_n (n : nat) (c : program * list (nat * nat * nat)) : bool :=
  let '(prog, obs) := c in
  let certs := compute_certs prog n in
  negb (cascade_cert_ok prog certs) ||
  forallb (fun ls => let '(lh, lv, steps) := ls in Nat.leb steps (2 * rtc_bound prog certs lh lv 1 + 2)) obs.

Definition check_bound (c : program * list (nat * nat * nat)) : bool := check_bound_n (S (length (fst c))) c.

(* Restart decision of the real _abort_flow for a flow that fails by itself, against the model's
   fail_inst under the repaired guard.  case = (activated, new_instance_started, deactivate_flow,
   the flow had been STARTED, a restart StartFlow was observed). *)
Definition model_restarts (act nis deact was_started : bool) : bool :=
  if deact then false
  else
    let c := {| c_flow := 0; c_heads := []; c_status := if was_started then CStarted else CStarting;
                c_act := act; c_restarted := nis; c_forked := false |} in
    match r_left (fail_inst c (guard_ok true c) false nis) with [] => false | _ => true end.

Definition check_restart (c : bool * bool * bool * bool * bool) : bool :=
  let '(act, nis, deact, was_started, observed) := c in
  Bool.eqb (model_restarts act nis deact was_started) observed.

(* one evaluation per program: 0 = accepted by the certificate and every observation is within the
   bound; 100 = accepted, an observation exceeds 2 * rtc_bound + 2; 1 / 2 / 3 = rejected (see
   class_reason_n) *)
Definition classify_n (n : nat) (c : program * list (nat * nat * nat)) : nat :=
  let '(prog, obs) := c in
  let certs := compute_certs prog n in
  if cascade_cert_ok prog certs then
    if forallb (fun ls => let '(lh, lv, steps) := ls in Nat.leb steps (2 * rtc_bound prog certs lh lv 1 + 2)) obs
    then 0 else 100
  else if negb (forallb (fun ec => check_cert true (fst ec) (f_rank (snd ec)) (f_stk (snd ec))) (combine prog certs)) then 1
  else if negb (Cascade.forallb_i (fun f es => match nth_error certs f with Some ct => check_w prog certs f es ct | None => false end) prog 0) then 2
  else 3.
