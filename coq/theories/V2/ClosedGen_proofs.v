(* C12 (Colang 2.x) - (T) tie: facts about the element classes the CURRENT slide() and
   expand_elements() dispatch on (Gen/C12Consts.v is regenerated from the source on every run). *)
From Coq Require Import List String Bool.
From NG Require Import Gen.C12Consts V2.ClosedAst V2.Closed.
Import ListNotations.
Open Scope string_scope.

Definition primitive (e : elem) : Prop :=
  match e with
  | EComposite _ => False
  | EPlain c => In c plain_classes \/ c = ignored
  | _ => True
  end.

Definition sinb (s : string) (l : list string) : bool := existsb (String.eqb s) l.

Lemma sinb_In s l : sinb s l = true -> In s l.
Proof.
  unfold sinb. rewrite existsb_exists. intros [x [Hin He]]. apply String.eqb_eq in He. now subst.
Qed.

(* every primitive element kind of the model is a class slide() has a branch for: if a branch of
   slide() is removed, the element would fall into "ignore unknown element" and this fails *)
Theorem slide_handles_primitives :
  forall e, primitive e ->
            In (kind_class e) slide_classes \/ (kind_class e = ignored /\ slide_ignores_unknown = true).
Proof.
  assert (Hp : forallb (fun c => sinb c slide_classes) plain_classes = true) by (vm_compute; reflexivity).
  intros e He. destruct e; cbv beta iota delta [kind_class primitive] in *;
    try (left; apply sinb_In; vm_compute; reflexivity).
  - destruct He as [He| ->].
    + left. apply sinb_In. rewrite forallb_forall in Hp. apply Hp. exact He.
    + right. split; [reflexivity|vm_compute; reflexivity].
  - contradiction.
Qed.

(* slide() itself steps over exactly `send` and `_new_action_instance`; every other SpecOp.op
   stops the head (match) - or would stop it forever if a composite op were left *)
Theorem slide_sliding_ops_are : slide_sliding_ops = ["send"; "_new_action_instance"].
Proof. vm_compute. reflexivity. Qed.

(* the composite statements are rewritten by expand_elements and unknown to slide():
   left unexpanded they would be silently skipped ("Ignore unknown element") *)
Theorem composites_expanded_not_slid :
  forallb (fun c => sinb c expand_classes && negb (sinb c slide_classes)) ["While"; "If"; "When"] = true /\
  forallb (fun o => sinb o expand_ops) ["start"; "stop"; "activate"; "deactivate"; "await"; "send"; "match"] = true /\
  forallb (fun o => negb (sinb o slide_sliding_ops)) ["start"; "stop"; "activate"; "deactivate"; "await"; "match"] = true.
Proof. vm_compute. auto. Qed.
