(* C18 - model of nemoguardrails/streaming.py : StreamingHandler (push_chunk, _process,
   on_llm_end, __anext__), transcribed branch by branch, over strings = lists over an
   abstract alphabet A with a boolean equality.  Definitions only (+ sanity Examples).

   Two transcriptions are kept:
     * `push` / `process` / `on_llm_end`            : the handler AFTER fixes/C18-streaming.patch
     * `push_old` / `process_old` / `on_llm_end_old`: the handler of the pinned snapshot (pre-fix),
       kept for the `_refuted` witnesses (regression documentation).

   What is modelled: buffering disabled (enable_buffer = False), one producer, the sink
   (asyncio.Queue, or the piped handler that receives exactly the same items) as the list of
   items put, asyncio events as booleans.  `None`/`""` chunks are end-of-stream markers. *)
From Coq Require Import List Bool Arith Lia.
Import ListNotations.

Set Implicit Arguments.

Section Stream.
Variable A : Type.
Variable eqb : A -> A -> bool.
Notation str := (list A).

(* ------------------------------------------------------------------------------------ *)
(* Python string primitives                                                              *)

(* s.startswith(p) *)
Fixpoint prefixb (p s : str) : bool :=
  match p, s with
  | [], _ => true
  | _ :: _, [] => false
  | a :: p', b :: s' => eqb a b && prefixb p' s'
  end.

(* s.endswith(p) *)
Definition endswith (s p : str) : bool := prefixb (rev p) (rev s).

(* s.find(p) : leftmost index at which p occurs in s; None for -1.  `p in s` is `find p s <> None`.
   As in Python, the empty string occurs at index 0 of every string. *)
Fixpoint find (p s : str) : option nat :=
  if prefixb p s then Some 0 else
  match s with
  | [] => None
  | _ :: s' => option_map S (find p s')
  end.

(* p occurs in s at index i (specification-level reading of `find`) *)
Definition occ (p s : str) (i : nat) : Prop := exists a b, s = a ++ p ++ b /\ length a = i.

(* s[a:b] for 0 <= a, 0 <= b *)
Definition slice (a b : nat) (s : str) : str := skipn a (firstn b s).

(* truthiness of an Optional[str] attribute: `if self.prefix:` *)
Definition truthy (o : option str) : bool :=
  match o with Some (_ :: _) => true | _ => false end.
Definition oget (o : option str) : str := match o with Some s => s | None => [] end.
Definition nonempty {B} (l : list B) : bool := match l with [] => false | _ => true end.

(* min([completion.find(s) for s in stop if s in completion]) ; None when that list is empty *)
Fixpoint first_stop (stops : list str) (t : str) : option nat :=
  match stops with
  | [] => None
  | s :: rest =>
      match find s t, first_stop rest t with
      | Some i, Some j => Some (Nat.min i j)
      | Some i, None => Some i
      | None, r => r
      end
  end.

(* `if self.suffix and chunk.endswith(self.suffix): chunk = chunk[0 : -1 * len(self.suffix)]` *)
Definition strip_suffix (suf : option str) (c : str) : str :=
  if truthy suf && endswith c (oget suf) then firstn (length c - length (oget suf)) c else c.

(* the hold-back test of push_chunk:
     for _chunk in _chunks: for _len in range(len(_chunk)):
         if self.current_chunk.endswith(_chunk[0 : _len + 1]): skip_processing = True *)
Definition partial_end_of (cur p : str) : bool :=
  existsb (fun l => endswith cur (firstn (S l) p)) (seq 0 (length p)).
Definition partial_end (cur : str) (pats : list str) : bool := existsb (partial_end_of cur) pats.

(* ------------------------------------------------------------------------------------ *)
(* State                                                                                 *)

Record state := mkState {
  s_prefix : option str;          (* self.prefix *)
  s_suffix : option str;          (* self.suffix *)
  s_stop : list str;              (* self.stop *)
  s_cur : str;                    (* self.current_chunk *)
  s_completion : str;             (* self.completion *)
  s_finished : bool;              (* self.streaming_finished_event.is_set() *)
  s_queue : list (option str);    (* every item put in self.queue (or piped), oldest first *)
  s_err : bool                    (* only the pre-fix model: ValueError of split("") / fuel exhausted *)
}.

Record config := mkConfig { c_prefix : option str; c_suffix : option str; c_stop : list str }.

Definition init (c : config) : state :=
  mkState (c_prefix c) (c_suffix c) (c_stop c) [] [] false [] false.

Definition set_cur (st : state) (c : str) : state :=
  mkState (s_prefix st) (s_suffix st) (s_stop st) c (s_completion st) (s_finished st) (s_queue st) (s_err st).
Definition set_completion (st : state) (c : str) : state :=
  mkState (s_prefix st) (s_suffix st) (s_stop st) (s_cur st) c (s_finished st) (s_queue st) (s_err st).
Definition set_finished (st : state) : state :=
  mkState (s_prefix st) (s_suffix st) (s_stop st) (s_cur st) (s_completion st) true (s_queue st) (s_err st).
Definition set_err (st : state) : state :=
  mkState (s_prefix st) (s_suffix st) (s_stop st) (s_cur st) (s_completion st) (s_finished st) (s_queue st) true.
Definition clear_prefix (st : state) : state :=
  mkState None (s_suffix st) (s_stop st) (s_cur st) (s_completion st) (s_finished st) (s_queue st) (s_err st).
Definition clear_patterns (st : state) : state :=
  mkState None None (s_stop st) (s_cur st) (s_completion st) (s_finished st) (s_queue st) (s_err st).

(* `chunk is None or chunk == ""` *)
Definition is_end (chunk : option str) : bool :=
  match chunk with None => true | Some [] => true | Some _ => false end.

(* tail of _process:  await self.queue.put(chunk)  (or the piped push);
   `if stopped or chunk is None or chunk == "": self.streaming_finished_event.set()` *)
Definition emit (st : state) (chunk : option str) (stopped : bool) : state :=
  mkState (s_prefix st) (s_suffix st) (s_stop st) (s_cur st) (s_completion st)
          (s_finished st || stopped || is_end chunk) (s_queue st ++ [chunk]) (s_err st).

(* what the consumer of the async iterator receives: __anext__ raises StopAsyncIteration on the
   first None / "" item *)
Fixpoint delivered (q : list (option str)) : list str :=
  match q with
  | [] => []
  | None :: _ => []
  | Some [] :: _ => []
  | Some c :: q' => c :: delivered q'
  end.

(* ------------------------------------------------------------------------------------ *)
(* The repaired handler                                                                  *)

(* _process(chunk, last_chunk) with enable_buffer = False *)
Definition process (st : state) (chunk : option str) (last : bool) : state :=
  match chunk with
  | None => emit st None false
  | Some c =>
      let comp := s_completion st ++ c in
      match first_stop (s_stop st) comp with
      | Some m =>
          (* chunk = completion[len(self.completion) : min(stop_indices)] ; stopped = True *)
          match slice (length (s_completion st)) m comp with
          | [] => set_finished st                         (* `if not chunk:` ... return *)
          | c1 =>
              let c2 := strip_suffix (s_suffix st) c1 in
              emit (set_completion st (s_completion st ++ c2)) (Some c2) true
          end
      | None =>
          let c2 := if last then strip_suffix (s_suffix st) c else c in
          emit (set_completion st (s_completion st ++ c2)) (Some c2) false
      end
  end.

(* the suffix / stop patterns whose partial occurrence at the end holds a chunk back *)
Definition hold_patterns (st : state) : list str :=
  (if truthy (s_suffix st) then [oget (s_suffix st)] else []) ++ s_stop st.

(* push_chunk below the `if self.prefix:` test: the `elif self.suffix or self.stop:` and `else:` arms *)
Definition push_np (st : state) (chunk : option str) : state :=
  if truthy (s_suffix st) || nonempty (s_stop st) then
    let cur := s_cur st ++ oget chunk in            (* if chunk is not None: self.current_chunk += chunk *)
    if partial_end cur (hold_patterns st) && negb (is_end chunk) then
      set_cur st cur                                 (* held back: return *)
    else
      set_cur (process (set_cur st cur) (Some cur) (is_end chunk)) []
  else process st chunk false.

(* push_chunk *)
Definition push (st : state) (chunk : option str) : state :=
  if s_finished st then st                           (* "CHUNK after finish" *)
  else if truthy (s_prefix st) then
    let cur := s_cur st ++ oget chunk in
    if prefixb (oget (s_prefix st)) cur then
      let rest := skipn (length (oget (s_prefix st))) cur in
      let st1 := clear_prefix (set_cur st []) in
      match rest with
      | [] => st1
      | _ => if s_finished st1 then st1 else push_np st1 (Some rest)   (* await self.push_chunk(chunk) *)
      end
    else set_cur st cur
  else push_np st chunk.

(* on_llm_end *)
Definition on_llm_end (st : state) : state :=
  let st1 := match s_cur st with
             | [] => st
             | c => set_cur (process st (Some c) true) []
             end in
  clear_patterns (process st1 (Some []) false).

(* how the end of the LLM output is signalled to the handler *)
Inductive end_mode := EndLLM (* on_llm_end, the LangChain callback *)
                    | EndEmpty (* push_chunk("") *)
                    | EndNone (* push_chunk(None) *).

(* the end markers that go through push_chunk *)
Definition is_push_end (e : end_mode) : bool := match e with EndLLM => false | _ => true end.

Definition finish (e : end_mode) (st : state) : state :=
  match e with
  | EndLLM => on_llm_end st
  | EndEmpty => push st (Some [])
  | EndNone => push st None
  end.

Definition feed (st : state) (chunks : list str) : state :=
  fold_left (fun s c => push s (Some c)) chunks st.

Definition run (c : config) (chunks : list str) (e : end_mode) : state :=
  finish e (feed (init c) chunks).

(* ------------------------------------------------------------------------------------ *)
(* The LangChain callback entry path: on_chat_model_start, on_llm_new_token per token,    *)
(* on_llm_end.  LangChain passes chunk = GenerationChunk(text=token) /                    *)
(* ChatGenerationChunk(message=AIMessageChunk(content=token)); push_chunk unwraps it.     *)

(* on_chat_model_start: self.current_chunk = "" *)
Definition on_chat_model_start (st : state) : state := set_cur st [].

(* on_llm_new_token; the second component is self.first_token:
     if self.first_token: self.first_token = False; if token == "": return
     await self.push_chunk(chunk)
   Only an EMPTY FIRST token is dropped; any later empty token reaches push_chunk, where it is
   the end-of-stream marker. *)
Definition on_llm_new_token (sf : state * bool) (token : str) : state * bool :=
  let (st, first) := sf in
  if first then
    match token with
    | [] => (st, false)
    | _ => (push st (Some token), false)
    end
  else (push st (Some token), false).

Definition feed_tokens (sf : state * bool) (tokens : list str) : state * bool :=
  fold_left on_llm_new_token tokens sf.

(* a whole LLM call as LangChain drives it *)
Definition run_tokens (c : config) (chat : bool) (tokens : list str) : state :=
  let st0 := if chat then on_chat_model_start (init c) else init c in
  on_llm_end (fst (feed_tokens (st0, true) tokens)).

(* ------------------------------------------------------------------------------------ *)
(* Specification: what must be delivered for a text, whatever the chunking               *)

(* the configured prefix is removed when the text starts with it *)
Definition strip_prefix (p : option str) (t : str) : str :=
  if truthy p && prefixb (oget p) t then skipn (length (oget p)) t else t.

(* cut at the first (leftmost) occurrence of any stop sequence *)
Definition cut_stop (stops : list str) (t : str) : str :=
  match first_stop stops t with Some m => firstn m t | None => t end.

(* prefix removed, cut at the first stop sequence, suffix removed from the very end *)
Definition spec (c : config) (text : str) : str :=
  strip_suffix (c_suffix c) (cut_stop (c_stop c) (strip_prefix (c_prefix c) text)).

(* the text starts with the configured prefix (or none is configured) *)
Definition prefix_seen (c : config) (text : str) : bool :=
  negb (truthy (c_prefix c)) || prefixb (oget (c_prefix c)) text.

(* ------------------------------------------------------------------------------------ *)
(* The handler of the pinned snapshot (pre-fix), for the refutation witnesses            *)

(* for stop_chunk in self.stop: if stop_chunk in self.completion: -> first LISTED stop that occurs *)
Fixpoint first_listed_stop (stops : list str) (t : str) : option (str * nat) :=
  match stops with
  | [] => None
  | s :: rest => match find s t with
                 | Some i => Some (s, i)
                 | None => first_listed_stop rest t
                 end
  end.

Definition strip_suffix_old (suf : option str) (c : str) : str :=
  (* `if self.current_chunk and self.suffix and self.current_chunk.endswith(self.suffix)` *)
  if nonempty c && truthy suf && endswith c (oget suf)
  then firstn (length c - length (oget suf)) c else c.

(* push_chunk of the snapshot, parameterised by the (recursive) _process *)
Definition push_old_with (proc : state -> option str -> state) (st : state) (chunk : option str) : state :=
  if s_finished st then st
  else if truthy (s_prefix st) then
    let cur := s_cur st ++ oget chunk in
    if prefixb (oget (s_prefix st)) cur then
      let rest := skipn (length (oget (s_prefix st))) cur in
      let st1 := clear_prefix (set_cur st rest) in
      match rest with
      | [] => st1
      | _ => set_cur (proc st1 (Some rest)) []
      end
    else set_cur st cur
  else if truthy (s_suffix st) || nonempty (s_stop st) then
    let cur := s_cur st ++ oget chunk in
    if partial_end cur (hold_patterns st) && negb (is_end chunk) then set_cur st cur
    else
      let cur2 := if is_end chunk then strip_suffix_old (s_suffix st) cur else cur in
      set_cur (proc (set_cur st cur2) (Some cur2)) []
  else proc st chunk.

(* _process of the snapshot; re-enters push_chunk(None) on a stop sequence *)
Fixpoint process_old (fuel : nat) (st : state) (chunk : option str) : state :=
  match fuel with
  | O => set_err st
  | S fuel' =>
      match chunk with
      | None => emit st None false
      | Some c =>
          let prev := s_completion st in
          let st1 := set_completion st (prev ++ c) in
          match first_listed_stop (s_stop st) (prev ++ c) with
          | Some ([], _) => set_err st1                    (* "".split("") : ValueError *)
          | Some (_, i) =>
              let st2 := set_completion st1 (firstn i (prev ++ c)) in   (* split(stop_chunk)[0] *)
              let st3 :=
                if length prev <? length (s_completion st2) then
                  push_old_with (process_old fuel')
                                (set_cur st2 (skipn (length prev) (s_completion st2))) None
                else st2 in
              set_finished st3
          | None => emit st1 (Some c) false
          end
      end
  end.

Definition old_fuel (st : state) (chunk : option str) : nat :=
  S (S (length (s_completion st) + length (s_cur st) + length (oget chunk))).

Definition push_old (st : state) (chunk : option str) : state :=
  push_old_with (process_old (old_fuel st chunk)) st chunk.

Definition on_llm_end_old (st : state) : state :=
  let st1 := match s_cur st with
             | [] => st
             | c =>
                 let c' := if truthy (s_suffix st) && endswith c (oget (s_suffix st))
                           then firstn (length c - length (oget (s_suffix st))) c else c in
                 set_cur (process_old (old_fuel st None) (set_cur st c') (Some c')) []
             end in
  clear_patterns (process_old (old_fuel st1 None) st1 (Some [])).

Definition finish_old (e : end_mode) (st : state) : state :=
  match e with
  | EndLLM => on_llm_end_old st
  | EndEmpty => push_old st (Some [])
  | EndNone => push_old st None
  end.

Definition run_old (c : config) (chunks : list str) (e : end_mode) : state :=
  finish_old e (fold_left (fun s ch => push_old s (Some ch)) chunks (init c)).

End Stream.

Arguments process : simpl never.
Arguments push_np : simpl never.
Arguments push : simpl never.
Arguments on_llm_end : simpl never.
