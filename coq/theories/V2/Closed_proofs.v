(* C12 (Colang 2.x) - soundness of the closedness checker of Closed.v with respect to the
   head-token semantics of ClosedAst.v. *)
From Coq Require Import List String Bool Arith Lia.
From NG Require Import V2.ClosedAst V2.Closed.
Import ListNotations.
Open Scope string_scope.
Open Scope list_scope.

(* ---- step_fn covers the relation ---- *)

Lemma jump_to_some es l sc ct k : lbl es l = Some k -> jump_to es l sc ct = Some (S k, sc, ct).
Proof. intros H. unfold jump_to. now rewrite H. Qed.

Lemma jump_to_none es l sc ct : lbl es l = None -> jump_to es l sc ct = None.
Proof. intros H. unfold jump_to. now rewrite H. Qed.

Lemma fork_targets_in es ls sc ct cs l k :
  fork_targets es ls sc ct = Next cs -> In l ls -> lbl es l = Some k -> In (S k, sc, ct) cs.
Proof.
  revert cs. induction ls as [|a r IH]; intros cs Hf Hin Hl; [contradiction|].
  simpl in Hf. destruct (jump_to es a sc ct) as [c|] eqn:Hj; [|discriminate].
  destruct (fork_targets es r sc ct) as [cs'|] eqn:Hr; [|discriminate].
  injection Hf as <-. destruct Hin as [->|Hin].
  - rewrite (jump_to_some _ _ _ _ _ Hl) in Hj. injection Hj as <-. now left.
  - right. now apply IH.
Qed.

Lemma fork_targets_fail es ls sc ct l :
  In l ls -> lbl es l = None -> exists x, fork_targets es ls sc ct = Fail x.
Proof.
  induction ls as [|a r IH]; intros Hin Hl; [contradiction|]. simpl.
  destruct (jump_to es a sc ct) as [c|] eqn:Hj; [|eauto].
  destruct Hin as [->|Hin].
  - rewrite (jump_to_none _ _ _ _ Hl) in Hj. discriminate.
  - destruct (IH Hin Hl) as [x Hx]. rewrite Hx. eauto.
Qed.

Lemma step_in_next es c c' cs : step es c c' -> step_fn es c = Next cs -> In c' cs.
Proof.
  intros Hs. destruct Hs as
    [p sc ct e Hn Hseq | p sc ct l c k Hn Hl | p sc ct l Hn | p sc ct u ls l k Hn Hin Hl
    | p sc ct l Hn | p sc ct l Hn | p sc ct l k Hn Hl | p sc ct l k Hn Hl
    | p sc ct n Hn Hm | p sc ct n Hn Hm | p sc ct l k Hn Hl | p sc ct Hn | p sc ct l k Hn Hl];
    unfold step_fn; rewrite Hn.
  - destruct e as [| | | | | | o | o | | | | | | |]; try discriminate Hseq;
      try (intros [= <-]; now left).
    + destruct ct as [|l ct']; [intros [= <-]; now left|].
      destruct (jump_to es l sc (l :: ct')); [|discriminate]. intros [= <-]; now left.
  - rewrite (jump_to_some _ _ _ _ _ Hl). intros [= <-]; now left.
  - destruct (jump_to es l sc ct); [|discriminate]. intros [= <-]. right; now left.
  - intros Hf. eapply fork_targets_in; eauto.
  - intros [= <-]; now left.
  - intros [= <-]; now left.
  - rewrite (jump_to_some _ _ _ _ _ Hl). intros [= <-]; now left.
  - rewrite (jump_to_some _ _ _ _ _ Hl). intros [= <-]; now left.
  - rewrite Hm. intros [= <-]; now left.
  - rewrite Hm. intros [= <-]; now left.
  - rewrite (jump_to_some _ _ _ _ _ Hl). intros [= <-]; now left.
  - intros [= <-]; now left.
  - rewrite (jump_to_some _ _ _ _ _ Hl). intros [= <-]. right; now left.
Qed.

Lemma fails_detected es c x : fails es c x -> exists x', step_fn es c = Fail x'.
Proof.
  intros Hf. destruct Hf as
    [p sc ct l c Hn Hl | p sc ct u ls l Hn Hin Hl | p sc ct l Hn Hl | p sc ct l Hn Hl
    | p sc ct l Hn Hl | p sc ct l Hn Hl | p sc ct Hn | p sc ct Hn | p sc Hn | p sc ct n Hn Hm | p sc ct n Hn Hm
    | p sc ct Hn Hsc | p sc ct w Hn]; unfold step_fn; rewrite Hn.
  - rewrite (jump_to_none _ _ _ _ Hl). eauto.
  - eapply fork_targets_fail; eauto.
  - rewrite (jump_to_none _ _ _ _ Hl). eauto.
  - rewrite (jump_to_none _ _ _ _ Hl). eauto.
  - rewrite (jump_to_none _ _ _ _ Hl). eauto.
  - rewrite (jump_to_none _ _ _ _ Hl). eauto.
  - eauto.
  - eauto.
  - eauto.
  - rewrite Hm. eauto.
  - rewrite Hm. eauto.
  - destruct sc; [contradiction|]. eauto.
  - eauto.
Qed.

(* ---- the worklist exploration computes a set closed under step_fn ---- *)

Lemma list_eqb_true a b : list_eqb a b = true -> a = b.
Proof. unfold list_eqb. destruct (list_eq_dec string_dec a b); [auto|discriminate]. Qed.

Lemma config_eqb_true a b : config_eqb a b = true -> a = b.
Proof.
  destruct a as [[p sc] ct], b as [[q sd] cu]. unfold config_eqb.
  rewrite !andb_true_iff. intros [[Hp Hs] Hc].
  apply Nat.eqb_eq in Hp. apply list_eqb_true in Hs. apply list_eqb_true in Hc. now subst.
Qed.

Lemma memc_in c l : memc c l = true -> In c l.
Proof.
  unfold memc. rewrite existsb_exists. intros [x [Hin He]].
  apply config_eqb_true in He. now subst.
Qed.

Definition closed_set (es : list elem) (V : list config) : Prop :=
  forall v, In v V -> exists cs, step_fn es v = Next cs /\ incl cs V.

Lemma explore_sound es fuel : forall todo visited,
  explore fuel es todo visited = VOk ->
  (forall v, In v visited -> exists cs, step_fn es v = Next cs /\
                                        forall c', In c' cs -> In c' visited \/ In c' todo) ->
  exists V, incl visited V /\ incl todo V /\ closed_set es V.
Proof.
  induction fuel as [|f IH]; intros todo visited Hex Hinv; [discriminate|].
  simpl in Hex. destruct todo as [|c rest].
  - exists visited. split; [apply incl_refl|]. split; [intros x []|].
    intros v Hv. destruct (Hinv v Hv) as [cs [Hs Hc]]. exists cs. split; [exact Hs|].
    intros c' Hc'. destruct (Hc c' Hc') as [H|[]]. exact H.
  - destruct (memc c visited) eqn:Hm.
    + apply memc_in in Hm.
      destruct (IH rest visited Hex) as [V [HvV [HrV Hcl]]].
      * intros v Hv. destruct (Hinv v Hv) as [cs [Hs Hc]]. exists cs. split; [exact Hs|].
        intros c' Hc'. destruct (Hc c' Hc') as [H|[->|H]]; auto.
      * exists V. split; [exact HvV|]. split; [|exact Hcl].
        intros x [<-|Hx]; auto.
    + destruct (step_fn es c) as [cs|x] eqn:Hs; [|discriminate].
      destruct (IH (cs ++ rest) (c :: visited) Hex) as [V [HvV [HrV Hcl]]].
      * intros v [<-|Hv].
        -- exists cs. split; [exact Hs|]. intros c' Hc'. right. apply in_or_app. now left.
        -- destruct (Hinv v Hv) as [cs' [Hs' Hc]]. exists cs'. split; [exact Hs'|].
           intros c' Hc'. destruct (Hc c' Hc') as [H|[->|H]].
           ++ left; now right.
           ++ left; now left.
           ++ right. apply in_or_app. now right.
      * exists V. split; [intros x Hx; apply HvV; now right|]. split; [|exact Hcl].
        intros x [<-|Hx]; [apply HvV; now left|]. apply HrV. apply in_or_app. now right.
Qed.

Lemma scopes_okb_closed_set es :
  scopes_okb es = true -> exists V, In init V /\ closed_set es V.
Proof.
  unfold scopes_okb, scope_verdict. intros H.
  destruct (explore (fuel_for es) es [init] []) eqn:He; try discriminate.
  destruct (explore_sound es _ _ _ He) as [V [_ [Hi Hcl]]].
  - intros v [].
  - exists V. split; [apply Hi; now left|exact Hcl].
Qed.

Lemma reach_in_closed es V :
  In init V -> closed_set es V -> forall c, reach es c -> In c V.
Proof.
  intros Hi Hcl c Hr. induction Hr as [|c c' Hr IH Hs]; [exact Hi|].
  destruct (Hcl c IH) as [cs [Hf Hincl]]. apply Hincl. eapply step_in_next; eauto.
Qed.

(* ---- main soundness statements ---- *)

(* dynamic: along every path from the flow start nothing fails *)
Theorem scopes_okb_sound es :
  scopes_okb es = true -> forall c, reach es c -> forall x, ~ fails es c x.
Proof.
  intros H c Hr x Hf. destruct (scopes_okb_closed_set es H) as [V [Hi Hcl]].
  pose proof (reach_in_closed es V Hi Hcl c Hr) as Hin.
  destruct (Hcl c Hin) as [cs [Hs _]]. destruct (fails_detected es c x Hf) as [x' Hx].
  rewrite Hx in Hs. discriminate.
Qed.

Lemma lbl_from_spec l es : forall i k,
  lbl_from l es i = Some k -> i <= k /\ nth_error es (k - i) = Some (ELabel l).
Proof.
  induction es as [|e r IH]; intros i k H; [discriminate|]. simpl in H.
  destruct (lbl_from l r (S i)) as [k'|] eqn:Hr.
  - injection H as <-. destruct (IH _ _ Hr) as [Hle Hn]. split; [lia|].
    replace (k' - i) with (S (k' - S i)) by lia. exact Hn.
  - destruct e; try discriminate. destruct (String.eqb n l) eqn:He; [|discriminate].
    injection H as <-. apply String.eqb_eq in He. subst. split; [lia|].
    now rewrite Nat.sub_diag.
Qed.

Lemma lbl_spec es l k : lbl es l = Some k -> k < List.length es /\ nth_error es k = Some (ELabel l).
Proof.
  unfold lbl. intros H. destruct (lbl_from_spec l es 0 k H) as [_ Hn].
  rewrite Nat.sub_0_r in Hn. split; [|exact Hn].
  apply nth_error_Some. now rewrite Hn.
Qed.

(* static: every label any element refers to is the name of a Label element of this flow *)
Theorem labels_okb_sound es :
  labels_okb es = true ->
  forall i e l, nth_error es i = Some e -> In l (elem_labels e) ->
                exists k, k < List.length es /\ nth_error es k = Some (ELabel l).
Proof.
  unfold labels_okb. rewrite forallb_forall. intros H i e l Hn Hin.
  pose proof (H e (nth_error_In _ _ Hn)) as He. rewrite forallb_forall in He.
  specialize (He l Hin). unfold definedb in He.
  destruct (lbl es l) as [k|] eqn:Hl; [|discriminate]. exists k. now apply lbl_spec.
Qed.

Theorem no_compositeb_sound es :
  no_compositeb es = true -> forall i w, nth_error es i <> Some (EComposite w).
Proof.
  unfold no_compositeb. rewrite forallb_forall. intros H i w Hn.
  specialize (H _ (nth_error_In _ _ Hn)). discriminate.
Qed.

Theorem merges_okb_sound es :
  merges_okb es = true ->
  forall i u, nth_error es i = Some (EMerge u) -> exists ls, In (EFork u ls) es.
Proof.
  unfold merges_okb. rewrite forallb_forall. intros H i u Hn.
  specialize (H _ (nth_error_In _ _ Hn)). simpl in H. unfold has_fork in H.
  rewrite existsb_exists in H. destruct H as [e [Hin He]].
  destruct e; try discriminate. apply String.eqb_eq in He. subst. eauto.
Qed.

Theorem loop_exits_okb_sound es :
  loop_exits_okb es = true ->
  forall i, nth_error es i <> Some (EBreak None) /\ nth_error es i <> Some (EContinue None).
Proof.
  unfold loop_exits_okb. rewrite forallb_forall. intros H i.
  split; intros Hn; specialize (H _ (nth_error_In _ _ Hn)); discriminate.
Qed.

(* the statement of C12 for Colang 2.x, per flow, for a flow the checker accepts *)
Definition closed_v2 (es : list elem) : Prop :=
  (* along every path of a head from the flow start: no label lookup fails, no scope is
     re-opened or unknown, no failure-handler underflow, no composite element is met, and
     the flow end is reached only with every opened scope closed again *)
  (forall c, reach es c -> forall x, ~ fails es c x) /\
  (* every jump / fork / failure-handler / loop-exit label, reachable or not, is a position
     inside the same flow *)
  (forall i e l, nth_error es i = Some e -> In l (elem_labels e) ->
                 exists k, k < List.length es /\ nth_error es k = Some (ELabel l)) /\
  (* only primitives remain *)
  (forall i w, nth_error es i <> Some (EComposite w)) /\
  (* every MergeHeads belongs to a ForkHead of this flow *)
  (forall i u, nth_error es i = Some (EMerge u) -> exists ls, In (EFork u ls) es) /\
  (* every loop exit / loop head jump (reachable or not) names its target *)
  (forall i, nth_error es i <> Some (EBreak None) /\ nth_error es i <> Some (EContinue None)).

Theorem closedb_sound es : closedb es = true -> closed_v2 es.
Proof.
  unfold closedb. rewrite !andb_true_iff. intros [[[[Hl Hc] Hm] Hx] Hs].
  split; [now apply scopes_okb_sound|]. split; [now apply labels_okb_sound|].
  split; [now apply no_compositeb_sound|]. split; [now apply merges_okb_sound|].
  now apply loop_exits_okb_sound.
Qed.

(* corollary: a reachable end of the flow has no open scope; hence every BeginScope executed on
   a path is followed, before that path reaches the flow end, by its EndScope *)
Corollary closed_end_no_open_scope es :
  closedb es = true -> forall p sc ct, reach es (p, sc, ct) -> List.length es <= p -> sc = [].
Proof.
  intros H p sc ct Hr Hp. destruct (closedb_sound es H) as [Hdyn _].
  destruct sc as [|s sc']; [reflexivity|]. exfalso.
  apply (Hdyn _ Hr (XScopeLeftOpen (s :: sc'))). apply F_left_open; [|discriminate].
  now apply nth_error_None.
Qed.

(* a scope name leaves the head's scope list only by executing its EndScope *)
Lemma step_scope_kept es p sc ct p' sc' ct' n :
  step es (p, sc, ct) (p', sc', ct') -> mem n sc = true -> mem n sc' = false ->
  nth_error es p = Some (EEnd n).
Proof.
  intros Hs Hin Hout. inversion Hs; subst; try congruence.
  - simpl in Hout. rewrite Hin in Hout. rewrite orb_true_r in Hout. discriminate.
  - destruct (String.eqb n n0) eqn:He.
    + apply String.eqb_eq in He. now subst.
    + exfalso. unfold mem, remove_s in *. rewrite existsb_exists in Hin.
      destruct Hin as [x [Hx Hxe]]. apply String.eqb_eq in Hxe. subst x.
      assert (existsb (String.eqb n) (filter (fun x => negb (String.eqb n0 x)) sc) = true) as Hc.
      { rewrite existsb_exists. exists n. split; [|apply String.eqb_refl].
        apply filter_In. split; [exact Hx|]. rewrite String.eqb_sym, He. reflexivity. }
      congruence.
Qed.

Inductive path (es : list elem) : config -> list config -> config -> Prop :=
| path_nil c : path es c [] c
| path_cons c c' mid c'' : step es c c' -> path es c' mid c'' -> path es c (c :: mid) c''.

Lemma begin_step es p sc ct n c1 :
  nth_error es p = Some (EBegin n) -> step es (p, sc, ct) c1 -> c1 = (S p, n :: sc, ct).
Proof.
  intros Hn Hs. inversion Hs; subst;
    match goal with
    | H : nth_error es p = Some ?e |- _ =>
        rewrite Hn in H; first [discriminate H | injection H as <-]
    end; first [reflexivity | discriminate].
Qed.

(* "every BeginScope is followed on every path to the flow end by its EndScope" *)
Theorem closed_begin_then_end es :
  closedb es = true ->
  forall p sc ct n c1 mid pe sce cte,
    reach es (p, sc, ct) -> nth_error es p = Some (EBegin n) ->
    step es (p, sc, ct) c1 -> path es c1 mid (pe, sce, cte) -> List.length es <= pe ->
    exists q scq ctq, In (q, scq, ctq) mid /\ nth_error es q = Some (EEnd n).
Proof.
  intros H p sc ct n c1 mid pe sce cte Hr Hn Hs Hp Hend.
  assert (Hr1 : reach es c1) by (eapply reach_step; eauto).
  assert (Hin1 : mem n (snd (fst c1)) = true).
  { rewrite (begin_step es p sc ct n c1 Hn Hs). simpl. now rewrite String.eqb_refl. }
  clear Hs Hn Hr p sc ct.
  remember (pe, sce, cte) as ce eqn:Hce.
  revert Hr1 Hin1. induction Hp as [c|c c' mid' c'' Hs Hp IH]; intros Hr1 Hin1.
  - subst c. simpl in Hin1.
    rewrite (closed_end_no_open_scope es H _ _ _ Hr1 Hend) in Hin1. discriminate.
  - destruct c as [[pc scc] ctc]. destruct c' as [[pc' scc'] ctc']. simpl in Hin1.
    destruct (mem n scc') eqn:Hm'.
    + destruct (IH Hce) as [q [scq [ctq [Hq Hqe]]]].
      * eapply reach_step; eauto.
      * exact Hm'.
      * exists q, scq, ctq. split; [now right|exact Hqe].
    + exists pc, scc, ctc. split; [now left|].
      eapply step_scope_kept; eauto.
Qed.

(* the hypotheses are inhabited: the repaired `when .. else` inside a loop is accepted, so all
   of the above holds for it; the unrepaired one is rejected (regression documentation) *)
Example closed_v2_when_else_fixed : closed_v2 (when_else true).
Proof. apply closedb_sound. vm_compute. reflexivity. Qed.

(* step_fn is exact: it produces only real steps (so the checker does not over-approximate) *)
Lemma fork_targets_step es ls sc ct cs c' :
  fork_targets es ls sc ct = Next cs -> In c' cs ->
  exists l k, In l ls /\ lbl es l = Some k /\ c' = (S k, sc, ct).
Proof.
  revert cs. induction ls as [|a r IH]; intros cs Hf Hin.
  - injection Hf as <-. contradiction.
  - simpl in Hf. unfold jump_to in Hf. destruct (lbl es a) as [k|] eqn:Hl; [|discriminate].
    destruct (fork_targets es r sc ct) as [cs'|] eqn:Hr; [|discriminate].
    injection Hf as <-. destruct Hin as [<-|Hin].
    + exists a, k. split; [now left|]. split; [exact Hl|reflexivity].
    + destruct (IH _ eq_refl Hin) as [l [k' [Hl' [Hk' ->]]]].
      exists l, k'. split; [now right|]. split; [exact Hk'|reflexivity].
Qed.

Lemma next_is_step es c cs c' : step_fn es c = Next cs -> In c' cs -> step es c c'.
Proof.
  destruct c as [[p sc] ct]. unfold step_fn.
  destruct (nth_error es p) as [e|] eqn:Hn.
  2:{ destruct sc; [intros [= <-] []|discriminate]. }
  destruct e as [n|l c|u ls|u| |o|o|o|n|n| | | |cl|w]; unfold jump_to.
  - intros [= <-] [<-|[]]. eapply S_seq; eauto.
  - destruct (lbl es l) as [k|] eqn:Hl; [|discriminate]. intros [= <-] [<-|Hin].
    + eapply S_goto_taken; eauto.
    + destruct c; [|contradiction]. destruct Hin as [<-|[]]. eapply S_goto_skip; eauto.
  - intros Hf Hin. destruct (fork_targets_step _ _ _ _ _ _ Hf Hin) as [l [k [Hl [Hk ->]]]].
    eapply S_fork; eauto.
  - intros [= <-] [<-|[]]. eapply S_seq; eauto.
  - intros [= <-] [<-|[]]. eapply S_seq; eauto.
  - destruct o as [l|].
    + intros [= <-] [<-|[]]. eapply S_catch_push; eauto.
    + destruct ct as [|l ct']; [discriminate|]. intros [= <-] [<-|[]]. eapply S_catch_pop; eauto.
  - destruct o as [l|].
    + destruct (lbl es l) as [k|] eqn:Hl; [|discriminate]. intros [= <-] [<-|[]].
      eapply S_break; eauto.
    + discriminate.
  - destruct o as [l|].
    + destruct (lbl es l) as [k|] eqn:Hl; [|discriminate]. intros [= <-] [<-|[]].
      eapply S_continue; eauto.
    + discriminate.
  - destruct (mem n sc) eqn:Hm; [discriminate|]. intros [= <-] [<-|[]]. eapply S_begin; eauto.
  - destruct (mem n sc) eqn:Hm; [|discriminate]. intros [= <-] [<-|[]]. eapply S_end; eauto.
  - destruct ct as [|l ct']; [intros [= <-] []|].
    destruct (lbl es l) as [k|] eqn:Hl; [|discriminate]. intros [= <-] [<-|[]].
    eapply S_abort_caught; eauto.
  - intros [= <-] [<-|[]]. eapply S_return; eauto.
  - destruct ct as [|l ct'].
    + intros [= <-] [<-|[]]. eapply S_seq; eauto.
    + destruct (lbl es l) as [k|] eqn:Hl; [|discriminate]. intros [= <-] [<-|[<-|[]]].
      * eapply S_seq; eauto.
      * eapply S_block_failed; eauto.
  - intros [= <-] [<-|[]]. eapply S_seq; eauto.
  - discriminate.
Qed.

(* a concrete path, validated by computation *)
Fixpoint walk (es : list elem) (c : config) (p : list config) : bool :=
  match p with
  | [] => true
  | c' :: r => match step_fn es c with
               | Next cs => memc c' cs && walk es c' r
               | Fail _ => false
               end
  end.

Fixpoint final (c : config) (p : list config) : config :=
  match p with [] => c | c' :: r => final c' r end.

Lemma walk_reach es : forall p c, reach es c -> walk es c p = true -> reach es (final c p).
Proof.
  induction p as [|c' r IH]; intros c Hr Hw; [exact Hr|].
  simpl in Hw. destruct (step_fn es c) as [cs|] eqn:Hs; [|discriminate].
  apply andb_true_iff in Hw. destruct Hw as [Hm Hw]. apply memc_in in Hm.
  simpl. apply IH; [|exact Hw].
  eapply reach_step; [exact Hr|eapply next_is_step; eauto].
Qed.

(* F8: the unrepaired expansion of `when .. else` inside a loop re-opens its scope on the second
   iteration after an else-iteration - exactly the runtime error
   "Scope with name .. already opened in this head!" *)
Theorem when_else_unfixed_refuted :
  exists c, reach (when_else false) c /\ fails (when_else false) c (XScopeReopened "s").
Proof.
  exists (2, ["s"], []). split.
  - apply (walk_reach (when_else false)
      [(1,[],[]); (2,[],[]); (3,["s"],[]); (5,["s"],[]); (6,["s"],["fail_a"]); (8,["s"],["fail_a"]);
       (17,["s"],["fail_a"]); (18,["s"],["fail_a"]); (19,["s"],[]); (21,["s"],[]); (22,["s"],[]);
       (24,["s"],[]); (25,["s"],[]); (26,["s"],[]); (1,["s"],[]); (2,["s"],[])] init (reach_init _)).
    vm_compute. reflexivity.
  - eapply F_begin; reflexivity.
Qed.
