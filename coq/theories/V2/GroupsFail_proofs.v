(* C07 - proofs about the failure side of the group protocol (model in GroupsFail.v).
   Main result:
     frun_fspec : for a `when` with any number of cases, or a match/await on one group, whose
       groups are false of the empty set and true of the full set,
       frun mt fl st fs evs = fspec mt fl fs evs
     i.e. the statement completes in the first step in which the finished members satisfy the
     formula of some case (and one of exactly those cases fires), it fails in the first step in
     which no case can be satisfied any more (every alternative of every case has a failed
     member), whichever comes first, and nothing happens before. *)
From Coq Require Import List Bool Arith Lia.
From NG Require Import V2.Dnf V2.Dnf_proofs V2.Groups V2.Groups_proofs V2.GroupsFail.
Import ListNotations.

Lemma existsb_ext_in {X} (g h : X -> bool) (l : list X) :
  (forall x, In x l -> g x = h x) -> existsb g l = existsb h l.
Proof.
  induction l as [|x l IH]; simpl; intros H; [reflexivity|].
  rewrite (H x) by now left. rewrite IH; [reflexivity|]. intros y Hy. apply H. now right.
Qed.

Lemma existsb_map {X Y} (g : Y -> bool) (h : X -> Y) (l : list X) :
  existsb g (map h l) = existsb (fun x => g (h x)) l.
Proof. induction l as [|x l IH]; simpl; [reflexivity|]. now rewrite IH. Qed.

Lemma forallb_ext_in {X} (g h : X -> bool) (l : list X) :
  (forall x, In x l -> g x = h x) -> forallb g l = forallb h l.
Proof.
  induction l as [|x l IH]; simpl; intros H; [reflexivity|].
  rewrite (H x) by now left. rewrite IH; [reflexivity|]. intros y Hy. apply H. now right.
Qed.

Lemma existsb_false_in {X} (g : X -> bool) (l : list X) :
  existsb g l = false -> forall x, In x l -> g x = false.
Proof.
  intros H x Hx. destruct (g x) eqn:Hg; [|reflexivity].
  assert (existsb g l = true) by (apply existsb_exists; eauto). congruence.
Qed.

Lemma iw_from_map {X Y} (g : Y -> bool) (h : X -> Y) (l : list X) : forall k,
  iw_from g k (map h l) = iw_from (fun x => g (h x)) k l.
Proof. induction l as [|x l IH]; intros k; simpl; [reflexivity|]. now rewrite IH. Qed.

Lemma iw_from_ext_in {X} (g h : X -> bool) (l : list X) : forall k,
  (forall x, In x l -> g x = h x) -> iw_from g k l = iw_from h k l.
Proof.
  induction l as [|x l IH]; intros k H; simpl; [reflexivity|].
  rewrite (H x) by now left. rewrite (IH (S k)); [reflexivity|]. intros y Hy. apply H. now right.
Qed.

Lemma iw_from_nil {X} (g : X -> bool) (l : list X) : forall k,
  iw_from g k l = [] <-> (forall x, In x l -> g x = false).
Proof.
  induction l as [|x l IH]; intros k; simpl.
  - split; [intros _ x []|reflexivity].
  - destruct (g x) eqn:Hg.
    + split; [discriminate|]. intros H. rewrite (H x) in Hg by now left. discriminate.
    + rewrite IH. split.
      * intros H y [<-|Hy]; auto.
      * intros H y Hy. apply H. now right.
Qed.

(* the members of an index list are indices of elements satisfying g *)
Lemma iw_from_sound {X} (g : X -> bool) (l : list X) (d : X) : forall k i,
  In i (iw_from g k l) <-> (k <= i < k + length l /\ g (nth (i - k) l d) = true).
Proof.
  induction l as [|x l IH]; intros k i; simpl.
  - split; [intros []|]. intros [H _]. lia.
  - destruct (g x) eqn:Hg; simpl.
    + rewrite IH. split.
      * intros [<-|[Hr Hn]].
        -- rewrite Nat.sub_diag. split; [lia|exact Hg].
        -- split; [lia|]. replace (i - k) with (S (i - S k)) by lia. exact Hn.
      * intros [Hr Hn]. destruct (Nat.eq_dec k i) as [->|Hne]; [now left|]. right.
        split; [lia|]. replace (i - k) with (S (i - S k)) in Hn by lia. exact Hn.
    + rewrite IH. split.
      * intros [Hr Hn]. split; [lia|]. replace (i - k) with (S (i - S k)) by lia. exact Hn.
      * intros [Hr Hn]. destruct (Nat.eq_dec k i) as [->|Hne].
        -- rewrite Nat.sub_diag in Hn. congruence.
        -- split; [lia|]. replace (i - k) with (S (i - S k)) in Hn by lia. exact Hn.
Qed.

Section Proofs.
  Variables A E : Type.
  Variables mt fl : A -> E -> bool.

  Notation status := (status mt fl).
  Notation is_fin := (is_fin mt fl).
  Notation not_failed := (not_failed mt fl).

  Definition is_failed (p : list E) (a : A) : bool := negb (not_failed p a).

  (* ---------- status ---------- *)
  Lemma status_app (p : list E) (e : E) (a : A) :
    status (p ++ [e]) a
    = match status p a with
      | Some b => Some b
      | None => if fl a e then Some false else if mt a e then Some true else None
      end.
  Proof.
    induction p as [|x p IH]; simpl; [reflexivity|].
    destruct (fl a x); [reflexivity|]. destruct (mt a x); [reflexivity|]. exact IH.
  Qed.

  (* ---------- the state after the events p ---------- *)
  Definition hd (p : list E) (a : A) : head A := if is_fin p a then HWait else HMatch a.
  Definition dead (p : list E) (c : list A) : bool := existsb (is_failed p) c.
  Definition AS (p : list E) (c : list A) : astate A :=
    if dead p c then ADead else ALive (map (hd p) c) (length c).
  Definition CS (fw : formula A -> option nat) (p : list E) (f : formula A) : cstate A :=
    mkCS (map (AS p) (nf f)) (fw f).

  (* the WaitForHeads number o stands for "all n" *)
  Definition fw_ok (o : option nat) (n : nat) : Prop := o = Some n \/ (o = None /\ n = 1).

  Lemma wait_ok_all {X} (o : option nat) (g : X -> bool) (l : list X) :
    fw_ok o (length l) -> wait_ok o (length (filter g l)) = forallb g l.
  Proof.
    intros [->|[-> H1]]; unfold wait_ok.
    - apply need_met.
    - rewrite <- H1. apply need_met.
  Qed.

  Lemma dead_mono (p : list E) (e : E) (c : list A) : dead p c = true -> dead (p ++ [e]) c = true.
  Proof.
    unfold dead. intros H. apply existsb_exists in H. destruct H as [a [Ha Hf]].
    apply existsb_exists. exists a. split; [exact Ha|].
    unfold is_failed, GroupsFail.not_failed in *. rewrite status_app.
    destruct (status p a) as [[|]|]; simpl in *; congruence.
  Qed.

  (* for a live alternative: which heads fail / move in step e *)
  Lemma live_not_failed (p : list E) (c : list A) :
    dead p c = false -> forall a, In a c -> status p a <> Some false.
  Proof.
    unfold dead. intros H a Ha Hs. pose proof (existsb_false_in _ _ H a Ha) as Hf.
    unfold is_failed, GroupsFail.not_failed in Hf. rewrite Hs in Hf. discriminate.
  Qed.

  Lemma fails_live (p : list E) (e : E) (c : list A) :
    dead p c = false ->
    existsb (head_fails fl e) (map (hd p) c) = dead (p ++ [e]) c.
  Proof.
    intros Hl. unfold dead. rewrite existsb_map. apply existsb_ext_in. intros a Ha.
    pose proof (live_not_failed p c Hl a Ha) as Hnf.
    unfold hd, is_failed, GroupsFail.is_fin, GroupsFail.not_failed. rewrite status_app.
    destruct (status p a) as [[|]|]; simpl; try congruence.
    destruct (fl a e); [reflexivity|]. destruct (mt a e); reflexivity.
  Qed.

  Lemma adv_live (p : list E) (e : E) (c : list A) :
    dead (p ++ [e]) c = false ->
    map (adv_head mt e) (map (hd p) c) = map (hd (p ++ [e])) c.
  Proof.
    intros Hl. rewrite map_map. apply map_ext_in. intros a Ha.
    pose proof (live_not_failed _ c Hl a Ha) as Hnf. rewrite status_app in Hnf.
    unfold hd, GroupsFail.is_fin. rewrite status_app.
    destruct (status p a) as [[|]|]; simpl; try congruence; try reflexivity.
    destruct (fl a e); [congruence|]. destruct (mt a e); reflexivity.
  Qed.

  Lemma alt_next_AS (p : list E) (e : E) (c : list A) :
    alt_next mt fl e (AS p c) = AS (p ++ [e]) c.
  Proof.
    unfold AS. destruct (dead p c) eqn:Hd.
    - simpl. now rewrite (dead_mono p e c Hd).
    - cbn [alt_next]. rewrite (fails_live p e c Hd).
      destruct (dead (p ++ [e]) c) eqn:Hd'; [reflexivity|].
      now rewrite (adv_live p e c Hd').
  Qed.

  Lemma alt_fails_AS (p : list E) (e : E) (c : list A) :
    alt_fails fl e (AS p c) = negb (dead p c) && dead (p ++ [e]) c.
  Proof.
    unfold AS. destruct (dead p c) eqn:Hd; [reflexivity|].
    cbn [alt_fails]. now rewrite (fails_live p e c Hd).
  Qed.

  Lemma count_fin (q : list E) (c : list A) :
    length (filter is_wait (map (hd q) c)) = length (filter (is_fin q) c).
  Proof.
    induction c as [|a c IH]; simpl; [reflexivity|].
    unfold hd at 1. destruct (is_fin q a); simpl; now rewrite IH.
  Qed.

  Lemma fin_not_failed (q : list E) (c : list A) :
    forallb (is_fin q) c = true -> dead q c = false.
  Proof.
    intros H. unfold dead. destruct (existsb (is_failed q) c) eqn:Hx; [|reflexivity].
    apply existsb_exists in Hx. destruct Hx as [a [Ha Hf]].
    rewrite forallb_forall in H. specialize (H a Ha).
    unfold is_failed, GroupsFail.is_fin, GroupsFail.not_failed in *.
    destruct (status q a) as [[|]|]; simpl in *; congruence.
  Qed.

  Lemma alt_passes_AS (p : list E) (e : E) (c : list A) :
    forallb (is_fin p) c = false ->
    alt_passes mt fl e (AS p c) = forallb (is_fin (p ++ [e])) c.
  Proof.
    intros Hnot. unfold AS. destruct (dead p c) eqn:Hd.
    - simpl. symmetry. destruct (forallb (is_fin (p ++ [e])) c) eqn:Hall; [|reflexivity].
      apply fin_not_failed in Hall. rewrite (dead_mono p e c Hd) in Hall. discriminate.
    - cbn [alt_passes]. rewrite (fails_live p e c Hd).
      destruct (dead (p ++ [e]) c) eqn:Hd'.
      + simpl. symmetry. destruct (forallb (is_fin (p ++ [e])) c) eqn:Hall; [|reflexivity].
        apply fin_not_failed in Hall. congruence.
      + cbn [negb andb]. rewrite (adv_live p e c Hd'), count_fin, need_met.
        destruct (forallb (is_fin (p ++ [e])) c) eqn:Hall; [|now rewrite andb_false_r].
        rewrite andb_true_r. apply existsb_exists.
        assert (Hex : exists a, In a c /\ is_fin p a = false).
        { clear -Hnot. induction c as [|a c IH]; simpl in *; [discriminate|].
          destruct (is_fin p a) eqn:Ha.
          - destruct (IH Hnot) as [x [Hx1 Hx2]]. exists x. auto.
          - exists a. auto. }
        destruct Hex as [a [Hin Hna]].
        exists (hd p a). split; [apply in_map; exact Hin|].
        rewrite forallb_forall in Hall. specialize (Hall a Hin).
        pose proof (live_not_failed _ c Hd' a Hin) as Hnf. rewrite status_app in Hnf.
        unfold hd. rewrite Hna. simpl.
        unfold GroupsFail.is_fin in *. rewrite status_app in Hall.
        destruct (status p a) as [[|]|]; simpl in *; try congruence.
        destruct (fl a e); [congruence|]. destruct (mt a e); [reflexivity|discriminate].
  Qed.

  (* ---------- one case ---------- *)
  Lemma case_passes_CS fw (p : list E) (e : E) (f : formula A) :
    eval (is_fin p) f = false ->
    case_passes mt fl e (CS fw p f) = eval (is_fin (p ++ [e])) f.
  Proof.
    intros Hnot. rewrite <- nf_eval in Hnot. rewrite <- nf_eval.
    unfold case_passes, CS. cbn [cs_alts]. rewrite existsb_map. unfold eval_dnf.
    apply existsb_ext_in. intros c Hc. apply alt_passes_AS.
    exact (eval_dnf_false_all _ _ _ Hnot c Hc).
  Qed.

  Lemma all_dead_unsat (q : list E) (f : formula A) :
    forallb (dead q) (nf f) = negb (eval (not_failed q) f).
  Proof.
    rewrite <- nf_eval. unfold eval_dnf, dead.
    induction (nf f) as [|c cs IH]; simpl; [reflexivity|].
    rewrite IH, negb_orb. f_equal.
    clear. induction c as [|a c IH]; simpl; [reflexivity|].
    rewrite IH, negb_andb. reflexivity.
  Qed.

  Lemma filter_dead_AS (q : list E) (alts : list (list A)) :
    length (filter is_dead (map (AS q) alts)) = length (filter (dead q) alts).
  Proof.
    induction alts as [|c cs IH]; simpl; [reflexivity|].
    unfold AS at 1. destruct (dead q c); simpl; now rewrite IH.
  Qed.

  Lemma case_failed_CS fw (q : list E) (f : formula A) :
    fw_ok (fw f) (length (nf f)) ->
    case_failed (CS fw q f) = negb (eval (not_failed q) f).
  Proof.
    intros Hfw. unfold case_failed, CS. cbn [cs_alts cs_fail_wait].
    rewrite filter_dead_AS, (wait_ok_all _ _ _ Hfw). apply all_dead_unsat.
  Qed.

  Lemma case_next_CS fw (p : list E) (e : E) (f : formula A) :
    case_next mt fl e (CS fw p f) = CS fw (p ++ [e]) f.
  Proof.
    unfold case_next, CS. cbn [cs_alts cs_fail_wait]. f_equal.
    rewrite map_map. apply map_ext. intros c. apply alt_next_AS.
  Qed.

  (* some alternative of the case dies in step e  iff  it was satisfiable and is not any more ...
     we only need one direction *)
  Lemma arrival_CS fw (p : list E) (e : E) (f : formula A) :
    eval (not_failed p) f = true ->
    eval (not_failed (p ++ [e])) f = false ->
    existsb (alt_fails fl e) (cs_alts (CS fw p f)) = true.
  Proof.
    intros Hs Hu. unfold CS. cbn [cs_alts]. rewrite existsb_map.
    assert (H1 : forallb (dead p) (nf f) = false) by (rewrite all_dead_unsat, Hs; reflexivity).
    assert (H2 : forallb (dead (p ++ [e])) (nf f) = true) by (rewrite all_dead_unsat, Hu; reflexivity).
    clear Hs Hu. induction (nf f) as [|c cs IH]; simpl in *; [discriminate|].
    apply andb_true_iff in H2. destruct H2 as [Hc2 Hcs2].
    rewrite alt_fails_AS, Hc2. destruct (dead p c) eqn:Hc1; simpl in *; [|reflexivity].
    apply IH; assumption.
  Qed.

  (* ---------- the statement ---------- *)
  Definition FS fw (els : option nat) (p : list E) (fs : list (formula A)) : fstate A :=
    FActive (map (CS fw p) fs) els.

  Lemma fdeliver_FS fw els (p : list E) (e : E) (fs : list (formula A)) :
    (forall f, In f fs -> fw_ok (fw f) (length (nf f))) ->
    fw_ok els (length fs) ->
    fspec_at mt fl fs p = RNone ->
    fdeliver mt fl (FS fw els p fs) e
    = match fspec_at mt fl fs (p ++ [e]) with
      | RNone => (FS fw els (p ++ [e]) fs, RNone)
      | RDone w => (FDone, RDone w)
      | RFail => (FFailed, RFail)
      end.
  Proof.
    intros Hfw Hels Hinv. unfold fspec_at in Hinv.
    destruct (indices_where (eval (is_fin p)) fs) as [|i w] eqn:Hiw; [|discriminate].
    destruct (forallb (fun f => negb (eval (not_failed p) f)) fs) eqn:Hall; [discriminate|].
    clear Hinv.
    assert (Hnot : forall f, In f fs -> eval (is_fin p) f = false).
    { apply (iw_from_nil _ fs 0). exact Hiw. }
    unfold fdeliver, FS.
    assert (Hw : indices_where (case_passes mt fl e) (map (CS fw p) fs)
                 = indices_where (eval (is_fin (p ++ [e]))) fs).
    { unfold indices_where. rewrite iw_from_map. apply iw_from_ext_in.
      intros f Hf. apply case_passes_CS. apply Hnot. exact Hf. }
    rewrite Hw. unfold fspec_at.
    destruct (indices_where (eval (is_fin (p ++ [e]))) fs) as [|i w]; [|reflexivity].
    assert (Hnext : map (case_next mt fl e) (map (CS fw p) fs) = map (CS fw (p ++ [e])) fs).
    { rewrite map_map. apply map_ext. intros f. apply case_next_CS. }
    rewrite Hnext.
    assert (Hcnt : wait_ok els (length (filter case_failed (map (CS fw (p ++ [e])) fs)))
                   = forallb (fun f => negb (eval (not_failed (p ++ [e])) f)) fs).
    { assert (Hlen : length (filter case_failed (map (CS fw (p ++ [e])) fs))
                     = length (filter (fun f => negb (eval (not_failed (p ++ [e])) f)) fs)).
      { clear -Hfw. induction fs as [|f fs IH]; simpl; [reflexivity|].
        rewrite case_failed_CS by (apply Hfw; now left).
        destruct (negb (eval (not_failed (p ++ [e])) f)); simpl; rewrite IH; auto;
          intros g Hg; apply Hfw; now right. }
      rewrite Hlen. apply wait_ok_all. exact Hels. }
    rewrite Hcnt.
    destruct (forallb (fun f => negb (eval (not_failed (p ++ [e])) f)) fs) eqn:Hall'.
    - (* all cases unsatisfiable now, not before: some alternative died in this step *)
      assert (Harr : existsb (fun c => existsb (alt_fails fl e) (cs_alts c)) (map (CS fw p) fs) = true).
      { rewrite existsb_map.
        assert (Hex : exists f, In f fs /\ eval (not_failed p) f = true).
        { clear -Hall. induction fs as [|f fs IH]; simpl in *; [discriminate|].
          destruct (eval (not_failed p) f) eqn:Hf; simpl in *.
          - exists f. auto.
          - destruct (IH Hall) as [g [Hg1 Hg2]]. exists g. auto. }
        destruct Hex as [f [Hf Hs]]. apply existsb_exists. exists f. split; [exact Hf|].
        apply arrival_CS; [exact Hs|].
        rewrite forallb_forall in Hall'. specialize (Hall' f Hf).
        now apply negb_true_iff in Hall'. }
      rewrite Harr. reflexivity.
    - rewrite andb_false_r. reflexivity.
  Qed.

  Lemma frun_from_FS fw els (fs : list (formula A)) (r : list E) : forall (p : list E) (k : nat),
    (forall f, In f fs -> fw_ok (fw f) (length (nf f))) ->
    fw_ok els (length fs) ->
    fspec_at mt fl fs p = RNone ->
    frun_from mt fl (FS fw els p fs) r k = fspec_from mt fl fs p r k.
  Proof.
    induction r as [|e r IH]; intros p k Hfw Hels Hinv; [reflexivity|].
    cbn [frun_from fspec_from]. rewrite (fdeliver_FS fw els p e fs Hfw Hels Hinv).
    destruct (fspec_at mt fl fs (p ++ [e])) eqn:Hat; try reflexivity.
    apply IH; assumption.
  Qed.

  (* ---------- compile ---------- *)
  Lemma existsb_const_false {X} (l : list X) : existsb (fun _ => false) l = false.
  Proof. induction l; simpl; auto. Qed.

  Lemma AS_nil (c : list A) : AS [] c = init_alt (branch_of c).
  Proof.
    unfold AS, dead, init_alt.
    assert (H : existsb (is_failed []) c = false).
    { unfold is_failed, GroupsFail.not_failed. simpl. apply existsb_const_false. }
    rewrite H. destruct c as [|a [|b c']]; reflexivity.
  Qed.

  Definition fw_of (st : stmt) (f : formula A) : option nat := cp_fail_wait (cprog_of (prog_of st (nf f))).

  Lemma cprog_of_prog_of (st : stmt) (alts : list (list A)) :
    cp_branches (cprog_of (prog_of st alts)) = map branch_of alts
    /\ fw_ok (cp_fail_wait (cprog_of (prog_of st alts))) (length alts).
  Proof.
    destruct st; simpl.
    - destruct alts as [|c [|c' cs]]; simpl; split; try reflexivity.
      + left. reflexivity.
      + right. auto.
      + left. now rewrite map_length.
    - destruct alts as [|c [|c' cs]]; simpl; split; try reflexivity.
      + left. reflexivity.
      + right. auto.
      + left. now rewrite map_length.
    - split; [reflexivity|]. left. now rewrite map_length.
  Qed.

  Lemma init_case_CS (st : stmt) (f : formula A) :
    init_case (cprog_of (prog_of st (nf f))) = CS (fw_of st) [] f.
  Proof.
    unfold init_case, CS, fw_of. destruct (cprog_of_prog_of st (nf f)) as [Hb _].
    rewrite Hb. f_equal. rewrite map_map. apply map_ext. intros c. symmetry. apply AS_nil.
  Qed.

  (* well-formed statements: `when` with any cases, match/await with one group *)
  Definition stmt_ok (st : stmt) (fs : list (formula A)) : Prop :=
    st = SWhen \/ exists f, fs = [f].

  Theorem fcompile_spec (st : stmt) (fs : list (formula A)) :
    stmt_ok st fs ->
    exists els,
      fcompile st fs = Some (mkF (map (fun f => cprog_of (prog_of st (nf f))) fs) els)
      /\ fw_ok els (length fs).
  Proof.
    intros [->|[f ->]].
    - exists (Some (length fs)). split; [|now left].
      unfold fcompile.
      rewrite (mapM_some _ (fun f => cprog_of (prog_of SWhen (nf f)))).
      + cbn [bind]. now rewrite map_length.
      + apply Forall_forall. intros f _. now rewrite compile_spec.
    - destruct st.
      + exists None. split; [|right; auto]. simpl. rewrite compile_spec. reflexivity.
      + exists None. split; [|right; auto]. simpl. rewrite compile_spec. reflexivity.
      + exists (Some 1). split; [|left; reflexivity]. simpl. rewrite compile_spec. reflexivity.
  Qed.

  (* THE theorem *)
  Theorem frun_fspec (st : stmt) (fs : list (formula A)) (evs : list E) :
    stmt_ok st fs ->
    fs <> [] ->
    (forall f, In f fs -> eval (fun _ => false) f = false) ->
    (forall f, In f fs -> eval (fun _ => true) f = true) ->
    frun mt fl st fs evs = fspec mt fl fs evs.
  Proof.
    intros Hok Hne H0 H1. unfold frun, fspec.
    destruct (fcompile_spec st fs Hok) as [els [Hc Hels]]. rewrite Hc.
    assert (Hinit : finit (mkF (map (fun f => cprog_of (prog_of st (nf f))) fs) els)
                    = FS (fw_of st) els [] fs).
    { unfold finit, FS. cbn [fp_cases fp_else_wait]. f_equal. rewrite map_map.
      apply map_ext. intros f. apply init_case_CS. }
    rewrite Hinit. apply frun_from_FS.
    - intros f _. unfold fw_of. apply cprog_of_prog_of.
    - exact Hels.
    - unfold fspec_at.
      assert (Hnil : indices_where (eval (is_fin [])) fs = []).
      { apply iw_from_nil. intros f Hf.
        rewrite (eval_ext _ (is_fin []) (fun _ => false)) by reflexivity. now apply H0. }
      rewrite Hnil.
      assert (Hsat : forallb (fun f => negb (eval (not_failed []) f)) fs = false).
      { destruct fs as [|f fs']; [congruence|]. simpl.
        rewrite (eval_ext _ (not_failed []) (fun _ => true)) by reflexivity.
        rewrite (H1 f) by now left. reflexivity. }
      now rewrite Hsat.
  Qed.

  Theorem frun_no_error (st : stmt) (fs : list (formula A)) (evs : list E) :
    stmt_ok st fs -> frun mt fl st fs evs <> FoErr.
  Proof.
    intros Hok. unfold frun. destruct (fcompile_spec st fs Hok) as [els [Hc _]]. rewrite Hc.
    generalize 0. generalize (finit (mkF (map (fun f => cprog_of (prog_of st (nf f))) fs) els)).
    induction evs as [|e r IH]; intros s k; simpl; [discriminate|].
    destruct (fdeliver mt fl s e) as [s' [|w|]]; try discriminate. apply IH.
  Qed.

  (* ---------- what fspec means ---------- *)
  Lemma fspec_from_done (fs : list (formula A)) (r : list E) : forall p k n w,
    fspec_from mt fl fs p r k = FoDone n w <->
    (k < n <= k + length r
     /\ fspec_at mt fl fs (p ++ firstn (n - k) r) = RDone w
     /\ forall m, k < m < n -> fspec_at mt fl fs (p ++ firstn (m - k) r) = RNone).
  Proof.
    induction r as [|e r IH]; intros p k n w; cbn [fspec_from length].
    - split; [discriminate|]. intros [H _]. lia.
    - destruct (fspec_at mt fl fs (p ++ [e])) as [|w'|] eqn:Hat.
      + rewrite IH. split.
        * intros [Hr [Hd Hlt]]. split; [lia|]. split.
          -- replace (n - k) with (S (n - S k)) by lia. cbn [firstn].
             rewrite <- app_assoc in Hd. exact Hd.
          -- intros m Hm. destruct (Nat.eq_dec m (S k)) as [->|Hne].
             ++ replace (S k - k) with 1 by lia. simpl. exact Hat.
             ++ replace (m - k) with (S (m - S k)) by lia. cbn [firstn].
                specialize (Hlt m). rewrite <- app_assoc in Hlt. apply Hlt. lia.
        * intros [Hr [Hd Hlt]].
          assert (Hn : n <> S k).
          { intros ->. replace (S k - k) with 1 in Hd by lia. simpl in Hd. congruence. }
          split; [lia|]. split.
          -- replace (n - k) with (S (n - S k)) in Hd by lia. cbn [firstn] in Hd.
             rewrite <- app_assoc. exact Hd.
          -- intros m Hm. specialize (Hlt m).
             replace (m - k) with (S (m - S k)) in Hlt by lia. cbn [firstn] in Hlt.
             rewrite <- app_assoc. apply Hlt. lia.
      + split.
        * intros H. inversion H; subst. split; [lia|]. split.
          -- replace (S k - k) with 1 by lia. simpl. exact Hat.
          -- intros m Hm. lia.
        * intros [Hr [Hd Hlt]]. destruct (Nat.eq_dec n (S k)) as [->|Hne].
          -- replace (S k - k) with 1 in Hd by lia. simpl in Hd. congruence.
          -- specialize (Hlt (S k)). replace (S k - k) with 1 in Hlt by lia. simpl in Hlt.
             rewrite Hlt in Hat by lia. discriminate.
      + split; [discriminate|]. intros [Hr [Hd Hlt]].
        destruct (Nat.eq_dec n (S k)) as [->|Hne].
        * replace (S k - k) with 1 in Hd by lia. simpl in Hd. congruence.
        * specialize (Hlt (S k)). replace (S k - k) with 1 in Hlt by lia. simpl in Hlt.
          rewrite Hlt in Hat by lia. discriminate.
  Qed.

  (* completion, spelled out: in step n the finished members satisfy some case (and `w` are exactly
     those cases); in no earlier step was a case satisfied or the statement failed *)
  Theorem fspec_done_iff (fs : list (formula A)) (evs : list E) (n : nat) (w : list nat) :
    fspec mt fl fs evs = FoDone n w <->
    (1 <= n <= length evs
     /\ fspec_at mt fl fs (firstn n evs) = RDone w
     /\ forall m, 1 <= m < n -> fspec_at mt fl fs (firstn m evs) = RNone).
  Proof.
    unfold fspec. rewrite fspec_from_done. simpl. rewrite Nat.sub_0_r. split.
    - intros [Hr [Hd Hlt]]. repeat split; try lia; auto.
      intros m Hm. specialize (Hlt m). rewrite Nat.sub_0_r in Hlt. apply Hlt. lia.
    - intros [Hr [Hd Hlt]]. repeat split; try lia; auto.
      intros m Hm. rewrite Nat.sub_0_r. apply Hlt. lia.
  Qed.

  (* the winners are exactly the cases whose formula holds *)
  Theorem fspec_at_done (fs : list (formula A)) (p : list E) (w : list nat) (d : formula A) :
    fspec_at mt fl fs p = RDone w ->
    w <> [] /\ forall i, In i w <-> (i < length fs /\ eval (is_fin p) (nth i fs d) = true).
  Proof.
    unfold fspec_at. destruct (indices_where (eval (is_fin p)) fs) as [|i0 w0] eqn:Hiw.
    - destruct (forallb _ fs); discriminate.
    - intros H. inversion H; subst. split; [discriminate|]. intros i.
      rewrite <- Hiw. unfold indices_where. rewrite (iw_from_sound _ fs d 0 i).
      rewrite Nat.sub_0_r. simpl. split; intros [H1 H2]; split; auto; lia.
  Qed.

  Theorem fspec_at_fail (fs : list (formula A)) (p : list E) :
    fspec_at mt fl fs p = RFail <->
    ((forall f, In f fs -> eval (is_fin p) f = false)
     /\ forall f, In f fs -> eval (not_failed p) f = false).
  Proof.
    unfold fspec_at. destruct (indices_where (eval (is_fin p)) fs) as [|i0 w0] eqn:Hiw.
    - unfold indices_where in Hiw. rewrite iw_from_nil in Hiw.
      destruct (forallb (fun f => negb (eval (not_failed p) f)) fs) eqn:Hall.
      + split; [|reflexivity]. intros _. split; [exact Hiw|].
        intros f Hf. rewrite forallb_forall in Hall. specialize (Hall f Hf).
        now apply negb_true_iff in Hall.
      + split; [discriminate|]. intros [_ H].
        assert (Ht : forallb (fun f => negb (eval (not_failed p) f)) fs = true).
        { apply forallb_forall. intros f Hf. now rewrite (H f Hf). }
        congruence.
    - split; [discriminate|]. intros [H _].
      assert (Hn : indices_where (eval (is_fin p)) fs = []) by (apply iw_from_nil; exact H).
      congruence.
  Qed.

End Proofs.
