(* C09 - proofs about V2/Refs.v: "every listening instance only references existing actions"
   holds initially and is preserved by every operation, hence by every finite sequence. *)
From Coq Require Import NArith List Bool.
From NG Require Import V2.Index V2.Index_proofs V2.Refs.
Import ListNotations.
Open Scope N_scope.

Definition ARefsOK (s : astate) : Prop :=
  forall f refs, aget N.eqb (a_insts s) f = Some (true, refs) ->
                 forall a, In a refs -> In a (a_actions s).

Lemma memN_In x l : memN x l = true <-> In x l.
Proof.
  unfold memN. rewrite existsb_exists. split.
  - intros [y [Hin He]]. apply N.eqb_eq in He. subst. exact Hin.
  - intro H. exists x. split; [exact H | apply N.eqb_refl].
Qed.

Lemma subsetb_spec l m : subsetb l m = true <-> (forall a, In a l -> In a m).
Proof.
  unfold subsetb. rewrite forallb_forall. split; intros H a Ha.
  - apply memN_In. exact (H a Ha).
  - apply memN_In. exact (H a Ha).
Qed.

Lemma refs_okb_sound acts insts :
  refs_okb acts insts = true ->
  forall f refs, aget N.eqb insts f = Some (true, refs) -> forall a, In a refs -> In a acts.
Proof.
  intros H f refs Hg a Ha. unfold refs_okb in H. rewrite forallb_forall in H.
  apply Ng_Some_in in Hg. specialize (H _ Hg). simpl in H.
  exact (proj1 (subsetb_spec _ _) H a Ha).
Qed.

Lemma refs_okb_mono a b insts :
  (forall x, In x a -> In x b) -> refs_okb a insts = true -> refs_okb b insts = true.
Proof.
  intros Hab H. unfold refs_okb in *. rewrite forallb_forall in *. intros p Hp.
  specialize (H p Hp). destruct (fst (snd p)); [|reflexivity].
  apply subsetb_spec. intros x Hx. apply Hab. exact (proj1 (subsetb_spec _ _) H x Hx).
Qed.

Lemma forallb_aset {V} (P : N * V -> bool) (l : list (N * V)) (k : N) v :
  forallb P l = true -> P (k, v) = true -> forallb P (aset N.eqb l k v) = true.
Proof.
  intros Hl Hp. unfold aset. destruct (amem N.eqb l k).
  - rewrite forallb_forall in *. intros x Hx. apply in_map_iff in Hx. destruct Hx as [y [Hy Hin]].
    destruct (N.eqb (fst y) k); subst; [exact Hp | exact (Hl _ Hin)].
  - rewrite forallb_app. apply andb_true_intro. split; [exact Hl | simpl; rewrite Hp; reflexivity].
Qed.

Lemma forallb_adel {V} (P : N * V -> bool) (l : list (N * V)) (k : N) :
  forallb P l = true -> forallb P (adel N.eqb l k) = true.
Proof.
  intro Hl. unfold adel. rewrite forallb_forall in *. intros x Hx.
  apply filter_In in Hx. exact (Hl _ (proj1 Hx)).
Qed.

Definition AOk (s : astate) : Prop := refs_okb (a_actions s) (a_insts s) = true.

Theorem astep_ok s o s' : AOk s -> astep s o = Some s' -> AOk s'.
Proof.
  unfold AOk. intros H Hs. destruct o; simpl in Hs.
  - inversion Hs; subst; clear Hs. simpl. eapply refs_okb_mono; [|exact H].
    intros x Hx. destruct (memN a (a_actions s)); [exact Hx | apply in_or_app; left; exact Hx].
  - destruct (memN a (a_actions s)); [|discriminate].
    destruct (refs_okb (filter (fun x : N => negb (N.eqb x a)) (a_actions s)) (a_insts s)) eqn:E; inversion Hs; subst. exact E.
  - destruct (refs_okb keep (a_insts s)) eqn:E; inversion Hs; subst. exact E.
  - destruct (lis && negb (subsetb refs (a_actions s))) eqn:E; inversion Hs; subst; clear Hs. simpl.
    unfold refs_okb. apply forallb_aset; [exact H|]. simpl.
    destruct lis; [|reflexivity]. simpl in E. destruct (subsetb refs (a_actions s)); [reflexivity | discriminate].
  - inversion Hs; subst. simpl. unfold refs_okb. apply forallb_adel. exact H.
Qed.

Theorem arun_ok ops : forall s s', AOk s -> arun s ops = Some s' -> AOk s'.
Proof.
  induction ops as [|o t IH]; simpl; intros s s' H Hr.
  - inversion Hr; subst. exact H.
  - destruct (astep s o) as [s1|] eqn:E; [|discriminate]. exact (IH _ _ (astep_ok _ _ _ H E) Hr).
Qed.

Theorem reachable_refs_exist ops s :
  arun empty_astate ops = Some s -> ARefsOK s.
Proof.
  intro H. unfold ARefsOK. apply refs_okb_sound. exact (arun_ok ops empty_astate s (eq_refl : AOk empty_astate) H).
Qed.

(* from a snapshot of the real State that passed the check *)
Theorem continued_refs_exist s0 ops s :
  refs_okb (a_actions s0) (a_insts s0) = true -> arun s0 ops = Some s -> ARefsOK s.
Proof.
  intros H0 H. unfold ARefsOK. apply refs_okb_sound. exact (arun_ok ops s0 s H0 H).
Qed.
