(* C12 (Colang 2.x) - soundness of the typing discipline of Typed.v w.r.t. the head-token
   semantics of ClosedAst.v, and its structural lemmas. *)
From Coq Require Import List String Bool Arith Lia.
From NG Require Import V2.ClosedAst V2.Closed V2.Closed_proofs V2.Typed.
Import ListNotations.
Open Scope string_scope.
Open Scope list_scope.

Section Struct.
  Variable G : string -> state -> Prop.

  Lemma typed_app c a c1 b c2 : typed G c a c1 -> typed G c1 b c2 -> typed G c (a ++ b) c2.
  Proof.
    induction 1 as [c|c e c' es c'' Ht Hr IH]; intros Hb; [exact Hb|].
    cbn [app]. econstructor; [exact Ht|]. now apply IH.
  Qed.

  Lemma typed_app_inv a : forall c b c2,
    typed G c (a ++ b) c2 -> exists c1, typed G c a c1 /\ typed G c1 b c2.
  Proof.
    induction a as [|e r IH]; intros c b c2 H.
    - exists c. split; [constructor|exact H].
    - cbn [app] in H. inversion H as [|? ? c' ? ? Ht Hr]; subst.
      destruct (IH _ _ _ Hr) as [c1 [H1 H2]]. exists c1. split; [econstructor; eauto|exact H2].
  Qed.

  Lemma typed_one c e c' : tr G c e c' -> typed G c [e] c'.
  Proof. intros H. econstructor; [exact H|constructor]. Qed.

  (* entering a block dead instead of live can only lose the exit state *)
  Lemma typed_dead st es c :
    typed G (Some st) es c -> exists c', typed G None es c' /\ (c' = None \/ c' = c).
  Proof.
    remember (Some st) as c0 eqn:Hc0. intros H. revert st Hc0.
    induction H as [c|c e c1 es c2 Ht Hr IH]; intros st ->.
    - exists None. split; [constructor|now left].
    - destruct (is_label e) eqn:Hl.
      + destruct e; try discriminate Hl. inversion Ht; subst; try discriminate.
        exists c2. split; [|now right]. econstructor; [apply T_label_dead; eassumption|exact Hr].
      + destruct c1 as [st1|].
        * destruct (IH st1 eq_refl) as [c' [H1 H2]]. exists c'. split; [|exact H2].
          econstructor; [apply T_dead; exact Hl|exact H1].
        * exists c2. split; [|now right]. econstructor; [apply T_dead; exact Hl|exact Hr].
  Qed.

  Hypothesis Gfun : forall l s1 s2, G l s1 -> G l s2 -> s1 = s2.

  Lemma tr_det c e a b : tr G c e a -> tr G c e b -> a = b.
  Proof.
    intros Ha Hb. inversion Ha; subst; inversion Hb; subst;
      try reflexivity; try discriminate;
      try match goal with H : steps_over _ = true |- _ => discriminate H end;
      try match goal with H : is_label _ = false |- _ => discriminate H end.
    - f_equal. eapply Gfun; eauto.
  Qed.

  Lemma typed_det es : forall c a b, typed G c es a -> typed G c es b -> a = b.
  Proof.
    induction es as [|e r IH]; intros c a b Ha Hb.
    - inversion Ha; inversion Hb; subst. reflexivity.
    - inversion Ha as [|? ? c1 ? ? Ht1 Hr1]; inversion Hb as [|? ? c1' ? ? Ht2 Hr2]; subst.
      rewrite (tr_det _ _ _ _ Ht1 Ht2) in Hr1. eapply IH; eauto.
  Qed.
End Struct.

(* the failure handlers on a reachable head's stack were pushed by an element of the flow *)
Lemma stack_origin es c :
  reach es c -> forall l, In l (snd c) -> exists p, nth_error es p = Some (ECatch (Some l)).
Proof.
  induction 1 as [|c c' Hr IH Hs]; [intros l []|].
  inversion Hs; subst; cbn [snd] in *; intros l0 Hin; try (apply IH; exact Hin).
  - destruct Hin as [<-|Hin]; [eauto|apply IH; exact Hin].
  - apply IH. now right.
Qed.

Section Sound.
  Variable G : string -> state -> Prop.
  Hypothesis Gfun : forall l s1 s2, G l s1 -> G l s2 -> s1 = s2.
  Variable es : list elem.
  Variable fin : option state.
  Hypothesis Htyped : typed G (Some ([], [])) es fin.
  Hypothesis Hfin : end_ok fin.
  Hypothesis Hlab : labels_okb es = true.

  Let init_st : option state := Some ([], []).

  Definition Inv (c : config) : Prop :=
    let '(q, sc, ct) := c in
    q <= List.length es /\
    ((q = List.length es /\ sc = []) \/ typed G init_st (firstn q es) (Some (sc, ct))).

  Lemma split_nth q e : nth_error es q = Some e -> es = firstn q es ++ e :: skipn (S q) es.
  Proof.
    intros H. rewrite <- (firstn_skipn q es) at 1. f_equal.
    clear Htyped Hlab. revert q H. induction es as [|x r IH]; intros [|q] H; try discriminate.
    - cbn in *. now injection H as ->.
    - cbn in *. now apply IH.
  Qed.

  Lemma firstn_S_nth q e : nth_error es q = Some e -> firstn (S q) es = firstn q es ++ [e].
  Proof.
    clear Htyped Hlab. revert q. induction es as [|x r IH]; intros [|q] H; try discriminate.
    - cbn in *. now injection H as ->.
    - cbn [firstn app]. f_equal. now apply IH.
  Qed.

  (* the pass through position q *)
  Lemma pass_at q e :
    nth_error es q = Some e ->
    exists c1 c2, typed G init_st (firstn q es) c1 /\ tr G c1 e c2 /\
                  typed G init_st (firstn (S q) es) c2.
  Proof.
    intros Hn. pose proof Htyped as Ht. rewrite (split_nth q e Hn) in Ht.
    destruct (typed_app_inv G _ _ _ _ Ht) as [c1 [H1 H2]].
    inversion H2 as [|? ? c2 ? ? Htr Hrest]; subst.
    exists c1, c2. split; [exact H1|]. split; [exact Htr|].
    rewrite (firstn_S_nth q e Hn). eapply typed_app; [exact H1|now apply typed_one].
  Qed.

  Lemma live_at q e sc ct :
    nth_error es q = Some e -> Inv (q, sc, ct) ->
    exists c2, tr G (Some (sc, ct)) e c2 /\ typed G init_st (firstn (S q) es) c2.
  Proof.
    intros Hn [Hle [[Hq _]|Hty]].
    - exfalso. assert (nth_error es q <> None) by congruence.
      apply nth_error_Some in H. lia.
    - destruct (pass_at q e Hn) as [c1 [c2 [H1 [Htr H2]]]].
      rewrite (typed_det G Gfun _ _ _ _ H1 Hty) in Htr. eauto.
  Qed.

  (* arriving behind a label whose declared state is the arriving head's state *)
  Lemma land l k st :
    lbl es l = Some k -> G l st -> Inv (S k, fst st, snd st).
  Proof.
    intros Hl Hg. destruct (lbl_spec es l k Hl) as [Hk Hn].
    destruct (pass_at k _ Hn) as [c1 [c2 [H1 [Htr H2]]]].
    destruct st as [sc ct]. cbn [fst snd]. split; [lia|]. right.
    inversion Htr; subst; try discriminate;
      try match goal with H : G l ?s |- _ => rewrite (Gfun _ _ _ Hg H) end; exact H2.
  Qed.

  Lemma nth_lt q e : nth_error es q = Some e -> q < List.length es.
  Proof. intros H. apply nth_error_Some. congruence. Qed.

  Lemma fall q e st' :
    nth_error es q = Some e -> typed G init_st (firstn (S q) es) (Some st') ->
    Inv (S q, fst st', snd st').
  Proof.
    intros Hn H. destruct st' as [sc' ct']. split; [apply nth_lt in Hn; lia|]. right. exact H.
  Qed.

  Lemma Inv_step c c' : Inv c -> step es c c' -> Inv c'.
  Proof.
    intros Hi Hs. destruct Hs as
      [p sc ct e Hn Hseq | p sc ct l c k Hn Hl | p sc ct l Hn | p sc ct u ls l k Hn Hin Hl
      | p sc ct l Hn | p sc ct l Hn | p sc ct l k Hn Hl | p sc ct l k Hn Hl
      | p sc ct n Hn Hm | p sc ct n Hn Hm | p sc ct l k Hn Hl | p sc ct Hn | p sc ct l k Hn Hl];
      destruct (live_at _ _ _ _ Hn Hi) as [c2 [Htr H2]].
    - destruct e; try discriminate Hseq; inversion Htr; subst; try discriminate;
        apply (fall p _ _ Hn H2).
    - inversion Htr; subst; try discriminate. apply (land l k (sc, ct) Hl). assumption.
    - inversion Htr; subst; try discriminate. apply (fall p _ _ Hn H2).
    - inversion Htr; subst; try discriminate. apply (land l k (sc, ct) Hl). auto.
    - inversion Htr; subst; try discriminate. apply (fall p _ _ Hn H2).
    - inversion Htr; subst; try discriminate. apply (fall p _ _ Hn H2).
    - inversion Htr; subst; try discriminate. apply (land l k (sc, ct) Hl). assumption.
    - inversion Htr; subst; try discriminate. apply (land l k (sc, ct) Hl). assumption.
    - inversion Htr; subst; try discriminate. apply (fall p _ _ Hn H2).
    - inversion Htr; subst; try discriminate. apply (fall p _ _ Hn H2).
    - inversion Htr; subst; try discriminate. apply (land l k (sc, l :: ct) Hl). assumption.
    - inversion Htr; subst; try discriminate. split; [lia|]. left. split; reflexivity.
    - inversion Htr; subst; try discriminate. apply (land l k (sc, l :: ct) Hl). assumption.
  Qed.

  Lemma Inv_reach c : reach es c -> Inv c.
  Proof.
    induction 1 as [|c c' Hr IH Hs]; [|eapply Inv_step; eauto].
    split; [lia|]. right. constructor.
  Qed.

  Lemma defined_ref q e l : nth_error es q = Some e -> In l (elem_labels e) -> lbl es l <> None.
  Proof.
    intros Hn Hin. destruct (labels_okb_sound es Hlab q e l Hn Hin) as [k [Hk Hk']].
    unfold labels_okb in Hlab. rewrite forallb_forall in Hlab.
    pose proof (Hlab e (nth_error_In _ _ Hn)) as He. rewrite forallb_forall in He.
    specialize (He l Hin). unfold definedb in He. destruct (lbl es l); [discriminate|discriminate He].
  Qed.

  (* soundness: a typed flow never fails *)
  Theorem typed_sound c : reach es c -> forall x, ~ fails es c x.
  Proof.
    intros Hr x Hf. pose proof (Inv_reach c Hr) as Hi.
    destruct Hf as
      [p sc ct l c Hn Hl | p sc ct u ls l Hn Hin Hl | p sc ct l Hn Hl | p sc ct l Hn Hl
      | p sc ct l Hn Hl | p sc ct l Hn Hl | p sc ct Hn | p sc ct Hn | p sc Hn | p sc ct n Hn Hm
      | p sc ct n Hn Hm | p sc ct Hn Hsc | p sc ct w Hn].
    - apply (defined_ref p _ l Hn); [now left|exact Hl].
    - apply (defined_ref p _ l Hn); [exact Hin|exact Hl].
    - apply (defined_ref p _ l Hn); [now left|exact Hl].
    - apply (defined_ref p _ l Hn); [now left|exact Hl].
    - destruct (stack_origin es _ Hr l) as [q Hq]; [now left|].
      apply (defined_ref q _ l Hq); [now left|exact Hl].
    - destruct (stack_origin es _ Hr l) as [q Hq]; [now left|].
      apply (defined_ref q _ l Hq); [now left|exact Hl].
    - destruct (live_at _ _ _ _ Hn Hi) as [c2 [Htr _]]. inversion Htr; subst; discriminate.
    - destruct (live_at _ _ _ _ Hn Hi) as [c2 [Htr _]]. inversion Htr; subst; discriminate.
    - destruct (live_at _ _ _ _ Hn Hi) as [c2 [Htr _]]. inversion Htr; subst; discriminate.
    - destruct (live_at _ _ _ _ Hn Hi) as [c2 [Htr _]]. inversion Htr; subst; try discriminate. congruence.
    - destruct (live_at _ _ _ _ Hn Hi) as [c2 [Htr _]]. inversion Htr; subst; try discriminate. congruence.
    - destruct Hi as [Hle [[_ Hs]|Hty]]; [contradiction|].
      apply nth_error_None in Hn. assert (p = List.length es) by lia. subst p.
      rewrite firstn_all in Hty.
      pose proof (typed_det G Gfun _ _ _ _ Htyped Hty) as Hf. rewrite Hf in Hfin. cbn in Hfin. contradiction.
    - destruct (live_at _ _ _ _ Hn Hi) as [c2 [Htr _]]. inversion Htr; subst; discriminate.
  Qed.
End Sound.
