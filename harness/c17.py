"""C17 - Arbitrary LLM output never breaks a turn and is treated as data.

Model: coq/theories/Svc/TextPost.v (text post-processing helpers, the multi-step shrink loop,
_process_start_flow, the AddFlowsAction fallback, literal_eval-only value generation);
Pipe/Taint.v (taint discipline of one turn); theorems: Props/C17.v.
Ties: (T) Gen/C17Consts.v - prefixes / quote characters / fallbacks read from the current source
with Python's ast; (X1) differential of every modelled helper against the real function on a
hostile corpus + mutations, model evaluated inside Coq; (X2) END-TO-END direct oracle (the
property text): hostile output at every LLM call position of <=3-turn conversations driving the
real LLMRails.generate in passthrough / general / three-step dialog / single-call / multi-step
(Colang 1.0) and the Colang 2 LLM flows (intent detection, flow continuation, value generation).
Every end-to-end batch runs in a child process under `timeout` (a hang is a violation).
"""
from __future__ import annotations

import json
import os
import random
import sys
import time

from harness import common as C

PID = "C17"
GEN = ["C17Consts"]
CFG_ROOT = os.path.join(C.BUILD, "c17", "cfg")
WORK = os.path.join(C.BUILD, "c17", "work")

# context variables set for every conversation; their VALUES must never show up in a reply
CTX = {"secret": "S3CR3TVAL", "x": "XVALUE77", "user_name": "UNAMEVAL",
       "profile": {"k": "PROFVAL9"}, "items": [3, 4], "count": 7}      # ... also truthy NON-string values
FORBIDDEN = ["S3CR3TVAL", "XVALUE77", "UNAMEVAL", "1337", "PROFVAL9"]          # 1337 = 7*191
MARKERS = ["{{ 7*191 }}", "$secret", "{$x}", "{{ secret }}", "{{user_name}}", "${secret}", "{% if 1 %}Y{% endif %}"]

# ---------------------------------------------------------------------------------------
# configurations (written to build/c17/cfg/<mode>/ on every run)

_CONFIG_PY = """import sys
sys.path.insert(0, %r)
from harness.c17 import register_provider


def init(app):
    register_provider(app)
""" % C.VERIF

_YML_HEAD = """models:
  - type: main
    engine: openai
    model: gpt-3.5-turbo-instruct
core:
  embedding_search_provider:
    name: verif
knowledge_base:
  embedding_search_provider:
    name: verif
"""

_V1_DIALOG_CO = """define user express greeting
  "hello"
  "hi"

define user ask capabilities
  "what can you do"

define user ask price
  "how much is it"

define bot express greeting
  "Hey there!"

define flow greeting
  user express greeting
  bot express greeting

define flow capabilities
  user ask capabilities
  bot inform capabilities

define flow price
  user ask price
  bot inform price
  bot ask anything else

define flow dummy input check
  $input_checked = True
"""

_INPUT_RAIL = "    flows:\n      - dummy input check\n"

_V2_HEAD = """colang_version: "2.x"
""" + _YML_HEAD

_V2_LLM_CO = '''import core
import llm

flow main
  activate llm continuation
  activate greeting
  activate other reactions

flow greeting
  user expressed greeting
  bot say "Hello world!"

flow other reactions
  user expressed to be bored
  bot say "No problem!"

flow user expressed greeting
  """User expressed greeting in any way or form."""
  user said "hi"

flow user expressed to be bored
  """User expressed to be bored."""
  user said "This is boring"

flow bot inform capabilities
  bot say "I can talk."
'''

_V2_VALUE_CO = '''import core
import llm

flow main
  global $secret
  global $x
  $secret = "S3CR3TVAL"
  $x = "XVALUE77"
  activate answering

flow answering
  user said something
  $v = ..."Return a single string that answers the user"
  bot say $v
'''

_V2_SAYLIKE_CO = '''import core
import llm

flow main
  global $secret
  global $x
  $secret = "S3CR3TVAL"
  $x = "XVALUE77"
  activate answering

flow answering
  user said something
  bot say something like "Hello there"
'''

_V2_PASS_CO = '''import core
import llm

flow main
  global $secret
  global $x
  $secret = "S3CR3TVAL"
  $x = "XVALUE77"
  activate answering

flow answering
  user said something as $u
  $t = await PassthroughLLMAction(user_message=$u.transcript)
  bot say $t
'''

MODES = {
    "v1_general": {"yml": _YML_HEAD, "co": None, "v": 1},
    "v1_passthrough": {"yml": _YML_HEAD + "passthrough: true\n", "co": None, "v": 1},
    "v1_dialog": {"yml": _YML_HEAD + "rails:\n  input:\n" + _INPUT_RAIL, "co": _V1_DIALOG_CO, "v": 1},
    "v1_single_call": {"yml": _YML_HEAD + "rails:\n  input:\n" + _INPUT_RAIL + "  dialog:\n    single_call:\n      enabled: true\n", "co": _V1_DIALOG_CO, "v": 1},
    "v1_multi_step": {"yml": _YML_HEAD + "rails:\n  input:\n" + _INPUT_RAIL + "enable_multi_step_generation: true\n", "co": _V1_DIALOG_CO, "v": 1},
    "v2_llm": {"yml": _V2_HEAD, "co": _V2_LLM_CO, "v": 2},
    "v2_value": {"yml": _V2_HEAD, "co": _V2_VALUE_CO, "v": 2},
    "v2_saylike": {"yml": _V2_HEAD, "co": _V2_SAYLIKE_CO, "v": 2},
    "v2_passthrough": {"yml": _V2_HEAD, "co": _V2_PASS_CO, "v": 2},
}
# user turns per mode (<= 3 turns): chosen so that every LLM call kind of the mode is reached
TURNS = {
    "v1_general": ["hi", "tell me more", "bye"],
    "v1_passthrough": ["hi", "tell me more", "bye"],
    "v1_dialog": ["hi", "what is the weather", "how much is it"],
    "v1_single_call": ["hi", "what is the weather", "how much is it"],
    "v1_multi_step": ["hi", "what is the weather", "how much is it"],
    "v2_llm": ["hello there", "tell me a joke", "hi"],
    "v2_value": ["hi", "and now", "more"],
    "v2_saylike": ["hi", "and now"],
    "v2_passthrough": ["hi", "and now"],
}


def write_cfgs():
    for name, m in MODES.items():
        d = os.path.join(CFG_ROOT, name)
        os.makedirs(d, exist_ok=True)
        files = {"config.yml": m["yml"], "config.py": _CONFIG_PY}
        if m["co"]:
            files["rails.co"] = m["co"]
        for fn, text in files.items():
            p = os.path.join(d, fn)
            if not os.path.exists(p) or open(p).read() != text:
                with open(p, "w") as f:
                    f.write(text)


# ---------------------------------------------------------------------------------------
# offline embedding-search provider (registered through the configuration's config.py)

_INDEX_CLS = None


def _index_cls():
    global _INDEX_CLS
    if _INDEX_CLS is not None:
        return _INDEX_CLS
    import re

    from nemoguardrails.embeddings.index import EmbeddingsIndex

    def tok(s):
        return set(re.findall(r"[a-z0-9]+", (s or "").lower()))

    class VerifIndex(EmbeddingsIndex):
        """Deterministic token-overlap ranking; no model, no network."""

        def __init__(self, **kwargs):
            self.items = []

        @property
        def embedding_size(self):
            return 0

        @property
        def cache_config(self):
            return None

        async def add_item(self, item):
            self.items.append(item)

        async def add_items(self, items):
            self.items.extend(items)

        async def build(self):
            pass

        async def search(self, text, max_results=20, threshold=None):
            q = tok(text if isinstance(text, str) else str(text))
            scored = []
            for i, it in enumerate(self.items):
                t = tok(it.text)
                s = (2 if it.text == text else 0) + (len(q & t) / (1 + len(q | t)))
                scored.append((-s, i, it))
            scored.sort(key=lambda x: (x[0], x[1]))
            return [it for _, _, it in scored[:max_results]]

    _INDEX_CLS = VerifIndex
    return VerifIndex


def register_provider(app):
    app.register_embedding_search_provider("verif", _index_cls())


# ---------------------------------------------------------------------------------------
# scripted LLM: well-formed answer for every call kind, hostile text substituted at chosen
# call indices (or at every call with the given texts)


def classify_prompt(prompt: str, mode: str) -> str:
    p = prompt if isinstance(prompt, str) else json.dumps(prompt)
    tail = p.rstrip()[-200:]
    if "generate the next steps and finish with the bot message" in p:
        return "single_call"
    if "# This is how the user talks:" in p:
        return "user_intent"
    if "# This is how the bot thinks:" in p and tail.endswith("="):
        return "value"
    if "# This is how the bot thinks:" in p:
        return "next_steps"
    if "# This is how the bot talks:" in p:
        return "bot_message"
    if tail.endswith("user intent:"):
        return "v2_user_intent"
    if tail.endswith("bot intent:"):
        return "v2_flow_continuation"
    if "# Complete the following flow based on its name:" in p:
        return "v2_flow_from_name"
    if "# Complete the following flow based on its instruction:" in p:
        return "v2_flow_from_instructions"
    if tail.endswith("="):
        return "v2_value"
    if tail.endswith("Assistant:"):
        return "general"
    return "passthrough" if "passthrough" in mode else "other"


GOOD = {
    "general": "Sure, happy to help.",
    "passthrough": "Sure, happy to help.",
    "other": "Sure, happy to help.",
    "user_intent": "  ask something else",
    "next_steps": "bot provide help",
    "bot_message": '  "Here is some help."',
    "single_call": '  ask something else\nbot provide help\n  "Here is some help."',
    "value": '"some value"',
    "v2_user_intent": "user asked something else",
    "v2_flow_continuation": 'bot provide help\nbot action: bot say "Here is some help."',
    "v2_flow_from_name": '  bot say "Here is some help."',
    "v2_flow_from_instructions": '  bot say "Here is some help."',
    "v2_value": '"Here is some help."',
}


_INTENT_OF = {"hi": "express greeting", "hello there": "express greeting", "how much is it": "ask price",
              "what can you do": "ask capabilities"}


def good_answer(kind, prompt):
    """A well-formed completion for the call kind (what a cooperative LLM would return)."""
    if kind in ("user_intent", "single_call", "v2_user_intent"):
        p = prompt if isinstance(prompt, str) else json.dumps(prompt)
        import re

        said = re.findall(r'user (?:said |action: user said )?"([^"\n]*)"', p)
        intent = _INTENT_OF.get(said[-1]) if said else None
        if intent:
            if kind == "user_intent":
                return "  " + intent
            if kind == "v2_user_intent":
                return "user " + intent.replace("express", "expressed").replace("ask", "asked about")
            flow = {"express greeting": 'bot express greeting\n  "Hey there!"',
                    "ask price": 'bot inform price\n  "It is free."',
                    "ask capabilities": 'bot inform capabilities\n  "I can talk."'}[intent]
            return "  " + intent + "\n" + flow
    if kind == "v2_flow_continuation":
        p = prompt if isinstance(prompt, str) else json.dumps(prompt)
        # one turn continues with a bot flow that is NOT defined: the library then asks the LLM for
        # the flow itself (GenerateFlowFromNameAction -> AddFlowsAction)
        if p.rstrip().endswith("bot intent:") and 'user said "tell me a joke"' in p.split("# This is the current conversation")[-1]:
            return "bot tell a joke\nbot action: bot tell a joke"
    return GOOD.get(kind, GOOD["other"])


def _mk_llm(mode, subst, every):
    from typing import Any, List, Mapping, Optional

    from langchain_core.language_models.llms import LLM

    class ScriptLLM(LLM):
        mode_name: str = ""
        subst: dict = {}
        every: list = []
        calls: list = []
        i: int = 0
        turn: int = 0
        markers: list = []        # texts that must stay literal in every prompt once they are in the history
        watch_from: float = -1     # index of the call after which they are in the history (-1: not yet)
        emitted: str = ""         # everything returned as a reply so far

        @property
        def _llm_type(self) -> str:
            return "verif-script"

        def _answer(self, prompt):
            kind = classify_prompt(prompt, self.mode_name)
            k = self.i
            self.i += 1
            if str(k) in self.subst:
                text = self.subst[str(k)]
                hostile = True
            elif self.every:
                text = self.every[k % len(self.every)]
                hostile = True
            else:
                text = good_answer(kind, prompt)
                hostile = False
            entry = {"i": k, "kind": kind, "hostile": hostile, "turn": self.turn}
            # the prompt itself is observed: evaluated residue of earlier LLM / user text, and
            # (for the history-marker cases) the literal presence of that text
            p = prompt if isinstance(prompt, str) else json.dumps(prompt, default=str)
            res = [bad for bad in FORBIDDEN if bad in p and bad not in self.emitted]
            if res:
                entry["residue"] = res
            if self.markers and self.watch_from >= 0 and k > self.watch_from:
                entry["missing"] = [m for m in self.markers if m not in p]
            self.calls.append(entry)
            return text

        def _call(self, prompt: str, stop: Optional[List[str]] = None, run_manager=None, **kwargs: Any) -> str:
            return self._answer(prompt)

        async def _acall(self, prompt: str, stop: Optional[List[str]] = None, run_manager=None, **kwargs: Any) -> str:
            return self._answer(prompt)

        @property
        def _identifying_params(self) -> Mapping[str, Any]:
            return {}

    return ScriptLLM(mode_name=mode, subst=dict(subst or {}), every=list(every or []), calls=[])


def _raiser(tb):
    """(exception type, innermost nemoguardrails function, file:line) of a traceback."""
    import traceback

    frames = traceback.extract_tb(tb)
    ours = [f for f in frames if "nemoguardrails" in f.filename]
    f = ours[-1] if ours else frames[-1]
    return f.name, os.path.basename(f.filename) + ":" + str(f.lineno)


def well_formed(mode, r):
    if not isinstance(r, dict):
        return "reply is not a dict: %r" % (type(r).__name__,)
    role = r.get("role")
    if role == "assistant":
        if not isinstance(r.get("content"), str):
            return "assistant content is not a str: %r" % (type(r.get("content")).__name__,)
        return None
    if role == "exception":
        c = r.get("content")
        if isinstance(c, dict) and isinstance(c.get("type"), str) and c["type"].endswith("Exception"):
            return None
        return "malformed exception message"
    return "role is %r" % (role,)


def run_conversation(case, cfg_cache):
    """Drive the real LLMRails.generate.  case = {mode, turns, subst:{idx:text}, every:[texts]}.
    Returns a JSON-able result with the replies, the LLM calls made and any oracle failure."""
    from nemoguardrails import LLMRails, RailsConfig

    mode = case["mode"]
    if mode not in cfg_cache:
        cfg_cache[mode] = RailsConfig.from_path(os.path.join(CFG_ROOT, mode))
    config = cfg_cache[mode]
    llm = _mk_llm(mode, case.get("subst"), case.get("every"))
    llm.markers = list(case.get("history_markers") or [])
    if case.get("markers_typed_by_user"):
        llm.watch_from = -0.5          # in the history from the first prompt on
    res = {"replies": [], "calls": llm.calls, "fail": None}
    try:
        app = LLMRails(config, llm=llm)
    except BaseException as e:  # construction is not part of the property, but must not fail
        res["fail"] = {"kind": "init-raised", "exc": type(e).__name__, "msg": str(e)[:300]}
        return res
    v2 = MODES[mode]["v"] == 2
    # (a context message in passthrough mode is forwarded to the LLM as a chat message of unknown type)
    history = [] if (v2 or mode == "v1_passthrough") else [{"role": "context", "content": dict(CTX)}]
    state = {} if v2 else None
    for t, msg in enumerate(case["turns"]):
        history.append({"role": "user", "content": msg})
        llm.turn = t
        try:
            if v2:
                out = app.generate(messages=[{"role": "user", "content": msg}], state=state)
                state = out.state
                r = out.response[0] if isinstance(out.response, list) and out.response else out.response
            else:
                r = app.generate(messages=history)
        except BaseException as e:
            fn, where = _raiser(e.__traceback__)
            res["fail"] = {"kind": "raised", "turn": t, "exc": type(e).__name__, "fn": fn, "where": where,
                           "msg": str(e)[:300]}
            return res
        wf = well_formed(mode, r)
        res["replies"].append(r if wf is None else repr(r)[:500])
        if wf is not None:
            res["fail"] = {"kind": "malformed", "turn": t, "why": wf}
            return res
        content = r.get("content")
        text = content if isinstance(content, str) else json.dumps(content, default=str)
        for bad in FORBIDDEN:
            if bad in text:
                res["fail"] = {"kind": "evaluated", "turn": t, "found": bad, "reply": text[:300]}
                return res
        llm.emitted += "\n" + text
        if llm.markers and llm.watch_from == -1 and all(m in text for m in llm.markers):
            llm.watch_from = llm.i - 1          # from now on the text is part of the history
            res["markers_in_history_after_turn"] = t
        history.append(r)
    return res


def e2e_worker(inp, outp):
    sys.path.insert(1, C.REPO)
    import logging

    logging.disable(logging.CRITICAL)
    cases = json.load(open(inp))
    cache = {}
    results = []
    cur = {"i": -1, "t": time.time()}

    def save_progress():
        tmp = outp + ".progress.tmp"
        with open(tmp, "w") as f:
            json.dump({"current": cur["i"], "done": results}, f)
        os.replace(tmp, outp + ".progress")

    for i, case in enumerate(cases):
        cur["i"], cur["t"] = i, time.time()
        save_progress()
        r = run_conversation(case, cache)
        r["s"] = round(time.time() - cur["t"], 3)
        results.append(r)
    cur["i"] = -1
    with open(outp, "w") as f:
        json.dump(results, f)


# ---------------------------------------------------------------------------------------
# hostile corpus

LONG = 30000


def hostile_corpus():
    """(tag, text) - the fixed hostile corpus of the property statement."""
    c = []

    def add(tag, *texts):
        for t in texts:
            c.append((tag, t))

    add("empty", "", " ", "\n", "\n\n\n", "   \n\t\n  ", "\t", "\r\n", "\r")
    add("quotes", '"', '""', '"""', "'", "''", '"\n', '\n"', '" "', '"a', 'a"', "`", "“x”", '"\n"', '  "', '""""')
    add("prefix", "user ", "user", "bot ", "bot", "bot\n", 'bot "', "bot ,", 'bot "hello"', "bot ,x", "  bot x", "User:", "User: hi",
        "Bot message: ", "Bot intent: ", "User intent: ", "user intent: ", "bot intent: ", "bot action: ", "user action: ",
        "User message: ", "bot:", "Bot: hi", "USER x", "BOT x", "user\tx", "bot\tx", "assistant: hi", "user intent:", "bot intent:",
        "user intent: user x\nbot intent: bot y", "bot intent: bot y\nbot action: ", "bot action:\n  and x", "bot action: x\n  or y",
        'user "hi"\n  express greeting\nbot express greeting\n  "Hey"')
    add("ctxvar", "bot $secret", "bot $event", "bot $x", "bot $generation_options", "bot $", "bot $$", "bot $last_user_message",
        "bot $relevant_chunks_sep", "  $secret", "user $secret")
    add("colang1", "define flow x\n  user a\n  bot b", 'define user x\n  "y"', 'define bot x\n  "{{ 7*191 }}"', "define flow", "define",
        "execute foo", "do foo", "bot a\nexecute foo\nbot b", "if $x\n  bot a", "if $x", "while True\n  bot a", "else", "when x", "stop", "abort",
        "...", "$x = 1", "$x = ...", "bot a\nbot b\n!!!", 'bot a\n  "unterminated', "bot a and b", "goto x", "label x", "meta", "bot a\n\n\nbot b",
        "bot a\n    bot b", "\tbot a", "bot a\n  bot b\n bot c", "bot a\nuser b\nbot c", "bot a\nuser ...\nbot c", "event Foo",
        "bot a\n$y = execute foo(x=$secret)", "bot a\nbot $secret", "set $x = 1", "break", "continue", "return", "pass", "any", "bot a\nelse\nbot b",
        "bot a\ndefine flow y\n  bot z", "bot a\n# comment", "#", "# only comment", "bot a:", 'bot a\n  "x"\n  "y"', "user a\nbot b",
        "define subflow x\n  bot a", "bot a\ndo x", "bot a\nstop", 'bot "quoted intent"', "bot a, b", 'bot a"b', "bot (a)", "bot a-b", "bot 1", "bot a\\nb")
    add("colang2", 'flow main\n  bot say "x"', "import core", "@active\nflow x\n  bot say 'x'", "await UtteranceBotAction(script=$secret)", "bot say $secret",
        'bot say "{$x}"', 'send FinishFlow(flow_id="main")', "user said something", "bot action: bot say $secret", 'bot action: bot say "{$x}"',
        "bot action: abort", 'bot action: send StopFlow(flow_id="main")', "bot action: while True\n  and x", "bot action: $y = 1/0", "bot action: (",
        "bot action: await nonexistent flow", "bot action: match Never()", "bot action: start main", 'bot intent: main\nbot action: bot say "x"',
        'bot intent: bot say\nbot action: bot say "x"', "user intent: main", "user intent: user said", "main", "user said", "bot say",
        "user intent: ", 'user x" and "y', "user a and b or c as d (e) - 12", "  flow x", "flow", "flow ", "flow x\nflow y", "  ...", "  await x\n  ...",
        '  user said "x"', 'bot action: bot say "a"\nbot action: bot say "b"', '```\nbot say "x"\n```', '  bot say "x"\nflow other\n  bot say "y"',
        '  $z = ..."nested"\n  bot say $z', "  activate main", '  send StartFlow(flow_id="main")', "  log 1\n" * 50, '  bot say "a"\n' * 30)
    add("template", "{{ 7*191 }}", "{{ secret }}", "{% for i in range(10) %}x{% endfor %}", "{{ ''.__class__.__mro__ }}", "{%", "{{", "}}", "{# #}", "$secret",
        "${secret}", "{$x}", "{$secret}", "$", "{", "}", "$ ", "{{ 7*191", "7*191 }}", "{{secret}}", "{{ x }}", "$x", "$x.y", "$x[0]", "{{ user_name }}",
        "{% raw %}", "{% include 'x' %}", "{{ 1/0 }}", "{{ undefined_thing.y }}", "<<STREAMING[x]>>", 'Bot message: "<<STREAMING[abc]>>"',
        '"Result {{ 7*191 }} and $secret and {$x} and {{ secret }}."', '  "Result {{ 7*191 }} and $secret and {$x} and {{ secret }}."',
        "Result {{ 7*191 }} and $secret and {$x} and {{ secret }}.", "'Result {{ 7*191 }} and $secret and {$x} and {{ secret }}.'",
        'bot inform\n  "Result {{ 7*191 }} and $secret and {$x}."', '  ask x\nbot inform y\n  "Result {{ 7*191 }} and $secret and {$x}."',
        'bot action: bot say "Result {{ 7*191 }} and $secret."', "\\n", "a\\nb", "\\", "\\\\n", "%s %d", "{0} {}", "%(secret)s")
    add("control", "\x00", "a\x00b", "\x01\x02\x1b[31m", "a\rb", "\x0b\x0c", " ", " ", "﻿", "\x7f", "\x85", "bot\x00 x", "bot \x00", "\x1f",
        "héllo wörld", "日本語", "\U0001F600", "‮abc", "á", "bot 日本", "user \U0001F600", "\ud800")
    add("long", "a" * LONG, "bot " + "a" * LONG, "bot a\n" * 3000, '"' * 10000, "{{ " * 5000, "(" * 5000, "[" * 20000, " " * LONG, "\n" * LONG,
        "bot a " * 2000, "a b " * 10000, "$a" * 10000, "user " * 2000, '"' + "a" * LONG, "x\n" * 20000, '  bot say "x"\n' * 2000, "-" * LONG)
    add("value", "1e999999", "9" * 10000, "__import__('os').system('x')", "open('/etc/passwd').read()", "lambda: 1", "None", "True", "[1,2", "{'a': 1}",
        "{1,2}", "b'x'", "1;", ";", "'a' 'b'", "f'{secret}'", "'" * 3 + "multi\nline" + "'" * 3, "'unterminated", "secret", "$secret;", "1 +", "-", "- 1",
        "1 + 2j", "(1,)", "()", "Ellipsis", "'{$x}'", "'$secret'", '"{{ 7*191 }}"', "'Result {{ 7*191 }} and $secret and {$x}.'", "[$secret]",
        "{'k': '{$x}'}", "1\n2", "'a'\n'b'", "  'a'  ", "'a' # c", "'\\x00'", "'\\ud800'", "0x10", "1_000", "float('nan')", "'a' * 3", "not True", "x = 1",
        "$v = 'a'", "= 'a'")
    return c


# context variables that exist (or not) when the bot intent is produced: the runtime's own, the rails'
# ($i, $input_flows ... need an input rail), the caller's (str and non-str), undefined ones
CTX_VAR_NAMES = ["event", "generation_options", "relevant_chunks", "relevant_chunks_sep", "retrieved_for", "i", "input_flows",
                 "triggered_input_rail", "input_checked", "user_message", "last_user_message", "last_bot_message", "bot_message",
                 "config", "skip_output_rails", "_last_bot_prompt", "allowed", "secret", "x", "user_name", "profile", "items",
                 "count", "undefined_name", ""]
INTENT_POS = {"v1_dialog": "2", "v1_multi_step": "2", "v1_single_call": "1"}    # the call that yields the BOT INTENT


def ctxvar_intent_texts(mode, name):
    """LLM outputs whose bot intent is `$name`, in the format of the mode's intent-yielding call."""
    if mode == "v1_single_call":
        return [f'  ask x\nbot ${name}\n  "m"', f"  ask x\nBot intent: ${name}"]
    return [f"bot ${name}", f"bot ${name}\nbot a" if mode == "v1_multi_step" else f"  bot ${name}  "]


UNSUPPORTED_ATOMS = ["...", "b'x'", "1j"]
SUPPORTED_ATOMS = ["'s'", "1", "1.5", "True", "None"]
LITERAL_SHAPES = ["{u}", "[1, {u}]", "(1, {u})", "{{1, {u}}}", "{{'k': {u}}}", "{{{u}: 1}}", "{{(1, {u}): 2}}", "{{'k': [1, ({u},)]}}",
                  "[{{{u}: 'v'}}]", "{{'a': {{{u}: 0}}}}", "({{(({u},),): 1}},)", "{{'k': {{1, {u}}}}}"]


def unsupported_literal_texts():
    """Every unstorable constant at every structural position of a literal (top level, list / tuple /
    set item, dict value, dict KEY, nested tuple key, nested containers)."""
    return [sh.format(u=u) for sh in LITERAL_SHAPES for u in UNSUPPORTED_ATOMS]


# texts that are valid Python str but awkward to encode / display: lone surrogates (a truncated emoji as a
# JSON-decoding client delivers it), a surrogate pair written as two code units, non-characters, NUL,
# C1 controls, a very long combining sequence, bidi overrides
UNICODE_EDGES = {
    "lone-high-surrogate": "\ud83d",
    "lone-low-surrogate": "\udc00",
    "pair-as-two-units": "\ud83d\ude00",
    "noncharacters": "\ufffe\uffff",
    "nul": "a\x00b",
    "c1-controls": "\x80\x85\x9f",
    "long-combining": "a" + "\u0301" * 3000,
    "bidi-override": "\u202eabc\u202d\u2066x\u2069",
    "astral+bom": "\ufeff\U0001F600\U000E0001",
}
# several of them in one text (quick tier)
UNICODE_COMBOS = ["\ud83d", "x\udc00 \ud83d\ude00 \ufffe\uffff a\x00b \x80\x9f \u202eabc\u202d \ufeff y" + "\u0301" * 300]


def unicode_edge_texts(mode, tier):
    """LLM outputs carrying the edge text, raw and inside a well-formed message of the mode's format
    (so that it reaches the bot message, the history and everything computed from them)."""
    us = list(UNICODE_EDGES.values()) + UNICODE_COMBOS if tier == "thorough" else UNICODE_COMBOS
    out = []
    for u in us:
        out.append(u)
        if mode == "v1_single_call":
            out.append(f'  ask x\nbot inform y\n  "Result {u}."')
        elif mode in ("v2_value", "v2_saylike"):
            out.append(f"'Result {u}.'")
        elif mode == "v2_llm":
            out.append(f'bot say result\nbot action: bot say "Result {u}."')
        elif mode in ("v1_dialog", "v1_multi_step"):
            out.append(f'  "Result {u}."')
        else:
            out.append(f"Result {u}.")
    return out


_MUT_FRAGS = ['"', "\n", "\nuser ", "\nbot ", "$secret", "{{ 7*191 }}", "{$x}", "\x00", "  ", "\t", "#", ":", "'", "\\n", "...", " and ", " or ", "(", ")",
              '\nuser "x"', "define flow y\n", "flow z\n", "User: ", ",", "é"]


def mutate_text(rng, s):
    k = rng.randrange(9)
    i = rng.randrange(len(s) + 1)
    if k == 0 and s:
        j = rng.randrange(len(s))
        return s[:j] + s[j + 1:]
    if k == 1 and s:
        j = rng.randrange(len(s))
        return s[:j] + s[j] * 2 + s[j:]
    if k == 2:
        return s[:i]
    if k == 3:
        return s[i:]
    if k == 4:
        return s.swapcase()
    if k == 5:
        return s.replace('"', "'") if '"' in s else s.replace(" ", "  ")
    if k == 6:
        return "\n".join("  " + ln for ln in s.split("\n"))
    if k == 7:
        return "\n".join(ln.lstrip() for ln in s.split("\n"))
    return s[:i] + rng.choice(_MUT_FRAGS) + s[i:]


MUT_BASES = [
    ("single_call", '  express greeting\nbot express greeting\n  "Hey there!"'),
    ("next_steps", "bot acknowledge the date\nbot confirm appointment"),
    ("next_steps", "bot ask name\nuser inform name\n$name = ...\nbot express greeting"),
    ("v2_flow_continuation", 'bot intent: bot provide help\nbot action: bot say "Sure {$x}"'),
    ("bot_message", '  "Result {{ 7*191 }} and $secret and {$x} and {{ secret }}."'),
    ("v2_value", "'Result {{ 7*191 }} and $secret and {$x}.'"),
]


def mutations(rng, n):
    """(tag, text): mutations of well-formed outputs of every call kind."""
    out = []
    bases = [(k, v) for k, v in sorted(GOOD.items())] + MUT_BASES
    for _ in range(n):
        kind, base = rng.choice(bases)
        t = base
        for _ in range(rng.choice([1, 1, 2, 3])):
            t = mutate_text(rng, t)
        out.append(("mut:" + kind, t))
    return out


# ---------------------------------------------------------------------------------------
# end-to-end driver (parent side): batches in child processes under `timeout`

CASE_CPU_LIMIT = 60      # CPU seconds one conversation may burn (a busy hang)
CASE_WALL_LIMIT = 900    # wall seconds one conversation may take (a waiting hang; generous: loaded machines)


def _cpu_seconds(pid):
    """CPU time (user+system) of a process and its threads, from /proc."""
    try:
        with open(f"/proc/{pid}/stat") as f:
            parts = f.read().rsplit(")", 1)[1].split()
        return (int(parts[11]) + int(parts[12])) / os.sysconf("SC_CLK_TCK")
    except Exception:
        return None


def _run_child(inp, outp):
    """Run one worker; the parent watches the progress file and the child's CPU time (an
    in-process alarm cannot interrupt a regex or the interpreter's `except Exception`)."""
    import subprocess

    env = dict(os.environ)
    env.update(C.impl_env())
    total_wall = CASE_WALL_LIMIT + 600
    p = subprocess.Popen(["timeout", "-k", "5", str(total_wall * 4), C.PY, "-m", "harness.c17", "--e2e-worker", inp, outp],
                         cwd=C.VERIF, env=env, stdout=subprocess.DEVNULL, stderr=subprocess.DEVNULL)
    cur, cur_t0, cur_cpu0 = None, time.time(), None
    why = None
    while True:
        try:
            p.wait(timeout=1.0)
            break
        except subprocess.TimeoutExpired:
            pass
        try:
            k = json.load(open(outp + ".progress"))["current"]
        except Exception:
            k = None
        # the python child of `timeout`
        try:
            kids = open(f"/proc/{p.pid}/task/{p.pid}/children").read().split()
        except Exception:
            kids = []
        cpu = _cpu_seconds(kids[0]) if kids else None
        if k != cur:
            cur, cur_t0, cur_cpu0 = k, time.time(), cpu
            continue
        if cur_cpu0 is None:
            # the /proc read failed when the conversation changed: take the baseline at the first
            # successful reading (a baseline of 0 would charge the whole batch to this conversation)
            cur_cpu0 = cpu
        if cur is None or cur < 0:
            if time.time() - cur_t0 > total_wall:
                why = "startup"
        elif cpu is not None and cur_cpu0 is not None and cpu - cur_cpu0 > CASE_CPU_LIMIT:
            why = f"cpu>{CASE_CPU_LIMIT}s"
        elif time.time() - cur_t0 > CASE_WALL_LIMIT:
            why = f"wall>{CASE_WALL_LIMIT}s"
        if why:
            for kpid in kids:
                C.sh(["kill", "-9", kpid], timeout=10)
            p.kill()
            p.wait()
            break
    return p.returncode, why


def _run_batch(idx, cases, confirming=False):
    """Run one batch in a child; a case that hangs/crashes the child is reported and skipped.
    A hang verdict (watchdog kill) is only reported when it reproduces with the conversation run
    alone in a fresh child: the conversations are deterministic, the watchdog's timing is not."""
    os.makedirs(WORK, exist_ok=True)
    results = [None] * len(cases)
    todo = list(range(len(cases)))
    attempt = 0
    while todo:
        attempt += 1
        inp = os.path.join(WORK, f"b{idx}_{attempt}.in.json")
        outp = os.path.join(WORK, f"b{idx}_{attempt}.out.json")
        for p in (outp, outp + ".progress"):
            if os.path.exists(p):
                os.remove(p)
        with open(inp, "w") as f:
            json.dump([cases[i] for i in todo], f)
        rc, why = _run_child(inp, outp)
        if os.path.exists(outp):
            rs = json.load(open(outp))
            for i, r in zip(todo, rs):
                results[i] = r
            return results
        cur = None
        try:
            cur = json.load(open(outp + ".progress"))
        except Exception:
            pass
        if cur is None or cur.get("current", -1) < 0:
            for i in todo:
                results[i] = {"replies": [], "calls": [], "fail": {"kind": "worker-died", "rc": rc, "why": why}}
            return results
        k = cur["current"]
        for i, r in zip(todo[:k], cur.get("done", [])):
            results[i] = r
        if why and not confirming:
            results[todo[k]] = _run_batch(f"{idx}c{attempt}", [cases[todo[k]]], confirming=True)[0]
        else:
            results[todo[k]] = {"replies": [], "calls": [],
                                "fail": {"kind": "hang" if why else "crash", "rc": rc, "why": why}}
        todo = todo[k + 1:]
    return results


def run_e2e(cases, batch=24):
    """cases -> results (same order), in parallel child processes."""
    from concurrent.futures import ThreadPoolExecutor

    write_cfgs()
    nb = max(1, (len(cases) + batch - 1) // batch)
    groups = [list(range(len(cases)))[i::nb] for i in range(nb)]   # interleaved: slow cases spread out
    results = [None] * len(cases)

    def one(gi):
        return gi, _run_batch(gi, [cases[i] for i in groups[gi]])

    with ThreadPoolExecutor(max_workers=C.NPROC) as ex:
        for gi, rs in ex.map(one, range(nb)):
            for i, r in zip(groups[gi], rs):
                results[i] = r
    return results


# ---------------------------------------------------------------------------------------
# (X1) differential of the modelled helpers against the real functions, model run inside Coq

PREAMBLE = """From Coq Require Import NArith List Bool String.
From NG Require Import Svc.TextPost Svc.TextPostRun.
Import ListNotations.
Open Scope N_scope.
"""

EXN = {"IndexError": "IndexError", "TypeError": "TypeError", "AttributeError": "AttributeError", "ValueError": "ValueError",
       "AssertionError": "AssertionError"}
MAX_COQ_TEXT = 1500


def coq_text(s):
    return "[" + "; ".join(str(ord(c)) for c in s) + "]" if s else "([] : text)"


def coq_texts(l):
    return "[" + "; ".join(coq_text(x) for x in l) + "]" if l else "([] : list text)"


def coq_answer(a):
    """a = ('text', s) | ('none',) | ('texts', [..]) | ('triple', a, b, c) | ('raise', name) | ('outcome', None|[lines])"""
    k = a[0]
    if k == "text":
        return f"(AText {coq_text(a[1])})"
    if k == "none":
        return "ANone"
    if k == "texts":
        return f"(ATexts {coq_texts(a[1])})"
    if k == "triple":
        return f"(ATriple {coq_text(a[1])} {coq_text(a[2])} {coq_text(a[3])})"
    if k == "raise":
        return f"(ARaise {EXN[a[1]]})" if a[1] in EXN else None
    if k == "nonstr":
        return "ANonStr"
    if k == "outcome":
        return "(AOutcome GeneralResponse)" if a[1] is None else f"(AOutcome (StartFlow {coq_texts(a[1])}))"
    raise ValueError(k)


HELPER_TIME_LIMIT = 30     # seconds one in-process call of an action method may take


class _Runaway(BaseException):
    """Raised by the parser oracle when the shrink loop runs longer than its number of lines, and
    by the alarm when an action method does not return (a BaseException, so that the code's own
    `except Exception` cannot swallow it)."""


class ImplHelpers:
    """The real code behind each modelled helper.  The per-call post-processing lives inside the
    action methods, so those are called directly (real prompt rendering, scripted LLM)."""

    def __init__(self, validate_wrapped):
        import asyncio

        from nemoguardrails import LLMRails, RailsConfig

        write_cfgs()
        self.loop = asyncio.new_event_loop()
        self.apps = {}
        for mode in ("v1_dialog", "v1_general", "v1_single_call", "v1_multi_step", "v2_value"):
            llm = _mk_llm(mode, None, None)
            self.apps[mode] = (LLMRails(RailsConfig.from_path(os.path.join(CFG_ROOT, mode)), llm=llm), llm)
        self.validate_wrapped = validate_wrapped
        self.base_events = [{"type": "UtteranceUserActionFinished", "final_transcript": "hi"},
                            {"type": "UserMessage", "text": "hi"}]

    def _act(self, mode, text, coro_fn):
        app, llm = self.apps[mode]
        llm.every = [text]
        llm.subst = {}
        import signal

        def on_alarm(signum, frame):
            raise _Runaway()

        old = signal.signal(signal.SIGALRM, on_alarm)
        signal.alarm(HELPER_TIME_LIMIT)
        try:
            return ("ok", self.loop.run_until_complete(coro_fn(app.llm_generation_actions, app)))
        except _Runaway:
            # the loop is left in an undefined state: use a fresh one
            import asyncio

            self.loop = asyncio.new_event_loop()
            return ("raise", "NonTermination")
        except Exception as e:
            return ("raise", type(e).__name__)
        finally:
            signal.alarm(0)
            signal.signal(signal.SIGALRM, old)

    def call(self, h, s, s2=None, lens=None):
        from nemoguardrails.actions.llm import utils as U
        from nemoguardrails.actions.llm.generation import clean_utterance_content
        from nemoguardrails.llm.output_parsers import verbose_v1_parser

        def direct(f):
            try:
                r = f()
            except Exception as e:
                return ("raise", type(e).__name__)
            if r is None:
                return ("none",)
            if isinstance(r, list):
                return ("texts", r)
            return ("text", r)

        if h == "HFirstLine":
            return direct(lambda: U.get_first_nonempty_line(s))
        if h == "HTopK":
            return direct(lambda: U.get_top_k_nonempty_lines(s, k=2))
        if h == "HStripQuotes":
            return direct(lambda: U.strip_quotes(s))
        if h == "HMultiline":
            return direct(lambda: U.get_multiline_response(s))
        if h == "HClean":
            return direct(lambda: clean_utterance_content(s))
        if h == "HVerbose":
            return direct(lambda: verbose_v1_parser(s))
        if h == "HSplit1":
            return direct(lambda: s.split(" ", maxsplit=1))
        if h == "HIndent":
            def f():
                try:
                    from nemoguardrails.colang.v1_0.runtime.utils import get_dynamic_flow_content
                    return get_dynamic_flow_content("f", s)
                except ImportError:
                    from textwrap import indent
                    return "define flow f:\n" + indent(s, "  ")
            return direct(f)
        ev = self.base_events
        if h == "HUserIntent":
            async def go(a, app):
                r = await a.generate_user_intent(events=ev, context={}, config=app.config)
                return r.events[0]["intent"]
            k, v = self._act("v1_dialog", s, go)
            return ("text", v) if k == "ok" else (k, v)
        if h == "HNextStep":
            async def go(a, app):
                r = await a.generate_next_step(events=ev + [{"type": "UserIntent", "intent": "ask x"}])
                return r.events[0]["intent"]
            k, v = self._act("v1_dialog", s, go)
            return ("text", v) if k == "ok" else (k, v)
        if h == "HBotMessage":
            async def go(a, app):
                r = await a.generate_bot_message(events=ev + [{"type": "UserIntent", "intent": "ask x"}, {"type": "BotIntent", "intent": "inform y"}], context={})
                return r.events[0]["text"]
            k, v = self._act("v1_dialog", s, go)
            return ("text", v) if k == "ok" else (k, v)
        if h == "HGeneral":
            async def go(a, app):
                r = await a.generate_user_intent(events=ev, context={}, config=app.config)
                return [e for e in r.events if e["type"] == "BotMessage"][0]["text"]
            k, v = self._act("v1_general", s, go)
            return ("text", v) if k == "ok" else (k, v)
        if h == "HSingleCall":
            async def go(a, app):
                r = await a.generate_user_intent(events=ev, context={}, config=app.config)
                e = r.events[0]
                return (e["intent"], e["additional_info"]["bot_intent_event"]["intent"], e["additional_info"]["bot_message_event"]["text"])
            k, v = self._act("v1_single_call", s, go)
            return ("triple",) + tuple(v) if k == "ok" else (k, v)
        if h == "HCtxUtter":
            value = s2      # the value of the context variable `cv`

            async def go(a, app):
                r = await a.generate_bot_message(events=ev + [{"type": "UserIntent", "intent": "ask x"}, {"type": "BotIntent", "intent": "$cv"}],
                                                 context={"cv": value})
                return r.events[0]["text"]
            k, v = self._act("v1_dialog", "unused", go)
            if k != "ok":
                return (k, v)
            return ("text", v) if isinstance(v, str) else ("nonstr", type(v).__name__)
        if h == "HValueText":
            import nemoguardrails.actions.v2_x.generation as G2
            seen = []

            def capture(x):
                seen.append(x)
                return 0

            class St:
                context = {}

            async def go(a, app):
                old = G2.literal_eval
                G2.literal_eval = capture
                try:
                    await a.generate_value(state=St(), instructions="say", events=[], var_name="v")
                finally:
                    G2.literal_eval = old
                return seen[0]
            k, v = self._act("v2_value", s, go)
            return ("text", v) if k == "ok" else (k, v)
        if h == "HShrink":
            import nemoguardrails.actions.llm.generation as G1
            wrapped = self.validate_wrapped

            budget = [len(s.split("\n")) + 3]

            def fake_parse(filename, content=None, **kw):
                budget[0] -= 1
                if budget[0] < 0:          # more iterations than lines: the loop does not shrink
                    raise _Runaway()
                n = len(content.split("\n")) - (1 if wrapped else 0)
                if n in lens:
                    return {"flows": [{}]}
                raise Exception("rejected by the oracle")

            async def go(a, app):
                old = G1.parse_colang_file
                G1.parse_colang_file = fake_parse
                try:
                    r = await a.generate_next_step(events=ev + [{"type": "UserIntent", "intent": "ask x"}])
                finally:
                    G1.parse_colang_file = old
                e = r.events[0]
                return None if e["type"] == "BotIntent" else e["flow_body"].split("\n")
            k, v = self._act("v1_multi_step", s, go)
            return ("outcome", v) if k == "ok" else (k, v)
        raise ValueError(h)


def py_to_pyv(v):
    """A Python value produced by literal_eval as a Coq `pyv` term."""
    if v is Ellipsis:
        return "(PAtom AEllipsis)"
    if v is None:
        return "(PAtom ANoneV)"
    if isinstance(v, bool):
        return "(PAtom ABool)"
    for ty, a in ((str, "AStr"), (int, "AInt"), (float, "AFloat"), (bytes, "ABytes"), (complex, "AComplex")):
        if isinstance(v, ty):
            return f"(PAtom {a})"
    if isinstance(v, (list, tuple, set, frozenset)):
        items = [py_to_pyv(x) for x in v]
        return "(PSeq [" + "; ".join(items) + "])" if items else "(PSeq [])"
    if isinstance(v, dict):
        items = [f"({py_to_pyv(k)}, {py_to_pyv(x)})" for k, x in v.items()]
        return "(PDict [" + "; ".join(items) + "])" if items else "(PDict [])"
    raise ValueError(type(v).__name__)


def value_differential(out, rng, tier):
    """_is_supported_value: the real function against the model (inside Coq), and - independently of
    the model - against the conversation state's own encoder: accepted => storable."""
    import json as _json
    from ast import literal_eval

    from nemoguardrails.actions.v2_x.generation import _is_supported_value
    from nemoguardrails.colang.v2_x.runtime.serialization import encode_to_dict

    texts = []
    for sh in LITERAL_SHAPES:
        for u in UNSUPPORTED_ATOMS + SUPPORTED_ATOMS:
            texts.append(sh.format(u=u))
    atoms_ = UNSUPPORTED_ATOMS + SUPPORTED_ATOMS * 2

    def rand_lit(d):
        k = rng.randrange(6) if d > 0 else 0
        if k == 0:
            return rng.choice(atoms_)
        if k == 1:
            return "[" + ", ".join(rand_lit(d - 1) for _ in range(rng.randint(0, 3))) + "]"
        if k == 2:
            return "(" + "".join(rand_lit(d - 1) + ", " for _ in range(rng.randint(0, 3))) + ")"
        if k == 3:
            return "{" + ", ".join(rand_key(d - 1) for _ in range(rng.randint(1, 3))) + "}"
        return "{" + ", ".join(rand_key(d - 1) + ": " + rand_lit(d - 1) for _ in range(rng.randint(0, 3))) + "}"

    def rand_key(d):       # hashable
        if d <= 0 or rng.random() < 0.6:
            return rng.choice(atoms_)
        return "(" + "".join(rand_key(d - 1) + ", " for _ in range(rng.randint(1, 2))) + ")"

    for _ in range(300 if tier == "quick" else 3000):
        texts.append(rand_lit(3))
    terms, kept = [], []
    for t in dict.fromkeys(texts):
        try:
            v = literal_eval(t)
        except Exception:
            continue
        try:
            acc = bool(_is_supported_value(v))
        except Exception as e:
            out.findings.append(C.Finding(f"helper/supported-value/raises:{type(e).__name__}", f"_is_supported_value raised on {t}",
                                          {"kind": "value", "literal": t}))
            continue
        if acc:
            try:
                _json.dumps(encode_to_dict(v, {}))
            except Exception as e:
                out.findings.append(C.Finding("helper/supported-value/accepted-unstorable",
                                              f"_is_supported_value accepts {t} but the conversation state cannot hold it ({type(e).__name__}: {str(e)[:80]})",
                                              {"kind": "value", "literal": t}))
        terms.append(f"({py_to_pyv(v)}, {C.coq_bool(acc)})")
        kept.append((t, acc))
    return terms, kept


CTX_VALUES = [("str", ""), ("str", "abc"), ("str", "a\\nb"), ("str", " "), ("str", "{{ 7*191 }} $secret"), ("str", '"q"'),
              ("obj", {"k": 1}), ("obj", [1]), ("obj", 7), ("obj", True), ("obj", 1.5), ("obj", (1,)), ("obj", {"type": "E", "text": "t"}),
              ("obj", None), ("obj", 0), ("obj", []), ("obj", {}), ("obj", False), ("obj", 0.0)]


HELPERS = ["HFirstLine", "HTopK", "HStripQuotes", "HMultiline", "HClean", "HVerbose", "HUserIntent", "HNextStep",
           "HBotMessage", "HGeneral", "HSingleCall", "HIndent", "HSplit1", "HValueText"]


def differential(out, rng, tier, validate_wrapped, extra_cases=()):
    impl = ImplHelpers(validate_wrapped)
    texts = [t for _, t in hostile_corpus() if len(t) <= MAX_COQ_TEXT]
    texts += ["x" * 1200, "bot " + "a" * 1000, "\n" * 800 + "bot b", '"' * 700, "user " * 200, "a\\n" * 300]
    texts += [t for _, t in mutations(rng, 150 if tier == "quick" else 1500)]
    texts += [u for u in UNICODE_EDGES.values() if len(u) <= MAX_COQ_TEXT] + [f'  "Result {u}."' for u in UNICODE_EDGES.values() if len(u) <= MAX_COQ_TEXT]
    texts += ["a" + "\u0301" * 400, "bot \ud83d", "user \udc00\nbot x", "\x85\ud83d\x85"]
    texts = list(dict.fromkeys(texts))
    terms, kept, seen, hist = [], [], set(), {}
    n_nontrivial = 0

    def add(h, s, s2, a, lens=None):
        nonlocal n_nontrivial
        ca = coq_answer(a)
        hist[a[0]] = hist.get(a[0], 0) + 1
        if ca is None:
            out.findings.append(C.Finding(f"helper/{h}/unexpected-exception:{a[1]}", f"{h} raised {a[1]} on {s[:60]!r}",
                                          {"kind": "helper", "helper": h, "text": s, "impl": list(a)}))
            return
        hh = (f"(HShrink {C.coq_bool(validate_wrapped)} " + ("[" + "; ".join(f"{n}%nat" for n in lens) + "]" if lens else "([] : list nat)") + ")") if h == "HShrink" else h
        term = f"({hh}, {coq_text(s)}, {coq_text(s2 or '')}, {ca})"
        key = C.canon_hash(term)
        if key in seen:
            return
        seen.add(key)
        # non-trivial: the helper changed the text, answered None/raise, or the text has >1 line / a quote / a prefix
        if a[0] != "text" or a[1] != s:
            n_nontrivial += 1
        terms.append(term)
        kept.append((h, s, s2, a, lens))

    for h, s, s2, lens in extra_cases:
        add(h, s, s2, impl.call(h, s, s2, lens), lens)
    for s in texts:
        for h in HELPERS:
            if h in ("HValueText",):
                add(h, s, "$v =", impl.call(h, s, "$v ="))
            else:
                add(h, s, None, impl.call(h, s))
    # bot intent `$name`: the utterance taken from a context variable of any type
    for kind, val in CTX_VALUES:
        a = impl.call("HCtxUtter", "", val)
        cv = f"(CStr {coq_text(val)})" if kind == "str" else f"(CNonStr {C.coq_bool(bool(val))})"
        ca = coq_answer(a)
        hist[a[0]] = hist.get(a[0], 0) + 1
        if ca is None:
            out.findings.append(C.Finding(f"helper/HCtxUtter/unexpected-exception:{a[1]}", f"generate_bot_message raised {a[1]} for `$cv` = {val!r}",
                                          {"kind": "helper", "helper": "HCtxUtter", "text": "", "value": val}))
            continue
        term = f"(HCtxUtter {cv}, ([] : text), ([] : text), {ca})"
        if a[0] == "nonstr":
            # independent of the model: the text of a BotMessage event must be a str
            out.findings.append(C.Finding("helper/HCtxUtter/bot-message-text-not-a-str",
                                          f"generate_bot_message for the bot intent `$cv` with cv={val!r} emits BotMessage(text=<{a[1]}>)",
                                          {"kind": "helper", "helper": "HCtxUtter", "text": "", "value": val}))
        n_nontrivial += 1
        terms.append(term)
        kept.append(("HCtxUtter", repr(val), None, a, None))
    # the shrink loop with arbitrary oracles (a candidate is accepted iff its number of lines is listed)
    for _ in range(200 if tier == "quick" else 2000):
        n = rng.randint(1, 7)
        lines = [rng.choice(["bot a", "", "  ", "bot b", "!!", "user x", "# c", "\t"]) for _ in range(n)]
        lens = sorted(rng.sample(range(0, 9), rng.randint(0, 3)))
        s = "\n".join(lines)
        add("HShrink", s, None, impl.call("HShrink", s, None, lens), lens)
    # ... and completions longer than the cap on the number of lines the loop considers
    for n, lens in [(205, [200]), (205, [205]), (205, [199]), (230, []), (201, [1]), (200, [200]), (199, [199, 200])]:
        s = "\n".join(["x"] * n)
        add("HShrink", s, None, impl.call("HShrink", s, None, lens), lens)
    return terms, kept, n_nontrivial, hist


def _diff_case_name(c):
    h, s, s2, a, lens = c
    return f"{h}{'/' + str(lens) if lens is not None else ''} on {s[:80]!r}: impl={list(a)!r:.200}"


# ---------------------------------------------------------------------------------------
# (X2) end-to-end case generation and the direct oracle

MESSAGE_KINDS = {"general", "passthrough", "other", "bot_message", "single_call", "v2_value"}
_LIT = "Result {{ 7*191 }} and $secret and {$x} and {{ secret }}."
LITERAL_TEXTS = {"general": _LIT, "passthrough": _LIT, "other": _LIT, "bot_message": f'  "{_LIT}"',
                 "single_call": f'  ask x\nbot inform y\n  "{_LIT}"', "v2_value": f"'{_LIT}'"}
NPOS = {"v1_general": 3, "v1_passthrough": 3, "v1_dialog": 8, "v1_single_call": 5, "v1_multi_step": 8, "v2_llm": 5, "v2_value": 3,
        "v2_saylike": 2, "v2_passthrough": 2}
CORE = ["", "   \n\t\n  ", '"', "bot ", 'bot "hello"', "user ", "User: hi", "{{ 7*191 }} $secret {$x}", "...", "bot $secret", "\x00",
        "define flow x\n  user a\n  bot b", "bot a\n!!!", "#", "do foo", "while True\n  bot a", "meta", "user a\nbot b", "b'x'", "1 + 2j",
        'bot action: bot say "{$x}"', "bot intent: ", "flow", "a" * LONG, "bot a\n" * 500, "x\n" * 20000]


def gen_cases(rng, tier):
    corpus = hostile_corpus()
    cases = []
    muts = mutations(rng, 400 if tier == "quick" else 6000)
    for mode in MODES:
        for k in range(NPOS[mode]):
            if tier == "thorough":
                pool = [t for _, t in corpus] + [t for _, t in rng.sample(muts, 120)]
            else:
                pool = list(CORE) + [t for _, t in rng.sample(corpus, 2)] + [t for _, t in rng.sample(muts, 1)]
            pool += list(dict.fromkeys(LITERAL_TEXTS.values()))
            pool += unicode_edge_texts(mode, tier)
            for t in dict.fromkeys(pool):
                cases.append({"mode": mode, "turns": TURNS[mode], "subst": {str(k): t}})
    # the bot intent `$name` for every context variable name, at the call that yields the bot intent
    # (one conversation with that single call hostile, one with every call answering it)
    for mode, pos in INTENT_POS.items():
        for name in CTX_VAR_NAMES:
            ts = ctxvar_intent_texts(mode, name)
            cases.append({"mode": mode, "turns": TURNS[mode], "subst": {pos: ts[0]}})
            if tier == "thorough" or name in ("event", "profile", "items", "count", "i", "generation_options", "undefined_name", "secret"):
                cases.append({"mode": mode, "turns": TURNS[mode], "every": [ts[0]]})
            if tier == "thorough" or name == "event":
                for k in range(NPOS[mode]):
                    for t in ts:
                        cases.append({"mode": mode, "turns": TURNS[mode], "subst": {str(k): t}})
    # template / variable text that ENTERS THE HISTORY (LLM bot message, or typed by the user) must stay
    # literal in every later prompt and must not disturb later turns
    for mode, (pos_kind_texts, user_turns) in HISTORY_CASES.items():
        for hm in (HISTORY_MARKER_SETS if tier == "thorough" else HISTORY_MARKER_SETS[:4] + HISTORY_MARKER_SETS[5:6]):
            body = " and ".join(hm)
            for pos, fmt in pos_kind_texts:
                cases.append({"mode": mode, "turns": TURNS[mode], "subst": {pos: fmt.format(m=body)}, "history_markers": hm})
            cases.append({"mode": mode, "turns": [user_turns[0] + " " + body] + list(user_turns[1:]), "history_markers": hm,
                          "markers_typed_by_user": True})
    # two cooperating outputs: an earlier turn's LLM message looks like a template; a later turn's bot
    # intent is `$<variable holding that message>`: the stored text must be delivered verbatim
    for mode, (msg_pos, msg_fmt, intent_pos, intent_fmt, turns) in REPLAY_VAR_CASES.items():
        for body in STORED_TEXTS:
            for var in ("last_bot_message", "bot_message"):
                cases.append({"mode": mode, "turns": turns, "subst": {msg_pos: msg_fmt.format(m=body), intent_pos: intent_fmt.format(v=var)},
                              "expect_same_reply": [1, 2]})
    # generated values: every unstorable constant at every structural position of the literal
    for mode in ("v2_value", "v2_saylike"):
        for t in unsupported_literal_texts():
            for k in (range(NPOS[mode]) if tier == "thorough" else [0]):
                cases.append({"mode": mode, "turns": TURNS[mode], "subst": {str(k): t}})
    # every call hostile
    allt = [t for _, t in corpus if len(t) < 2000] + [t for _, t in muts]
    for mode in MODES:
        for _ in range(6 if tier == "quick" else 150):
            cases.append({"mode": mode, "turns": TURNS[mode], "every": [rng.choice(allt) for _ in range(rng.randint(1, 5))]})
    # two hostile positions
    for mode in MODES:
        for _ in range(4 if tier == "quick" else 100):
            ks = rng.sample(range(NPOS[mode]), min(2, NPOS[mode]))
            cases.append({"mode": mode, "turns": TURNS[mode], "subst": {str(k): rng.choice(allt) for k in ks}})
    return cases


# marker sets: each must come back / stay literal (balanced and unbalanced Jinja, config variables, $vars)
HISTORY_MARKER_SETS = [["{{ 7*191 }}"], ["{{ general_instructions }}", "{{ secret }}"], ["{% for i in range(3) %}Z{% endfor %}"],
                       ["{{ unclosed"], ["{% if"], ["$secret", "{$x}", "${user_name}"], ["{# c #}", "{{ 1336 + 1 }}"]]
# mode -> ([(call index of a MESSAGE position in turn 1 or 2, format of a well-formed message)], user turns)
HISTORY_CASES = {
    "v1_general": ([("0", "Result {m}.")], TURNS["v1_general"]),
    "v1_dialog": ([("3", '  "Result {m}."')], TURNS["v1_dialog"]),
    "v1_multi_step": ([("3", '  "Result {m}."')], TURNS["v1_multi_step"]),
    "v1_single_call": ([("1", '  ask x\nbot inform y\n  "Result {m}."')], TURNS["v1_single_call"]),
    "v2_llm": ([], TURNS["v2_llm"]),    # (a generated flow is CODE: `{{` in its string literals is Colang's escape) user-typed text only
    "v2_value": ([("0", "'Result {m}.'")], TURNS["v2_value"]),
}
STORED_TEXTS = ["The sum is {{ 7 * 191 }} for $last_user_message", "{% if 1 %}Y{% endif %} and {{ secret }} and {$x}", "$secret ${user_name} {{ last_user_message }}"]
_T3 = ["hi", "what is the weather", "say that again"]
# mode -> (call yielding the turn-2 MESSAGE, its format, call yielding the turn-3 BOT INTENT, its format, user turns)
REPLAY_VAR_CASES = {
    "v1_dialog": ("3", '  "{m}"', "5", "bot ${v}", _T3),
    "v1_multi_step": ("3", '  "{m}"', "5", "bot ${v}", _T3),
    "v1_single_call": ("1", '  ask x\nbot inform y\n  "{m}"', "2", '  ask again\nbot ${v}\n  "unused"', _T3),
}
_NO_HISTORY_TEXT = {"next_steps", "passthrough", "other"}      # prompts that do not render the message texts


def judge(case, r, kind_at):
    """Direct oracle (the property text) on one result.  Returns (signature, what) or None;
    ('obs', name) for a recorded observation that is not a violation."""
    import re

    f = r.get("fail")
    ks = sorted(case.get("subst", {}), key=int)
    calls = {str(c["i"]): c for c in r.get("calls", [])}
    first = ks[0] if ks else None
    kind = (calls.get(first, {}).get("kind") if first is not None and len(ks) == 1 else None)
    if kind is None and r.get("calls"):
        hostile = [c for c in r["calls"] if c["hostile"]]
        kind = hostile[-1]["kind"] if hostile else None       # the last hostile output before the failure
    kind = kind or (kind_at.get(case["mode"], {}).get(first) if first else None) or "?"
    if f:
        if f["kind"] == "evaluated":
            # documented feature: a bot INTENT of the form `$name` is replaced by the context variable
            texts = list(case.get("subst", {}).values()) + list(case.get("every", []))
            for t in texts:
                for m in re.finditer(r"(?:^|\n)\s*(?:bot|Bot intent:)\s+\$(\w+)", t):
                    if f["found"] in json.dumps(CTX.get(m.group(1), "")):
                        return ("obs", "bot-intent-$var-dereferences-context-variable")
            return (f"{case['mode']}/{kind}/evaluated", f"template/variable syntax from the LLM was evaluated: {f['found']} in {f['reply'][:80]!r}")
        if f["kind"] == "raised":
            if f.get("where", "").startswith("serialization.py"):
                # the state reached cannot be serialised: the defect class does not depend on the call position
                kind = "state-serialisation"
            return (f"{case['mode']}/{kind}/raised:{f['exc']}@{f['fn']}", f"generate raised {f['exc']} in {f['fn']} ({f['where']}): {f['msg'][:120]}")
        if f["kind"] == "malformed":
            return (f"{case['mode']}/{kind}/malformed-reply", f["why"])
        if f["kind"] == "hang":
            return (f"{case['mode']}/{kind}/hang", f"generate did not return ({f.get('why')})")
        return (f"{case['mode']}/{kind}/{f['kind']}", json.dumps(f)[:200])
    # evaluated residue of earlier LLM / user text inside a LATER PROMPT
    for x in r.get("calls", []):
        if x.get("residue"):
            return (f"{case['mode']}/{x['kind']}/evaluated-in-later-prompt",
                    f"the prompt of call {x['i']} ({x['kind']}, turn {x['turn']}) contains {x['residue']}: text of an earlier turn was evaluated")
    if case.get("history_markers"):
        for x in r.get("calls", []):
            if x.get("missing") and x["kind"] not in _NO_HISTORY_TEXT:
                return (f"{case['mode']}/{x['kind']}/history-text-not-literal-in-prompt",
                        f"the prompt of call {x['i']} ({x['kind']}, turn {x['turn']}) no longer contains {x['missing']} literally")
        for t, rep in enumerate(r.get("replies", [])):
            if isinstance(rep, dict) and rep.get("content") == "I'm sorry, an internal error has occurred.":
                return (f"{case['mode']}/history/later-turn-internal-error",
                        f"turn {t} ended with the internal-error reply after template text entered the history")
        if not case.get("markers_typed_by_user") and "markers_in_history_after_turn" not in r:
            return (f"{case['mode']}/history/message-not-literal-in-reply", "the LLM message text with the markers did not come back literally")
    if case.get("expect_same_reply"):
        a, b = case["expect_same_reply"]
        reps = r.get("replies", [])
        ca = reps[a].get("content") if a < len(reps) and isinstance(reps[a], dict) else None
        cb = reps[b].get("content") if b < len(reps) and isinstance(reps[b], dict) else None
        if ca is None or cb is None or ca != cb:
            return (f"{case['mode']}/next_steps/ctxvar-content-not-verbatim",
                    f"bot intent `$var` for a variable holding the earlier LLM message {ca!r:.90} delivered {cb!r:.90}")
        return None
    # literal pass-through of template text at message positions
    for k in ks:
        c = calls.get(k)
        if not c or not c["hostile"] or c["kind"] not in MESSAGE_KINDS:
            continue
        if case["subst"][k] != LITERAL_TEXTS.get(c["kind"]):
            continue
        rep = r["replies"][c["turn"]] if c["turn"] < len(r["replies"]) else None
        content = rep.get("content") if isinstance(rep, dict) else None
        if not isinstance(content, str) or _LIT not in content:
            return (f"{case['mode']}/{c['kind']}/template-text-not-literal", f"reply {content!r:.120} does not contain the LLM message text literally")
    return None


def run(tier, seed, replay=None):
    out = C.Outcome(PID, tier, seed)
    rng = random.Random(seed * 1000003 + 17)
    sys.path.insert(1, C.REPO)
    b = C.build_and_audit(PID, GEN)
    C.proof_coverage(out, b, "make theories/Props/C17.vo && coqc Props/C17.v (Print Assumptions)")
    for br in b["broken"]:
        out.add_broken(br, b["log"])
    with C.BuildLock():
        okm, logm = C.coq_make(["theories/Svc/TextPostRun.vo"])
    if not okm:
        out.add_broken("coq:theories/Svc/TextPostRun.v", logm)
    try:
        from translator import gen_c17

        consts = gen_c17.c17_consts()
    except Exception as e:
        consts = None
        if not any("translator" in x["obligation"] for x in out.broken):
            out.add_broken("translator:C17Consts", str(e))
    vw = bool(consts and consts["validate_wrapped"])

    corpus_dir = os.path.join(C.VERIF, "corpus", PID)
    corpus_e2e, corpus_diff = [], []
    if os.path.isdir(corpus_dir):
        for fn in sorted(os.listdir(corpus_dir)):
            if fn.endswith(".json"):
                d = json.load(open(os.path.join(corpus_dir, fn)))
                for c in d.get("cases", [d]):
                    if c.get("kind") == "helper":
                        corpus_diff.append((c["helper"], c["text"], c.get("text2"), c.get("lens")))
                    elif "mode" in c:
                        corpus_e2e.append({k: c[k] for k in ("mode", "turns", "subst", "every", "history_markers", "markers_typed_by_user", "expect_same_reply") if k in c})
    replay_case = None
    if replay:
        d = json.load(open(replay))
        rc = d.get("replay", d)
        if rc.get("kind") == "value":
            corpus_diff, corpus_e2e = [], []       # the value differential below is systematic and runs anyway
        elif rc.get("kind") == "helper":
            corpus_diff = [(rc["helper"], rc["text"], rc.get("text2"), rc.get("lens"))] if rc["helper"] != "HCtxUtter" else []
            corpus_e2e = []
        else:
            replay_case = {k: rc[k] for k in ("mode", "turns", "subst", "every", "history_markers", "markers_typed_by_user", "expect_same_reply") if k in rc}
            corpus_e2e, corpus_diff = [replay_case], []

    import logging

    logging.disable(logging.CRITICAL)

    # ---- (X1) differential
    t0 = time.time()
    n_diff = n_nontrivial = 0
    hist = {}
    disagreements = []
    if okm and not (replay and replay_case):
        devnull = open(os.devnull, "w")
        old = sys.stdout, sys.stderr
        sys.stdout = sys.stderr = devnull        # the library prints
        try:
            terms, kept, n_nontrivial, hist = differential(out, rng, "replay" if replay else tier, vw, corpus_diff)
            if replay:
                terms, kept = terms[:len(corpus_diff)], kept[:len(corpus_diff)]
        finally:
            sys.stdout, sys.stderr = old
        n_diff = len(terms)
        bools, err = C.run_cases(PID + "_diff", PREAMBLE, terms, "check_case", shard=150)
        if err:
            out.add_broken("correspondence:C17-helpers(coqc)", err)
        else:
            disagreements = [c for ok, c in zip(bools, kept) if not ok]
    # _is_supported_value (generated values): model vs real function, and accepted => storable
    n_val = 0
    if okm and not (replay and replay_case):
        vterms, vkept = value_differential(out, rng, tier)
        n_val = len(vterms)
        vb, err = C.run_cases(PID + "_val", PREAMBLE, vterms, "check_value_case", shard=300)
        if err:
            out.add_broken("correspondence:C17-supported-value(coqc)", err)
        else:
            vbad = [c for ok, c in zip(vb, vkept) if not ok]
            if vbad:
                t, acc = min(vbad, key=lambda c: len(c[0]))
                out.add_broken("correspondence:C17-supported-value", f"{len(vbad)} disagreements; smallest: _is_supported_value({t}) = {acc}")
    if disagreements:
        c = min(disagreements, key=lambda c: len(c[1]))
        out.add_broken("correspondence:C17-helpers", f"{len(disagreements)} disagreements; smallest: {_diff_case_name(c)}")
        # a disagreement in which the real helper RAISED is also a violation candidate of the property text
        for c in disagreements:
            if c[3][0] == "raise":
                out.findings.append(C.Finding(f"helper/{c[0]}/raises:{c[3][1]}", f"{c[0]} raises {c[3][1]} on {c[1][:60]!r} (the model does not)",
                                              {"kind": "helper", "helper": c[0], "text": c[1], "text2": c[2], "lens": c[4], "impl": list(c[3])}))
    diff_s = round(time.time() - t0, 1)

    # ---- (X2) end to end
    t0 = time.time()
    base = [{"mode": m, "turns": TURNS[m]} for m in MODES]
    generated = [] if replay else gen_cases(rng, tier)
    frac = float(os.environ.get("VERIF_C17_E2E_FRACTION", "1") or 1)    # development aid only (default: everything)
    if frac < 1:
        generated = [c for i, c in enumerate(generated) if rng.random() < frac]
        out.notes.append(f"VERIF_C17_E2E_FRACTION={frac}: only a sample of the generated conversations was run")
    cases = base + corpus_e2e + generated
    results = run_e2e(cases)
    kind_at = {}
    for c, r in zip(base, results[:len(base)]):
        kind_at[c["mode"]] = {str(x["i"]): x["kind"] for x in r.get("calls", [])}
        if r.get("fail"):
            out.add_broken(f"e2e-baseline:{c['mode']}", json.dumps(r["fail"])[:500])
    by_sig, obs = {}, {}
    kinds_hit = {}
    n_conv = n_hostile_calls = 0
    distinct = set()
    for c, r in zip(cases, results):
        n_conv += 1
        for x in r.get("calls", []):
            if x["hostile"]:
                n_hostile_calls += 1
                kinds_hit[(c["mode"], x["kind"])] = kinds_hit.get((c["mode"], x["kind"]), 0) + 1
        if c.get("subst") or c.get("every"):
            distinct.add(C.canon_hash([c["mode"], c.get("subst"), c.get("every")]))
        j = judge(c, r, kind_at)
        if j is None:
            continue
        if j[0] == "obs":
            obs[j[1]] = obs.get(j[1], 0) + 1
            continue
        size = sum(len(t) for t in list(c.get("subst", {}).values()) + list(c.get("every", [])))
        if j[0] not in by_sig or size < by_sig[j[0]][0]:
            by_sig[j[0]] = (size, j[1], c, r, by_sig.get(j[0], (0, 0, 0, 0, 0))[4] + 1 if j[0] in by_sig else 1)
        else:
            by_sig[j[0]] = by_sig[j[0]][:4] + (by_sig[j[0]][4] + 1,)
    for sig, (size, what, c, r, n) in sorted(by_sig.items()):
        out.findings.append(C.Finding(sig, f"{what} [{n} failing conversations; smallest LLM output {list(c.get('subst', {}).items()) or c.get('every')!r:.120}]",
                                      {"kind": "e2e", **c, "observed": r.get("fail") or {"replies": r.get("replies")}}))
    e2e_s = round(time.time() - t0, 1)

    out.coverage.update({
        "evaluations": n_diff + n_val + n_conv,
        "distinct_nontrivial": n_nontrivial + len(distinct),
        "rule": "helper differential: distinct (helper, text) Coq case terms where the helper changed the text or answered None / an exception "
                "(non-trivial); end-to-end: distinct (mode, hostile substitution) conversations (every one has >= 1 hostile LLM output and <= 3 turns)",
        "samples": [{"helper": k[0], "text": k[1][:60], "impl": list(k[3])[:2]} for k in (kept[:3] if n_diff else [])]
                   + [{"mode": c["mode"], "subst": {k: v[:60] for k, v in c.get("subst", {}).items()}, "replies": [x.get("content") if isinstance(x, dict) else x for x in r.get("replies", [])][:3]}
                      for c, r in list(zip(cases, results))[len(base) + len(corpus_e2e):][:3]],
        "input_distribution": {"helper_cases": n_diff, "helper_answer_kinds": hist, "conversations": n_conv, "hostile_llm_calls": n_hostile_calls,
                               "hostile_calls_per_mode_and_kind": {f"{m}/{k}": v for (m, k), v in sorted(kinds_hit.items())},
                               "corpus_cases": len(corpus_e2e) + len(corpus_diff), "hostile_corpus_size": len(hostile_corpus()),
                               "baseline_call_kinds": kind_at},
        "traces_validated_against_impl": n_diff + n_val,
        "generated_value_cases": n_val,
        "bot_intent_ctxvar_calls": sum(1 for c, r in zip(cases, results) for x in r.get("calls", [])
                                       if x["hostile"] and x["kind"] in ("next_steps", "single_call")
                                       and any("$" in t for t in list(c.get("subst", {}).values()) + list(c.get("every", [])))),
        "correspondence_disagreements": len(disagreements),
        "oracle_violations": sum(v[4] for v in by_sig.values()),
        "observations": obs,
        "timing_s": {"differential": diff_s, "end_to_end": e2e_s},
        "source_facts": consts,
    })
    out.assumptions += [
        "the Colang 1.0/2.x parsers, Jinja, ast.literal_eval are oracles in the theorems (arbitrary functions of the text); their behaviour on LLM text is explored end-to-end, not proved",
        "LLMCallException (the LLM call itself failing) is outside the property: it is re-raised by design",
        "texts are lists of code points; the differential covers texts up to 1500 characters inside Coq, longer ones only end-to-end",
        "end-to-end: scripted LLM answers well-formed at every call except the substituted positions; kinds of call are recognised from the prompt text",
        "a reply with empty content (Colang 2 flows that say nothing) counts as well-formed",
        "observation (not a violation of the statement, which speaks of message text): an LLM-produced bot INTENT `$name` is replaced by the context variable `name` (generate_bot_message, documented feature)",
        f"a conversation is a hang when it burns > {CASE_CPU_LIMIT}s CPU or takes > {CASE_WALL_LIMIT}s wall",
    ]
    if tier == "thorough" and b["ok"] and not replay:
        ok, log = C.coqchk(PID, b["files"])
        out.coverage["coqchk"] = "ok" if ok else "FAILED"
        if not ok:
            out.add_broken("coqchk", log)
    return C.finish(out)


if __name__ == "__main__":
    if len(sys.argv) >= 4 and sys.argv[1] == "--e2e-worker":
        # silence the library's prints
        devnull = open(os.devnull, "w")
        sys.stdout = devnull
        sys.stderr = devnull
        e2e_worker(sys.argv[2], sys.argv[3])
        os._exit(0)
