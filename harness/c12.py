"""C12 - Compiled flows are closed: every jump target exists and only primitives remain.

Colang 1.0  model   coq/theories/V1/{CompileItems,Compile}.v  (transcription of
                    coyml_parser._extract_elements/_resolve_gotos/_process_ellipsis and of the
                    control skeleton of sliding.slide), theorems V1/Compile_proofs.v
            tie (X) differential: the real parse_flow_elements against V1.Compile.compile
                    (evaluated inside Coq) on generated CoYML item trees, on the item trees the
                    real colang_parser produces for generated Colang 1.0 sources and for EVERY
                    shipped 1.0 .co file; plus the verified boolean checker offsets_okb on the
                    real elements of every flow.
            oracle  independent python reading of "every offset lands inside the flow" and a
                    run of the REAL slide() from every head with random condition values.
Colang 2.x  model   coq/theories/V2/{ClosedAst,Closed}.v (head-token semantics of slide; checker
                    closedb), soundness V2/Closed_proofs.v
            tie (T) Gen/C12Consts.v: the classes/ops slide() and expand_elements() dispatch on,
                    read from the current source (a dropped branch breaks a Coq obligation).
            tie (X) per-program validation by the verified checker: closedb is run inside Coq
                    on the REAL expanded FlowConfig.elements of every flow the loader compiles
                    (all shipped 2.x .co files, inline programs of tests/v2_x, generated
                    programs); independent python oracle on the real elements (uses the real
                    FlowConfig.element_labels); both verdicts must agree; dynamic probe of the
                    real interpreter (child process under `timeout`) for the runtime errors the
                    model predicts / excludes.
"""
from __future__ import annotations

import ast as pyast
import copy
import glob
import json
import os
import random
import re
import sys

from harness import common as C

PID = "C12"
GEN = ["C12Consts"]

PRE_V1 = """From Coq Require Import ZArith List String Bool.
From NG Require Import V1.CompileItems V1.Compile V1.CompileRun.
Import ListNotations.
Open Scope string_scope.
Open Scope Z_scope.
"""
PRE_V2 = """From Coq Require Import List String Bool.
From NG Require Import V2.ClosedAst V2.Closed V2.ClosedRun.
Import ListNotations.
Open Scope string_scope.
"""
PRE_X = """From Coq Require Import List String Bool.
From NG Require Import V2.ClosedAst V2.Closed V2.Expand V2.ExpandRun.
Import ListNotations.
Open Scope string_scope.
"""


class Unsupported(Exception):
    pass


def _quiet():
    import logging

    logging.disable(logging.CRITICAL)


# =======================================================================================
# Colang 1.0
# =======================================================================================

CONTROL_TYPES = {"if", "while", "jump", "branch", "any", "check", "stop", "break", "continue", "set",
                 "label", "goto"}


def v1_leaf_of_dict(d):
    """Python dict (CoYML shorthand) -> model leaf; mirrors the dispatch of _dict_to_element."""
    if "_type" in d:
        raise Unsupported("pre-typed element")
    keys = [("_" + k[1:]) if k[0] == ":" else k for k in d.keys()]
    t = keys[0]
    v = d[list(d.keys())[0]]
    if t in ("user", "intent", "you"):
        return ("other", "UserIntent")
    if t in ("UtteranceUserActionFinished", "StartUtteranceBotAction"):
        return ("other", t)
    if t in ("bot", "utter", "ask", "bot_ask", "run", "action", "execute", "infer", "add", "new", "post"):
        return ("other", "run_action")
    if t == "check":
        return ("check",)
    if t in ("pass", "continue"):
        return ("continue",)
    if t in ("stop", "abort"):
        return ("stop",)
    if t == "break":
        return ("break",)
    if t == "return":
        return ("return",)
    if t == "set":
        if not isinstance(v, str) or "=" not in v:
            raise Unsupported("set without =")
        return ("set", v.split("=", 1)[1].strip() == "...")
    if t in ("checkpoint", "label"):
        return ("label", str(v))
    if t == "goto":
        return ("goto", str(v))
    if t == "meta":
        return ("other", "meta")
    if t == "event":
        name = v.split("(")[0] if isinstance(v, str) else str(v)
        if name in CONTROL_TYPES:
            raise Unsupported("event named like a control element")
        return ("other", name)
    if t in ("flow", "call", "activate"):
        return ("other", "flow")
    raise Unsupported(f"leaf {t}")


def v1_tree_of_items(items):
    """CoYML item list -> model item tree (fail-closed)."""
    out = []
    for it in items:
        if isinstance(it, list):
            out.append(("list", v1_tree_of_items(it)))
        elif isinstance(it, dict):
            if "_type" in it:
                raise Unsupported("pre-typed element")
            t = list(it.keys())[0]
            if t == "if":
                out.append(("if", v1_tree_of_items(it["then"]), v1_tree_of_items(it.get("else", []))))
            elif t == "while":
                out.append(("while", v1_tree_of_items(it["do"])))
            elif t in ("any", "or"):
                ch = []
                for c in it[t]:
                    if not isinstance(c, dict) or list(c.keys())[0] in ("if", "while", "any", "or"):
                        raise Unsupported("non-leaf under any")
                    ch.append(v1_leaf_of_dict(c))
                out.append(("any", ch))
            else:
                out.append(("leaf", v1_leaf_of_dict(it)))
        else:
            raise Unsupported("item of type " + type(it).__name__)
    return out


def v1_coq_leaf(l):
    k = l[0]
    if k == "other":
        return f"(LOther {C.coq_string(l[1])})"
    if k == "set":
        return f"(LSet {C.coq_bool(l[1])})"
    if k == "label":
        return f"(LLabel {C.coq_string(l[1])})"
    if k == "goto":
        return f"(LGoto {C.coq_string(l[1])})"
    return {"check": "LCheck", "continue": "LContinue", "stop": "LStop", "break": "LBreak", "return": "LReturn"}[k]


def v1_coq_items(tree):
    out = []
    for it in tree:
        k = it[0]
        if k == "leaf":
            out.append(f"ILeaf {v1_coq_leaf(it[1])}")
        elif k == "if":
            out.append(f"IIf {v1_coq_items(it[1])} {v1_coq_items(it[2])}")
        elif k == "while":
            out.append(f"IWhile {v1_coq_items(it[1])}")
        elif k == "any":
            out.append("IAny " + C.coq_list([v1_coq_leaf(c) for c in it[1]]))
        else:
            out.append(f"IList {v1_coq_items(it[1])}")
    return C.coq_list(out)


def _int_or_none(x):
    return None if x is None else int(x)


def v1_obs(elements):
    """Real flat elements -> the observed fields (type and every offset)."""
    out = []
    for e in elements:
        out.append({
            "t": e["_type"],
            "next": _int_or_none(e.get("_next")),
            "abs": bool(e.get("_absolute", False)),
            "else": _int_or_none(e.get("_next_else")),
            "brk": _int_or_none(e.get("_next_on_break")),
            "cont": _int_or_none(e.get("_next_on_continue")),
            "heads": [int(h) for h in e.get("branch_heads", [])],
            "label": e.get("_label"),
            "ellipsis": e["_type"] == "set" and e.get("expression") == "...",
        })
    return out


_ET = {"if": "TIf", "while": "TWhile", "jump": "TJump", "branch": "TBranch", "any": "TAny", "check": "TCheck",
       "stop": "TStop", "break": "TBreak", "continue": "TContinue"}


def v1_coq_elem(o):
    t = o["t"]
    if t in _ET:
        ct = _ET[t]
    elif t == "set":
        ct = f"(TSet {C.coq_bool(o['ellipsis'])})"
    elif t == "label":
        ct = "(TLabel \"\")"
    elif t == "goto":
        ct = "(TGoto \"\")"
    else:
        ct = f"(TOther {C.coq_string(t)})"

    def oz(x):
        return C.coq_option(None if x is None else C.coq_Z(x))

    return (f"(mkE {ct} {oz(o['next'])} {C.coq_bool(o['abs'])} {oz(o['else'])} {oz(o['brk'])} {oz(o['cont'])} "
            f"{C.coq_list([C.coq_Z(h) for h in o['heads']])} "
            f"{C.coq_option(None if o['label'] is None else C.coq_string(o['label']))})")


def v1_coq_elems(obs):
    return C.coq_list([v1_coq_elem(o) for o in obs])


def v1_real_compile(items):
    """Run the real parse_flow_elements on a deep copy; returns ('ok', obs) | ('err', kind)."""
    from nemoguardrails.colang.v1_0.lang.coyml_parser import parse_flow_elements

    try:
        els = parse_flow_elements(copy.deepcopy(items))
    except Exception as e:  # _resolve_gotos raises plain Exception
        msg = str(e)
        if "already defined" in msg:
            return ("err", "DupLabel")
        if "not defined" in msg:
            return ("err", "UndefLabel")
        return ("exc", type(e).__name__ + ": " + msg[:200])
    return ("ok", els)


def v1_oracle(obs):
    """Independent reading of the property text on real elements: every offset present, and
    every position slide()/compute_next_state() can move to, lands inside the flow."""
    n = len(obs)
    bad = []
    for i, o in enumerate(obs):
        def chk(name, off, lo=0, hi=n, absolute=False):
            if off is None:
                return
            t = off if absolute else i + off
            if not (lo <= t <= hi):
                bad.append({"index": i, "type": o["t"], "field": name, "offset": off, "target": t, "len": n})
        chk("_next", o["next"], lo=-1 if o["abs"] else 0, absolute=o["abs"])
        chk("_next_else", o["else"])
        chk("_next_on_break", o["brk"])
        chk("_next_on_continue", o["cont"])
        for h in o["heads"]:
            chk("branch_heads", h, hi=n - 1)
        if o["t"] == "if" and o["else"] is None:
            bad.append({"index": i, "type": "if", "field": "_next_else", "missing": True})
        if o["t"] == "while" and o["brk"] is None:
            bad.append({"index": i, "type": "while", "field": "_next_on_break", "missing": True})
        if o["t"] == "jump" and o["next"] is None:
            bad.append({"index": i, "type": "jump", "field": "_next", "missing": True})
        if o["t"] in ("label", "goto"):
            bad.append({"index": i, "type": o["t"], "field": "_type", "unresolved": True})
        if o["abs"] and o["t"] != "jump":
            # slide() honours _absolute only on a jump: elsewhere the value is used as an offset
            bad.append({"index": i, "type": o["t"], "field": "_absolute", "unresolved": True})
    return bad


class _Budget(BaseException):
    pass


class _CountingList(list):
    budget = 0

    def __getitem__(self, k):
        self.budget -= 1
        if self.budget < 0:
            raise _Budget()
        return list.__getitem__(self, k)


def v1_slide_probe(rng, elements, tries=2):
    """Run the REAL sliding.slide from every head with random condition values; report any
    IndexError/KeyError/TypeError (an offset leading outside the flow or a missing offset)."""
    from types import SimpleNamespace
    from nemoguardrails.colang.v1_0.runtime import sliding

    problems = []
    runs = 0
    orig = sliding.eval_expression
    sliding.eval_expression = lambda expr, ctx: rng.random() < 0.5
    try:
        for head in range(0, len(elements) + 1):
            for _ in range(tries):
                els = _CountingList(copy.deepcopy(elements))
                els.budget = 400
                cfg = SimpleNamespace(elements=els)
                st = SimpleNamespace(context={}, context_updates={})
                runs += 1
                try:
                    r = sliding.slide(st, cfg, head)
                    if r is not None and r >= len(elements) > 0:
                        problems.append({"head": head, "returned": r})
                except _Budget:
                    pass
                except (IndexError, KeyError, TypeError) as e:
                    problems.append({"head": head, "exception": type(e).__name__ + ": " + str(e)[:100]})
    finally:
        sliding.eval_expression = orig
    return runs, problems


# ---- generators (1.0)

def v1_gen_items(rng, depth, st):
    """Random CoYML item list (python dicts/lists exactly as parse_flow_elements receives them)."""
    items = []
    for _ in range(rng.choice([0, 1, 1, 2, 2, 3, 4])):
        r = rng.random()
        if depth > 0 and r < 0.16:
            d = {"if": rng.choice(["$x", "$x > 1", "True"]), "then": v1_gen_items(rng, depth - 1, st)}
            if rng.random() < 0.6:
                d["else"] = v1_gen_items(rng, depth - 1, st)
            items.append(d)
            st["if"] += 1
        elif depth > 0 and r < 0.30:
            items.append({"while": "$c", "do": v1_gen_items(rng, depth - 1, st)})
            st["while"] += 1
        elif depth > 0 and r < 0.44:
            for _ in range(rng.choice([1, 2, 2, 3])):
                items.append(v1_gen_items(rng, depth - 1, st))
            st["branch"] += 1
        elif r < 0.50:
            items.append({"any": [{"user": rng.choice(["a", "b", "c"])} for _ in range(rng.randint(0, 3))]})
            st["any"] += 1
        else:
            k = rng.randrange(20)
            st["leaf"] += 1
            if k < 3:
                items.append({"user": rng.choice(["greet", "ask x", "bye"])})
            elif k < 6:
                items.append({"bot": rng.choice(["hi", "answer", "stop"])})
            elif k == 6:
                items.append({"run": "act"})
            elif k == 7:
                items.append({"event": "SomeEvent"})
            elif k == 8:
                items.append({"flow": "sub"})
            elif k == 9:
                items.append({"check": "$ok"})
            elif k == 10:
                items.append({rng.choice(["continue", "pass"]): True})
                st["continue"] += 1
            elif k in (11, 12):
                items.append({"break": True})
                st["break"] += 1
            elif k == 13:
                items.append({rng.choice(["stop", "abort"]): True})
            elif k == 14:
                items.append({"return": True})
            elif k == 15 and rng.random() < 0.5:
                items.append({"meta": {"priority": rng.choice([1.5, 2, 0.5])}})     # `priority N` written inside a body
                st["nested_meta"] = st.get("nested_meta", 0) + 1
            elif k == 15:
                items.append({"set": "$v = " + rng.choice(["1", "...", "$v + 1"])})
            elif k in (16, 17):
                name = "L%d" % rng.randrange(4)
                items.append({rng.choice(["label", "checkpoint"]): name})
                st["label"] += 1
            else:
                items.append({"goto": "L%d" % rng.randrange(4)})
                st["goto"] += 1
    return items


def v1_gen_source(rng, st):
    """Random Colang 1.0 source text (goes through the real colang_parser)."""
    lines = []

    def block(ind, depth, in_loop):
        n = rng.choice([1, 1, 2, 3])
        for _ in range(n):
            r = rng.random()
            pad = "  " * ind
            if depth > 0 and r < 0.18:
                lines.append(f"{pad}if $x > {rng.randrange(3)}")
                block(ind + 1, depth - 1, in_loop)
                q = rng.random()
                if q < 0.3:
                    lines.append(f"{pad}else if $y")
                    block(ind + 1, depth - 1, in_loop)
                if q < 0.7:
                    lines.append(f"{pad}else")
                    block(ind + 1, depth - 1, in_loop)
                st["src_if"] += 1
            elif depth > 0 and r < 0.30:
                lines.append(f"{pad}while $c < {rng.randrange(3)}")
                block(ind + 1, depth - 1, True)
                st["src_while"] += 1
            elif depth > 0 and r < 0.42:
                lines.append(f"{pad}when user {rng.choice(['a', 'b'])}")
                block(ind + 1, depth - 1, in_loop)
                for _ in range(rng.choice([0, 1, 1, 2])):
                    lines.append(f"{pad}else when user {rng.choice(['c', 'd', 'e'])}")
                    block(ind + 1, depth - 1, in_loop)
                st["src_when"] += 1
            elif r < 0.48:
                lines.append(f"{pad}user a or user b")
                st["src_any"] += 1
            else:
                k = rng.randrange(14)
                if k < 3:
                    lines.append(f"{pad}user {rng.choice(['greet', 'ask', 'bye'])}")
                elif k < 6:
                    lines.append(f"{pad}bot {rng.choice(['hi', 'answer'])}")
                elif k == 6:
                    lines.append(f"{pad}execute act")
                elif k == 7:
                    lines.append(f"{pad}$v = {rng.choice(['1', '...', '$v + 1'])}")
                elif k == 8 and in_loop:
                    lines.append(f"{pad}break")
                    st["src_break"] += 1
                elif k == 9 and in_loop:
                    lines.append(f"{pad}continue")
                elif k == 10:
                    lines.append(f"{pad}{rng.choice(['stop', 'return', 'pass'])}")
                elif k == 11 and rng.random() < 0.5:
                    lines.append(f"{pad}priority {rng.choice(['1.5', '2', '0.5'])}")
                    st["src_nested_priority"] = st.get("src_nested_priority", 0) + 1
                elif k == 11:
                    lines.append(f"{pad}do sub")
                else:
                    lines.append(f"{pad}bot ok")

    lines.append(rng.choice(["define flow gen", "define flow gen", "define subflow gen"]))
    if rng.random() < 0.4:
        lines.append("  priority 2")
    lines.append("  user start")
    block(1, rng.choice([1, 2, 2, 3]), False)
    if rng.random() < 0.3:
        lines.insert(lines.index("  user start") + 1, "  label top")
        lines.append("  goto top")
        st["src_goto"] += 1
    return "\n".join(lines) + "\n"


class ParserHang(Exception):
    pass


def v1_items_of_source(filename, content, seconds=10):
    """Items per flow from the real 1.0 colang_parser.  The hand-written parser does not terminate
    on some inputs (e.g. a lone `define flow x` line, tests/test_cli_migration.py) - that is C13's
    subject; here such a source is simply not a compiled flow (ParserHang)."""
    import signal

    from nemoguardrails.colang.v1_0.lang.colang_parser import (
        parse_coflows_to_yml_flows,
        parse_snippets_and_imports,
    )

    def _on_alarm(signum, frame):
        raise _Budget()

    old = signal.signal(signal.SIGALRM, _on_alarm)
    signal.setitimer(signal.ITIMER_REAL, seconds)
    try:
        snippets, _imports = parse_snippets_and_imports(filename, content)
        r = parse_coflows_to_yml_flows(filename, content, snippets=snippets, include_source_mapping=True)
        return r["flows"]
    except _Budget:
        raise ParserHang(filename)
    finally:
        signal.setitimer(signal.ITIMER_REAL, 0)
        signal.signal(signal.SIGALRM, old)


def v1_shipped_files():
    from nemoguardrails.colang import _is_colang_v2

    out = []
    for f in sorted(glob.glob(os.path.join(C.REPO, "**", "*.co"), recursive=True)):
        try:
            content = open(f, encoding="utf-8").read()
        except Exception:
            continue
        if _is_colang_v2(content):
            continue
        out.append((os.path.relpath(f, C.REPO), content))
    return out


def v1_inline_test_sources():
    """String constants of tests/**/*.py that look like Colang 1.0 programs."""
    out = []
    for f in sorted(glob.glob(os.path.join(C.REPO, "tests", "**", "*.py"), recursive=True)):
        try:
            tree = pyast.parse(open(f, encoding="utf-8").read())
        except Exception:
            continue
        k = 0
        for node in pyast.walk(tree):
            if isinstance(node, pyast.Constant) and isinstance(node.value, str) and re.search(r"^\s*define (sub)?flow", node.value, re.M) \
                    and node.value.strip().count("\n") >= 1:
                out.append((os.path.relpath(f, C.REPO) + f"#{k}", node.value))
                k += 1
    return out


def v1_runtime_elements(fid, elements):
    """What the Colang 1.0 RUNTIME executes for a compiled flow: the real RuntimeV1_0._load_flow_config
    (last step of loading; handles the meta element) run on a copy of the flow."""
    from types import SimpleNamespace

    from nemoguardrails.colang.v1_0.runtime.runtime import RuntimeV1_0

    stub = SimpleNamespace(flow_configs={})
    RuntimeV1_0._load_flow_config(stub, {"id": fid or "f", "elements": copy.deepcopy(elements)})
    cfgs = list(stub.flow_configs.values())
    return cfgs[0].elements if cfgs else None


def v1_sig(problems):
    p = problems[0]
    if p.get("missing"):
        return f"v1:{p['type']}:missing{p['field']}"
    if p.get("unresolved"):
        return f"v1:{p['type']}:unresolved"
    side = "before-start" if p["target"] < 0 else "past-end"
    return f"v1:{p['type']}:{p['field']}:{side}"


# =======================================================================================
# Colang 2.x
# =======================================================================================

_UID_RE = re.compile(r"_?[0-9a-f]{8}_[0-9a-f]{4}_[0-9a-f]{4}_[0-9a-f]{4}_[0-9a-f]{12}")


def strip_uid(s):
    return _UID_RE.sub("", s or "")


def v2_consts():
    from translator import gen_c12

    return gen_c12.consts()


def v2_expand_source(src, origin):
    """Parse + expand every flow of a 2.x source exactly as initialize_state does per flow.
    Returns ([(flow_id, FlowConfig)], [(flow_id, error)])."""
    from nemoguardrails.colang import parse_colang_file
    from nemoguardrails.colang.v2_x.runtime.flows import FlowConfig, State
    from nemoguardrails.colang.v2_x.runtime.runtime import create_flow_configs_from_flow_list
    from nemoguardrails.colang.v2_x.runtime.statemachine import initialize_flow

    parsed = parse_colang_file(filename=origin, content=src, include_source_mapping=True, version="2.x")
    flows = parsed.get("flows", []) if parsed else []
    try:
        cfgs = create_flow_configs_from_flow_list(flows)
    except Exception:
        cfgs = {}
        for i, fl in enumerate(flows):
            try:
                cfgs.update(create_flow_configs_from_flow_list([fl]))
            except Exception:
                cfgs[f"{fl.name}#{i}"] = FlowConfig(id=fl.name, elements=fl.elements, parameters=fl.parameters,
                                                    return_members=fl.return_members, source_code=fl.source_code)
    state = State(flow_states=[], flow_configs=cfgs)
    ok, rejected = [], []
    for fid, cfg in cfgs.items():
        try:
            initialize_flow(state, cfg)
            ok.append((fid, cfg))
        except Exception as e:  # the loader rejects this flow (ColangSyntaxError ...): not a compiled flow
            rejected.append((fid, type(e).__name__ + ": " + str(e)[:120]))
    return ok, rejected


IGNORED = "<ignored>"


def v2_noop_dict(e):
    t = e.get("_type")
    return t in ("doc_string_stmt", "pass_stmt") or (t == "stmt" and not e.get("elements"))


def v2_abstract(elements, consts, labels=None):
    """REAL expanded elements -> ClosedAst elements (python tuples), fail-closed: whatever slide()
    does not handle as a primitive becomes ('composite', what).
    `labels` = the REAL FlowConfig.element_labels: a Label element counts as a jump target only if
    the index maps its name to its position (the model looks labels up by last occurrence, so the
    model's table then equals the runtime's); an index entry that does not point to a Label of that
    name is not representable and becomes a composite."""
    from nemoguardrails.colang.v2_x.runtime.flows import InternalEvents
    from nemoguardrails.colang.v2_x.lang.colang_ast import Spec

    out = []
    for e in elements:
        cn = type(e).__name__
        if isinstance(e, dict):
            # raw parse-tree leftovers (doc strings, `pass`, empty statements): slide()'s final
            # else steps over them; any other raw dict is not a primitive
            if consts["slide_ignores_unknown"] and v2_noop_dict(e):
                out.append(("plain", IGNORED))
            else:
                out.append(("composite", "dict:" + str(e.get("_type"))))
        elif cn not in consts["slide_classes"]:
            out.append(("composite", cn))
        elif cn == "SpecOp":
            if not isinstance(e.spec, Spec):
                out.append(("composite", "SpecOp:" + str(e.op) + ":group"))
            elif e.op == "match":
                out.append(("block",))
            elif e.op in consts["slide_sliding_ops"]:
                if e.op == "send" and not (e.spec.name in InternalEvents.ALL and e.spec.members is None):
                    out.append(("block",))
                else:
                    out.append(("plain", "SpecOp"))
            else:
                out.append(("composite", "SpecOp:" + str(e.op)))
        elif cn == "Label":
            if labels is None or labels.get(e.name) == len(out):
                out.append(("label", e.name))
            else:
                out.append(("plain", "Label"))      # not (or no longer) in the label index: never a target
        elif cn == "Goto":
            out.append(("goto", e.label, e.expression != "True"))
        elif cn == "ForkHead":
            out.append(("fork", e.fork_uid, list(e.labels)))
        elif cn == "MergeHeads":
            out.append(("merge", e.fork_uid))
        elif cn == "WaitForHeads":
            out.append(("wait",))
        elif cn == "CatchPatternFailure":
            out.append(("catch", e.label))
        elif cn == "Break":
            out.append(("break", e.label))
        elif cn == "Continue":
            out.append(("continue", e.label))
        elif cn == "BeginScope":
            out.append(("begin", e.name))
        elif cn == "EndScope":
            out.append(("end", e.name))
        elif cn == "Abort":
            out.append(("abort",))
        elif cn == "Return":
            out.append(("return",))
        elif cn in ("Assignment", "Log", "Print", "Priority", "Global"):
            out.append(("plain", cn))
        else:
            out.append(("composite", cn))
    if labels is not None:
        for name, idx in labels.items():
            if not (isinstance(idx, int) and 0 <= idx < len(elements) and type(elements[idx]).__name__ == "Label"
                    and elements[idx].name == name):
                out.append(("composite", "bad-label-index"))
                break
    return out


def v2_rename(model):
    """Injective renaming of labels / scopes / fork uids to short names (first occurrence)."""
    tbl = {}

    def nm(kind, s):
        if s is None:
            return None
        k = (kind, s)
        if k not in tbl:
            tbl[k] = "%s%d" % (kind, len(tbl))
        return tbl[k]

    out = []
    for e in model:
        k = e[0]
        if k == "label":
            out.append(("label", nm("l", e[1])))
        elif k == "goto":
            out.append(("goto", nm("l", e[1]), e[2]))
        elif k == "fork":
            out.append(("fork", nm("f", e[1]), [nm("l", x) for x in e[2]]))
        elif k == "merge":
            out.append(("merge", nm("f", e[1])))
        elif k in ("catch", "break", "continue"):
            out.append((k, nm("l", e[1])))
        elif k in ("begin", "end"):
            out.append((k, nm("s", e[1])))
        else:
            out.append(e)
    return out


def v2_coq_elem(e):
    k = e[0]
    s = C.coq_string

    def os_(x):
        return C.coq_option(None if x is None else s(x))

    if k == "label":
        return f"ELabel {s(e[1])}"
    if k == "goto":
        return f"EGoto {s(e[1])} {C.coq_bool(e[2])}"
    if k == "fork":
        return f"EFork {s(e[1])} {C.coq_list([s(x) for x in e[2]])}"
    if k == "merge":
        return f"EMerge {s(e[1])}"
    if k == "wait":
        return "EWait"
    if k == "catch":
        return f"ECatch {os_(e[1])}"
    if k == "break":
        return f"EBreak {os_(e[1])}"
    if k == "continue":
        return f"EContinue {os_(e[1])}"
    if k == "begin":
        return f"EBegin {s(e[1])}"
    if k == "end":
        return f"EEnd {s(e[1])}"
    if k == "abort":
        return "EAbort"
    if k == "return":
        return "EReturn"
    if k == "block":
        return "EBlock"
    if k == "plain":
        return f"EPlain {s(e[1])}"
    return f"EComposite {s(e[1])}"


def v2_coq(model):
    return C.coq_list([v2_coq_elem(e) for e in v2_rename(model)])


def v2_oracle(cfg, consts, max_states=200000):
    """The three closedness conditions computed independently on the REAL elements, with the
    REAL label table FlowConfig.element_labels.  Returns None (closed) or a dict describing the
    first problem: kind, position, detail, trace (positions)."""
    from nemoguardrails.colang.v2_x.lang import colang_ast as A
    from nemoguardrails.colang.v2_x.runtime.flows import InternalEvents

    els = cfg.elements
    labels = cfg.element_labels
    n = len(els)
    prim = set(consts["slide_classes"])

    # 1. static: label targets, composites, merge uids
    fork_uids = {e.fork_uid for e in els if isinstance(e, A.ForkHead)}
    for i, e in enumerate(els):
        cn = type(e).__name__
        if isinstance(e, dict):
            if e.get("_type") in ("doc_string_stmt", "pass_stmt") or (e.get("_type") == "stmt" and e.get("elements") in ([], None)):
                continue
            return {"kind": "composite-left", "pos": i, "detail": "dict:" + str(e.get("_type"))}
        if cn not in prim:
            return {"kind": "composite-left", "pos": i, "detail": cn}
        if isinstance(e, A.SpecOp):
            if not isinstance(e.spec, A.Spec):
                return {"kind": "composite-left", "pos": i, "detail": f"SpecOp:{e.op}:group"}
            if e.op not in ("match",) + tuple(consts["slide_sliding_ops"]):
                return {"kind": "composite-left", "pos": i, "detail": f"SpecOp:{e.op}"}
        refs = []
        if isinstance(e, A.Goto):
            refs = [e.label]
        elif isinstance(e, A.ForkHead):
            refs = list(e.labels)
        elif isinstance(e, (A.CatchPatternFailure, A.Break, A.Continue)) and e.label is not None:
            refs = [e.label]
        if isinstance(e, (A.Break, A.Continue)) and e.label is None:
            # a loop exit / loop head jump that refers to nothing (slide() silently skips it)
            return {"kind": "loop-exit-without-target", "pos": i, "detail": cn.lower(), "element": cn}
        for l in refs:
            if l not in labels or not (0 <= labels[l] < n) or not isinstance(els[labels[l]], A.Label):
                return {"kind": "undefined-label", "pos": i, "detail": strip_uid(l), "element": cn}
        if isinstance(e, A.MergeHeads) and e.fork_uid not in fork_uids:
            return {"kind": "merge-without-fork", "pos": i, "detail": ""}

    # 2. dynamic: all paths of one head token
    start = (0, (), ())
    seen = {start: None}
    todo = [start]

    def trace(c):
        t = []
        while c is not None:
            t.append(c[0])
            c = seen[c]
        return t[::-1]

    def problem(kind, c, detail):
        return {"kind": kind, "pos": c[0], "detail": detail, "trace": trace(c)}

    while todo:
        c = todo.pop()
        p, sc, ct = c
        if len(seen) > max_states:
            return problem("state-space", c, "exploration budget exceeded")
        succ = []
        if p >= n:
            if sc:
                return problem("scope-left-open", c, strip_uid(sc[-1]))
            continue
        e = els[p]

        def jump(l):
            return (labels[l] + 1, sc, ct)

        if isinstance(e, A.Goto):
            succ.append(jump(e.label))
            if e.expression != "True":
                succ.append((p + 1, sc, ct))
        elif isinstance(e, A.ForkHead):
            succ += [jump(l) for l in e.labels]
        elif isinstance(e, A.CatchPatternFailure):
            if e.label is None:
                if not ct:
                    return problem("catch-underflow", c, "")
                succ.append((p + 1, sc, ct[:-1]))
            else:
                succ.append((p + 1, sc, ct + (e.label,)))
        elif isinstance(e, (A.Break, A.Continue)):
            succ.append((p + 1, sc, ct) if e.label is None else jump(e.label))
        elif isinstance(e, A.BeginScope):
            if e.name in sc:
                return problem("scope-reopened", c, strip_uid(e.name))
            succ.append((p + 1, sc + (e.name,), ct))
        elif isinstance(e, A.EndScope):
            if e.name not in sc:
                return problem("scope-unknown", c, strip_uid(e.name))
            succ.append((p + 1, tuple(x for x in sc if x != e.name), ct))
        elif isinstance(e, A.Abort):
            if ct:
                succ.append(jump(ct[-1]))
        elif isinstance(e, A.Return):
            succ.append((n, sc, ct))
        elif isinstance(e, A.SpecOp) and (e.op == "match" or (
                e.op == "send" and not (e.spec.name in InternalEvents.ALL and e.spec.members is None))):
            succ.append((p + 1, sc, ct))
            if ct:
                succ.append(jump(ct[-1]))
        else:
            succ.append((p + 1, sc, ct))
        for s in succ:
            if s not in seen:
                seen[s] = c
                todo.append(s)
    return None


def v2_sig(cfg, prob):
    """Signature of the defect class: what fails + in the expansion of which construct."""
    kind = prob["kind"]
    names = []
    for p in prob.get("trace", [prob["pos"]]):
        if p < len(cfg.elements):
            e = cfg.elements[p]
            for a in ("name", "label"):
                v = getattr(e, a, None)
                if isinstance(v, str):
                    names.append(strip_uid(v))
            names += [strip_uid(x) for x in getattr(e, "labels", []) or []]
    construct = "other"
    joined = " ".join(names)
    if kind in ("composite-left", "undefined-label", "merge-without-fork", "loop-exit-without-target"):
        construct = re.sub(r"[^A-Za-z0-9_:]", "_", prob["detail"])[:40] or "x"
        construct = re.sub(r"_[a-z]_(\d+_)?label$", "_label", construct)
    elif "when_else_statement_label" in joined or "when_else_label" in joined:
        construct = "when-else"
    elif "init_case" in joined or "when_end_label" in joined:
        construct = "when"
    elif "failure_label" in joined or "end_label" in joined or "group_" in joined:
        construct = "group"
    if kind in ("scope-left-open", "scope-reopened"):
        kind = "scope-not-closed"      # two symptoms of one defect class: a path that misses the EndScope
    return f"v2:{kind}:{construct}"


# ---- sources (2.x)

def v2_shipped_sources():
    from nemoguardrails.colang import _is_colang_v2

    out = []
    for f in sorted(glob.glob(os.path.join(C.REPO, "**", "*.co"), recursive=True)):
        try:
            content = open(f, encoding="utf-8").read()
        except Exception:
            continue
        if not _is_colang_v2(content):
            continue
        out.append((os.path.relpath(f, C.REPO), content))
    return out


def v2_inline_test_sources():
    """String constants of tests/v2_x/*.py that look like Colang 2 programs."""
    out = []
    for f in sorted(glob.glob(os.path.join(C.REPO, "tests", "v2_x", "*.py"))):
        try:
            tree = pyast.parse(open(f, encoding="utf-8").read())
        except Exception:
            continue
        k = 0
        for node in pyast.walk(tree):
            if isinstance(node, pyast.Constant) and isinstance(node.value, str) and re.search(r"^\s*flow \w", node.value, re.M):
                out.append((os.path.relpath(f, C.REPO) + f"#{k}", node.value))
                k += 1
    return out


def v2_gen_program(rng, st):
    """Random Colang 2 program: sub flows that finish or fail on events, and a main flow with
    nested if/while/when(or when/else), groups with and/or, start/await/activate, break/continue,
    user labels, return/abort."""
    L = []
    subs_ok = ["a ok", "b ok"]
    subs_fail = ["a fail", "b fail"]
    L += ["flow a ok", "  match EvA()", "flow b ok", "  match EvB()",
          "flow a fail", "  match EvF()", "  abort", "flow b fail", "  match EvG()", "  abort",
          "flow c act", "  match EvC()", "  send Act()"]

    def spec(kind):
        r = rng.random()
        if kind == "flowish":
            if r < 0.4:
                return rng.choice(subs_ok + subs_fail)
            if r < 0.7:
                return rng.choice(["EvX()", "EvY()"])
            if r < 0.85:
                return "UtteranceBotAction(script=\"hi\")"
            return rng.choice(subs_fail)
        if kind == "event":
            return rng.choice(["EvX()", "EvY()", "EvZ()"])
        return rng.choice(subs_ok + subs_fail)

    def group(kind, depth=2):
        r = rng.random()
        if depth == 0 or r < 0.45:
            return spec(kind)
        op = rng.choice(["and", "or"])
        a, b = group(kind, depth - 1), group(kind, depth - 1)
        st["group_" + op] += 1
        return f"({a} {op} {b})" if rng.random() < 0.5 and depth < 2 else f"{a} {op} {b}"

    def block(ind, depth, in_loop):
        pad = "  " * ind
        n_st = rng.choice([1, 1, 2, 2, 3])
        # inside a loop every block of every nested construct (if/elif/else, each when case, when-else,
        # nested loop bodies) gets, with probability 1/3, a break/continue at a random statement
        # position (also directly after a group statement)
        jump_at = rng.randrange(n_st + 1) if in_loop and rng.random() < 0.34 else None
        for j_ in range(n_st + 1):
            if jump_at == j_:
                w = rng.choice(["break", "continue"])
                L.append(f"{pad}{w}")
                st[w] += 1
                st["jump_in_nested_block"] += 1 if ind > 2 else 0
            if j_ == n_st:
                break
            r = rng.random()
            if depth > 0 and r < 0.15:
                L.append(f"{pad}if $v < {rng.randrange(3)}")
                block(ind + 1, depth - 1, in_loop)
                q = rng.random()
                if q < 0.3:
                    L.append(f"{pad}elif $v == 1")
                    block(ind + 1, depth - 1, in_loop)
                if q < 0.7:
                    L.append(f"{pad}else")
                    block(ind + 1, depth - 1, in_loop)
                st["if"] += 1
            elif depth > 0 and r < 0.30:
                L.append(f"{pad}while $v < {rng.randrange(1, 4)}")
                L.append(f"{pad}  $v = $v + 1")
                block(ind + 1, depth - 1, True)
                st["while"] += 1
            elif depth > 0 and r < 0.50:
                L.append(f"{pad}when {group('flowish', 1)}")
                block(ind + 1, depth - 1, in_loop)
                for _ in range(rng.choice([0, 0, 1, 2])):
                    L.append(f"{pad}or when {group('flowish', 1)}")
                    block(ind + 1, depth - 1, in_loop)
                    st["orwhen"] += 1
                if rng.random() < 0.5:
                    L.append(f"{pad}else")
                    block(ind + 1, depth - 1, in_loop)
                    st["when_else"] += 1
                st["when"] += 1
            else:
                k = rng.randrange(16)
                if k < 2:
                    L.append(f"{pad}send Out{rng.randrange(3)}()")
                elif k < 4:
                    L.append(f"{pad}match {group('event')}")
                    st["match"] += 1
                elif k < 6:
                    L.append(f"{pad}await {group('flow')}")
                    st["await"] += 1
                elif k == 6:
                    L.append(f"{pad}start {group('flow', 1)}")
                    st["start"] += 1
                elif k == 7:
                    L.append(f"{pad}start {rng.choice(subs_ok)} as $r{rng.randrange(3)}")
                elif k == 8:
                    L.append(f"{pad}activate c act")
                    st["activate"] += 1
                elif k == 9:
                    L.append(f"{pad}$v = $v + 1")
                elif k in (10, 11) and in_loop:
                    w = rng.choice(["break", "continue"])
                    L.append(f"{pad}{w}")
                    st[w] += 1
                elif k == 12:
                    L.append(f"{pad}lab{rng.randrange(3)}:")
                    L.append(f"{pad}send Lab()")      # a block of a single label is rejected by the parser
                    st["label"] += 1
                elif k == 13 and rng.random() < 0.3:
                    L.append(f"{pad}{rng.choice(['return', 'abort'])}")
                elif k == 14:
                    L.append(f"{pad}await UtteranceBotAction(script=\"x\")")
                else:
                    L.append(f"{pad}send Done()")

    L.append("flow main")
    L.append("  $v = 0")
    block(1, rng.choice([1, 2, 2, 3]), False)
    L.append("  send End()")
    L.append("  match Never()")
    return "\n".join(L) + "\n"


# ---- expansion model correspondence (fragment of V2/Expand.v)

def _dnf(t):
    """Disjunctive normal form of a group tree, in the order normalize_element_groups produces it."""
    if t[0] == "atom":
        return [[t[1]]]
    if t[0] == "or":
        out = []
        for c in t[1]:
            out += _dnf(c)
        return out
    res = [[]]
    for c in t[1]:
        n = _dnf(c)
        res = [r + x for r in res for x in n]
    return res


def _group_src(t, top=True):
    if t[0] == "atom":
        return t[2]
    s = f" {t[0]} ".join(_group_src(c, False) for c in t[1])
    return s if top else f"({s})"


def _gen_group(rng, atoms, depth=2):
    """Random and/or tree over (kind, source text) atoms; sub-groups always parenthesised."""
    if depth == 0 or rng.random() < 0.4:
        k, src = rng.choice(atoms)
        return ("atom", k, src)
    op = rng.choice(["and", "or"])
    return (op, [_gen_group(rng, atoms, depth - 1 if rng.random() < 0.7 else 0) for _ in range(rng.choice([2, 2, 3]))])


FRAG_PRELUDE = "flow a\n  match EvA()\nflow b\n  match EvB()\nflow c\n  match EvC()\n  abort\n"
EV_ATOMS = [("event", "EvA()"), ("event", "EvB()"), ("event", "EvC()"), ("event", "EvD()")]
RUN_ATOMS = [("flow", "a"), ("flow", "b"), ("flow", "c"), ("action", 'UtteranceBotAction(script="x")'),
             ("action", 'TimerBotAction(timer_name="t", duration=1.0)')]


def v2_gen_fragment(rng, st):
    """(source, stmt tree) of a random program inside the fragment V2/Expand.v models."""
    L = [FRAG_PRELUDE + "flow main", "  $v = 0"]

    def block(ind, depth, in_loop, is_else=False):
        pad = "  " * ind
        out = []
        n = rng.choice([1, 1, 2, 2, 3])
        jump_at = rng.randrange(n + 1) if in_loop and rng.random() < 0.34 else None
        for j in range(n + 1):
            if jump_at == j:
                w = rng.choice(["break", "continue"])
                L.append(f"{pad}{w}")
                out.append((w,))
                st["x_" + w] += 1
            if j == n:
                break
            r = rng.random()
            if depth > 0 and r < 0.15 and not (is_else and j == 0 and jump_at != 0):
                L.append(f"{pad}if $v < {rng.randrange(3)}")
                th = block(ind + 1, depth - 1, in_loop)
                elifs = []
                for _ in range(rng.choice([0, 0, 0, 1, 2])):
                    L.append(f"{pad}elif $v == {rng.randrange(3)}")
                    elifs.append(block(ind + 1, depth - 1, in_loop))
                    st["x_elif"] += 1
                el = []
                if rng.random() < 0.6:
                    L.append(f"{pad}else")
                    el = block(ind + 1, depth - 1, in_loop, True)
                # the transformer turns `elif` into an If that is the whole else branch of the previous one
                for body in reversed(elifs):
                    el = [("if", body, el)]
                out.append(("if", th, el))
                st["x_if"] += 1
            elif depth > 0 and r < 0.28:
                L.append(f"{pad}while $v < {rng.randrange(1, 4)}")
                out.append(("while", block(ind + 1, depth - 1, True)))
                st["x_while"] += 1
            elif depth > 0 and r < 0.44:
                cases = []
                for ci in range(rng.choice([1, 1, 2, 3])):
                    # trigger: one event / flow / action, or an and-group of them
                    members = [rng.choice(EV_ATOMS + RUN_ATOMS) for _ in range(rng.choice([1, 1, 1, 2, 3]))]
                    L.append(f"{pad}{'when' if ci == 0 else 'or when'} " + " and ".join(m[1] for m in members))
                    cases.append(([m[0] for m in members], block(ind + 1, depth - 1, in_loop)))
                    for m in members:
                        st["x_case_" + m[0]] += 1
                    st["x_case_and_group"] += 1 if len(members) > 1 else 0
                els = None
                if rng.random() < 0.55:
                    L.append(f"{pad}else")
                    els = block(ind + 1, depth - 1, in_loop, True)
                    st["x_when_else"] += 1
                out.append(("when", cases, els))
                st["x_when"] += 1
            else:
                k = rng.randrange(16)
                if k < 2:
                    L.append(f"{pad}$v = $v + 1")
                    out.append(("plain",))
                elif k < 4:
                    L.append(f"{pad}" + rng.choice(["match EvX()", "send Out1()"]))
                    out.append(("block",))
                elif k < 7:
                    g = _gen_group(rng, EV_ATOMS)
                    L.append(f"{pad}match {_group_src(g)}")
                    out.append(("match", [len(x) for x in _dnf(g)]))
                    st["x_match"] += 1
                elif k < 9:
                    g = _gen_group(rng, RUN_ATOMS)
                    L.append(f"{pad}start {_group_src(g)}")
                    out.append(("start", _dnf(g)))
                    st["x_start"] += 1
                elif k < 12:
                    g = _gen_group(rng, RUN_ATOMS)
                    L.append(f"{pad}{rng.choice(['await ', 'await ', '' if g[0] == 'atom' and g[1] == 'flow' else 'await '])}{_group_src(g)}")
                    out.append(("await", _dnf(g)))
                    st["x_await"] += 1
                elif k == 12:
                    m = rng.choice([1, 1, 2, 3])
                    L.append(f"{pad}activate " + " and ".join(rng.choice(["a", "b"]) for _ in range(m)))
                    out.append(("activate", m))
                    st["x_activate"] += 1
                elif k == 13 and rng.random() < 0.4:
                    w = rng.choice(["return", "abort"])
                    L.append(f"{pad}{w}")
                    out.append((w,))
                else:
                    L.append(f"{pad}$v = $v + 1")
                    out.append(("plain",))
        return out

    tree = [("plain",)] + block(1, rng.choice([1, 2, 2, 3, 3]), False)
    return "\n".join(L) + "\n", tree


def _coq_atoms(g):
    return C.coq_list([{"flow": "AFlow", "action": "AAction"}[a] for a in g])


def v2_coq_stmts(tree):
    out = []
    for s in tree:
        k = s[0]
        if k in ("plain", "block", "break", "continue", "return", "abort"):
            out.append("S" + k.capitalize())
        elif k == "if":
            out.append(f"SIf {v2_coq_stmts(s[1])} {v2_coq_stmts(s[2])}")
        elif k == "while":
            out.append(f"SWhile {v2_coq_stmts(s[1])}")
        elif k == "match":
            out.append("SMatch " + C.coq_list([str(x) for x in s[1]]))
        elif k == "start":
            out.append("SStart " + C.coq_list([_coq_atoms(g) for g in s[1]]))
        elif k == "await":
            out.append("SAwait " + C.coq_list([_coq_atoms(g) for g in s[1]]))
        elif k == "activate":
            out.append(f"SActivate {s[1]}")
        else:
            els = "None" if s[2] is None else f"(Some {v2_coq_stmts(s[2])})"
            trig = {"event": "MEvent", "flow": "MFlow", "action": "MAction"}
            out.append("SWhen " + C.coq_list([f"({C.coq_list([trig[m] for m in c[0]])}, {v2_coq_stmts(c[1])})" for c in s[1]]) + f" {els}")
    return C.coq_list(out)


# ---- every statement kind x every group shape x every member kind x every position, INCLUDING the
#      combinations the unchanged loader rejects: a compiled flow must be "rejected by the loader OR closed"

def v2_gen_exotic():
    ops = ["send", "match", "start", "stop", "activate", "deactivate", "await"]
    shapes = ["{0}", "{0} and {1}", "{0} or {1}", "({0} and {1}) or {2}", "{0} or ({1} and {2})", "{0} and ({1} or {2})",
              "({0} or {1}) and ({2} or {0})"]
    kinds = {
        "event": ["EvA()", "EvB()", "EvC()"],
        "flow": ["a", "b", "c"],
        "action": ['UtteranceBotAction(script="x")', 'TimerBotAction(timer_name="t", duration=1.0)', 'UtteranceBotAction(script="y")'],
        "mixed": ["a", "EvB()", 'UtteranceBotAction(script="x")'],
    }
    contexts = {
        "top": "  {s}\n",
        "if": "  if $v < 1\n    {s}\n  else\n    $v = 1\n    {s}\n",
        "while": "  while $v < 2\n    $v = $v + 1\n    {s}\n    break\n",
        "when": "  when EvX()\n    {s}\n  or when a\n    {s}\n",
        "when-else": "  when EvX()\n    $v = 1\n  else\n    {s}\n",
    }
    out = []
    for op in ops:
        for si, shape in enumerate(shapes):
            for kn, atoms in kinds.items():
                stmt = op + " " + shape.format(*atoms)
                for cn, ctx in contexts.items():
                    out.append((f"exotic:{op}:{si}:{kn}:{cn}",
                                FRAG_PRELUDE + "flow main\n  $v = 0\n" + ctx.format(s=stmt) + "  send End()\n  match Never()\n"))
    return out


# ---- flows added at RUNTIME (AddFlowsAction -> RuntimeV2_x._add_flows_action): the other loader

ADD_BASE = (FRAG_PRELUDE + "flow a ok\n  match EvA()\nflow b ok\n  match EvB()\nflow a fail\n  match EvF()\n  abort\n"
            "flow b fail\n  match EvG()\n  abort\nflow c act\n  match EvC()\n  send Act()\nflow main\n  match Never()\n")


def v2_added_source(src):
    """The main flow of a generated program as a flow to be added at runtime."""
    i = src.rfind("flow main")
    return "flow added flow" + src[i + len("flow main"):]


def v2_add_at_runtime(sources):
    """Drive the REAL RuntimeV2_x._add_flows_action (the body of AddFlowsAction) with a real State, as
    the action dispatcher does, for each (origin, flow source); yields (origin, source, flow_id, FlowConfig)
    of every flow it put into state.flow_configs."""
    import asyncio

    from harness import v2util
    from nemoguardrails.colang.v2_x.runtime.runtime import RuntimeV2_x

    state = v2util.init_state(ADD_BASE)
    base = set(state.flow_configs)
    loop = asyncio.new_event_loop()
    try:
        for origin, src in sources:
            try:
                names = loop.run_until_complete(RuntimeV2_x._add_flows_action(None, state, config=src))
            except Exception as e:  # the runtime loader rejects the source
                yield origin, src, None, type(e).__name__ + ": " + str(e)[:100]
                continue
            for name in names:
                yield origin, src, name, state.flow_configs[name]
            for k in list(state.flow_configs):
                if k not in base:
                    del state.flow_configs[k]
    finally:
        loop.close()


def v2_added_child(path):
    """Child process: end-to-end confirmation - a bot whose main flow loads the flow through
    AddFlowsAction and then awaits it; reports ColangError events, 'Invalid label' warnings of slide()
    and whether the added flow's label index resolves its own labels."""
    import logging

    logging.disable(logging.CRITICAL)
    sys.path.insert(2, os.path.join(C.REPO))
    from nemoguardrails import RailsConfig
    from nemoguardrails.colang.v2_x.runtime import statemachine as sm
    from tests.utils import TestChat

    import signal

    class _JobTimeout(BaseException):
        pass

    def _on_alarm(signum, frame):
        raise _JobTimeout()

    signal.signal(signal.SIGALRM, _on_alarm)
    jobs = json.load(open(path))
    results = []
    for job in jobs:
        errors, warns = [], []
        orig_push, orig_warn = sm._push_internal_event, sm.log.warning
        signal.setitimer(signal.ITIMER_REAL, 20.0)

        def rec(state, event, _o=orig_push):
            if getattr(event, "name", None) == "ColangError":
                errors.append([event.arguments.get("type"), str(event.arguments.get("error"))[:160]])
            return _o(state, event)

        def warn(msg, *a, **k):
            if "Invalid label" in str(msg):
                warns.append(strip_uid(str(msg) % a if a else str(msg))[:120])

        sm._push_internal_event, sm.log.warning = rec, warn
        status, outs, unindexed = "ok", [], None
        try:
            config = RailsConfig.from_content(
                colang_content=ADD_BASE.replace("flow main\n  match Never()\n", "") +
                'flow main\n  match UtteranceUserAction().Finished(final_transcript="start")\n'
                "  $flows = await AddFlowsAction(config=$new_flow_content)\n  await added flow\n  send AddedFlowDone()\n  match Never()\n",
                yaml_content='colang_version: "2.x"\n')
            chat = TestChat(config, llm_completions=[])
            chat.state.main_flow_state.context["new_flow_content"] = job["src"]
            chat >> "start"
            from nemoguardrails.utils import new_event_dict

            pending = [{"type": ev} for ev in job.get("events", [])]
            for _ in range(8):
                if not chat.input_events:
                    if not pending:
                        break
                    chat.input_events.append(pending.pop(0))
                output_events, chat.state = chat.app.process_events(chat.input_events, chat.state)
                chat.input_events = []
                for event in output_events:
                    outs.append(event["type"] + (":" + str(event.get("script")) if event["type"] == "StartUtteranceBotAction" else ""))
                    if event["type"] == "StartUtteranceBotAction":
                        chat.input_events.append(new_event_dict("UtteranceBotActionStarted", action_uid=event["action_uid"]))
                        chat.input_events.append(new_event_dict("UtteranceBotActionFinished", action_uid=event["action_uid"],
                                                                is_success=True, final_script=event["script"]))
            st = chat.state
            if st is not None and "added flow" in st.flow_configs:
                fc = st.flow_configs["added flow"]
                unindexed = sum(1 for i, e in enumerate(fc.elements)
                                if type(e).__name__ == "Label" and fc.element_labels.get(e.name) is None)
            else:
                status = "not-added"
        except BaseException as e:
            status = "exc:" + type(e).__name__ + ":" + str(e)[:100]
        finally:
            signal.setitimer(signal.ITIMER_REAL, 0)
            sm._push_internal_event, sm.log.warning = orig_push, orig_warn
        results.append({"id": job["id"], "status": status, "errors": errors, "invalid_label_warnings": warns[:5],
                        "labels_missing_from_index": unindexed, "outputs": outs[:12]})
    json.dump(results, open(path + ".out", "w"))


def v2_added_dynamic(jobs, timeout_s=240):
    os.makedirs(os.path.join(C.BUILD, "c12"), exist_ok=True)
    if not jobs:
        return {}
    p = os.path.join(C.BUILD, "c12", f"added_{os.getpid()}.json")
    json.dump(jobs, open(p, "w"))
    C.sh(["timeout", str(timeout_s), C.PY, "-c",
          "import sys; sys.path.insert(0, %r); sys.path.insert(1, %r); "
          "from harness import c12; c12.v2_added_child(%r)" % (C.VERIF, C.REPO, p)],
         timeout=timeout_s + 30, env=C.impl_env())
    res = {}
    if os.path.exists(p + ".out"):
        for x in json.load(open(p + ".out")):
            res[x["id"]] = x
        os.remove(p + ".out")
    os.remove(p)
    return res


EVENTS = ["EvA", "EvB", "EvF", "EvG", "EvC", "EvX", "EvY", "EvZ"]
# runtime errors of slide() that mean "not closed": a label lookup that fails (KeyError whose key
# is a label name as expansion.py spells them), the two scope errors, pop from an empty handler stack
_LABELISH = re.compile(r"label|_while_|group_\d|event_\d")


def v2_dynamic_child(path):
    """Child process: run the real interpreter on programs x event sequences; report the
    ColangError events raised by slide() that concern closedness."""
    _quiet()
    from harness import v2util
    from nemoguardrails.colang.v2_x.runtime import statemachine as sm

    import signal

    class _JobTimeout(BaseException):   # BaseException: not swallowed by the interpreter's `except Exception`
        pass

    def _on_alarm(signum, frame):
        raise _JobTimeout()

    signal.signal(signal.SIGALRM, _on_alarm)
    jobs = json.load(open(path))
    results = []
    for job in jobs:
        errors = []
        orig = sm._push_internal_event

        def rec(state, event, _orig=orig, _errors=errors):
            if getattr(event, "name", None) == "ColangError":
                _errors.append((event.arguments.get("type"), str(event.arguments.get("error"))[:160]))
            return _orig(state, event)

        sm._push_internal_event = rec
        outs = []
        status = "ok"
        signal.setitimer(signal.ITIMER_REAL, 8.0)
        try:
            state = v2util.init_state(job["src"])
            state = v2util.start_main(state)
            outs.append(v2util.out_types(state))
            for ev in job["events"]:
                if ev == "*finish-actions*":
                    acts = [a for a in state.actions.values() if a.status.name in ("STARTED", "STARTING")]
                    for a in acts[:3]:
                        state = v2util.step(state, {"type": a.name + "Finished", "action_uid": a.uid,
                                                    "is_success": True, "final_script": "x"})
                        outs.append(v2util.out_types(state))
                    continue
                state = v2util.step(state, {"type": ev})
                outs.append(v2util.out_types(state))
            main_status = [fs.status.name for fs in state.flow_states.values() if fs.flow_id == "main"]
        except Exception as e:
            status = "exc:" + type(e).__name__ + ":" + str(e)[:120]
            main_status = []
        except BaseException as e:   # _JobTimeout / VerifStepBudgetExceeded: the run does not terminate
            status = "nonterminating:" + type(e).__name__
            main_status = []
        finally:
            signal.setitimer(signal.ITIMER_REAL, 0)
            sm._push_internal_event = orig
        results.append({"id": job["id"], "status": status, "errors": errors, "outs": outs, "main": main_status})
    json.dump(results, open(path + ".out", "w"))


def v2_dynamic(jobs, timeout_s=400):
    """Run jobs in child processes (chunks of 40) under a shell timeout. Returns {id: result}."""
    os.makedirs(os.path.join(C.BUILD, "c12"), exist_ok=True)
    res = {}
    # corpus / replay programs get their own small chunks (their result must not depend on a slow neighbour)
    first = [j for j in jobs if j["id"].startswith(("corpus", "replay"))]
    rest = [j for j in jobs if not j["id"].startswith(("corpus", "replay"))]
    chunks = [first[i:i + 6] for i in range(0, len(first), 6)] + [rest[i:i + 20] for i in range(0, len(rest), 20)]

    def one(ic):
        i, chunk = ic
        p = os.path.join(C.BUILD, "c12", f"dyn_{os.getpid()}_{i}.json")
        json.dump(chunk, open(p, "w"))
        rc, out = C.sh(["timeout", str(timeout_s), C.PY, "-c",
                        "import sys; sys.path.insert(0, %r); sys.path.insert(1, %r); "
                        "from harness import c12; c12.v2_dynamic_child(%r)" % (C.VERIF, C.REPO, p)],
                       timeout=timeout_s + 30, env={**C.impl_env(), "NEMO_GUARDRAILS_VERIF_MAX_STEPS": "20000"})
        r = {}
        if os.path.exists(p + ".out"):
            for x in json.load(open(p + ".out")):
                r[x["id"]] = x
            os.remove(p + ".out")
        for job in chunk:
            if job["id"] not in r:
                r[job["id"]] = {"id": job["id"], "status": "timeout-or-crash", "errors": [], "outs": [], "main": []}
        os.remove(p)
        return r

    from concurrent.futures import ThreadPoolExecutor

    with ThreadPoolExecutor(max_workers=C.NPROC) as ex:
        for r in ex.map(one, list(enumerate(chunks))):
            res.update(r)
    return res


def closedness_errors(errors):
    out = []
    for t, msg in errors:
        t, msg = str(t), str(msg)
        if t == "KeyError" and _LABELISH.search(msg):
            out.append([t, msg])
        elif "already opened in this head" in msg or (t == "ColangRuntimeError" and "does not exist" in msg and "Scope" in msg):
            out.append([t, msg])
        elif t == "IndexError" and "pop from empty list" in msg:
            out.append([t, msg])
    return out


# =======================================================================================


def _corpus(kind):
    d = os.path.join(C.VERIF, "corpus", PID)
    out = []
    if os.path.isdir(d):
        for fn in sorted(os.listdir(d)):
            if fn.endswith(".json"):
                x = json.load(open(os.path.join(d, fn)))
                if x.get("kind") == kind:
                    out.append(x)
    return out


def run(tier, seed, replay=None):
    _quiet()
    out = C.Outcome(PID, tier, seed)
    rng = random.Random(seed * 1000003 + 12)
    b = C.build_and_audit(PID, GEN)
    C.proof_coverage(out, b, "make theories/Props/C12.vo && coqc Props/C12.v (Print Assumptions)")
    for br in b["broken"]:
        out.add_broken(br, b["log"])
    with C.BuildLock():
        okm, logm = C.coq_make(["theories/V1/CompileRun.vo", "theories/V2/ClosedRun.vo", "theories/V2/ExpandRun.vo"])
    if not okm:
        out.add_broken("coq:model(V1/CompileRun,V2/ClosedRun,V2/ExpandRun)", logm)
    try:
        consts = v2_consts()
    except Exception as e:
        consts = None
        out.add_broken("translator:C12Consts", str(e))

    quick = tier == "quick"
    n_v1_trees = 1500 if quick else 15000
    n_v1_src = 400 if quick else 4000
    n_v2_gen = 400 if quick else 4000
    n_dyn = 120 if quick else 1200
    n_frag = 400 if quick else 4000
    rp = None
    if replay:
        d = json.load(open(replay))
        rp = d.get("replay", d)
        n_v1_trees = n_v1_src = n_v2_gen = n_dyn = n_frag = 0

    seen = set()
    nontrivial = 0
    dist = {}

    # ------------------------------------------------------------------ Colang 1.0
    st1 = {k: 0 for k in ("if", "while", "branch", "any", "leaf", "break", "continue", "label", "goto",
                          "src_if", "src_while", "src_when", "src_any", "src_break", "src_goto")}
    v1_cases = []   # (origin, items)
    for x in _corpus("v1-items"):
        v1_cases.append(("corpus", x["items"]))
    if rp and rp.get("kind") == "v1-items":
        v1_cases.append(("replay", rp["items"]))
    if rp and rp.get("kind") == "v1-source":
        for fid, items in v1_items_of_source("replay", rp["source"]).items():
            v1_cases.append(("replay:" + fid, items))
    for _ in range(n_v1_trees):
        its = v1_gen_items(rng, rng.choice([1, 2, 2, 3, 3, 4]), st1)
        if rng.random() < 0.3:
            its = [{"meta": rng.choice([{"subflow": True}, {"priority": 2}])}] + its
        v1_cases.append(("gen-tree", its))
    src_fail = 0
    for _ in range(n_v1_src):
        src = v1_gen_source(rng, st1)
        try:
            for fid, items in v1_items_of_source("gen", src).items():
                v1_cases.append(("gen-src", items))
        except Exception:
            src_fail += 1
    shipped_v1 = []
    shipped_v1_rejected = 0
    inline_v1 = inline_v1_rejected = 0
    if not rp:
        import textwrap

        for rel, content in v1_inline_test_sources():
            try:
                flows = v1_items_of_source(rel, textwrap.dedent(content))
            except Exception:
                inline_v1_rejected += 1
                continue
            inline_v1 += 1
            for fid, items in flows.items():
                v1_cases.append(("inline:" + rel + ":" + fid, items))
        for rel, content in v1_shipped_files():
            try:
                flows = v1_items_of_source(rel, content)
            except Exception:
                shipped_v1_rejected += 1   # the 1.0 parser rejects the file: nothing is compiled
                continue
            shipped_v1.append(rel)
            for fid, items in flows.items():
                v1_cases.append(("shipped:" + rel + ":" + fid, items))

    terms, kept = [], []
    off_terms, off_kept = [], []
    v1_unsupported = 0
    v1_slide_runs = 0
    v1_meta_tails = 0
    v1_results = {"ok": 0, "DupLabel": 0, "UndefLabel": 0}
    for origin, items in v1_cases:
        r = v1_real_compile(items)
        if r[0] == "exc":
            if origin.startswith(("shipped", "inline")) or origin == "gen-src":
                out.findings.append(C.Finding("v1:compile-raises", f"parse_flow_elements raised {r[1]} on {origin}",
                                              {"kind": "v1-items", "items": items, "origin": origin}))
            continue
        obs = v1_obs(r[1]) if r[0] == "ok" else None
        v1_results[r[1] if r[0] == "err" else "ok"] += 1
        # direct oracle on the implementation
        if obs is not None:
            bad = v1_oracle(obs)
            if bad:
                out.findings.append(C.Finding(v1_sig(bad), f"offset leaves the flow: {bad[0]} ({origin})",
                                              {"kind": "v1-items", "items": items, "origin": origin,
                                               "problems": bad[:5], "elements": obs}))
            if origin.startswith("shipped") or rng.random() < (0.25 if quick else 0.5) or origin in ("corpus", "replay"):
                runs, probs = v1_slide_probe(rng, r[1])
                v1_slide_runs += runs
                if probs:
                    out.findings.append(C.Finding("v1:slide-raises", f"real slide() failed: {probs[0]} ({origin})",
                                                  {"kind": "v1-items", "items": items, "origin": origin, "problems": probs[:5]}))
            off_terms.append(v1_coq_elems(obs))
            off_kept.append((origin, items, obs))
            # what the RUNTIME executes (RuntimeV1_0._load_flow_config: drops the leading meta element ...):
            # the same closedness conditions must hold for it
            try:
                rt_elements = v1_runtime_elements("f", r[1])
            except Exception as e:
                rt_elements = None
                out.findings.append(C.Finding("v1:runtime-load-raises", f"_load_flow_config raised {type(e).__name__}: {str(e)[:100]} ({origin})",
                                              {"kind": "v1-items", "items": items, "origin": origin}))
            if rt_elements is not None:
                rt_obs = v1_obs(rt_elements)
                if rt_obs != obs:
                    v1_meta_tails += 1
                    bad_rt = v1_oracle(rt_obs)
                    if bad_rt and not bad:      # otherwise already reported on the compiled flow
                        out.findings.append(C.Finding(v1_sig(bad_rt) + ":as-executed-by-runtime",
                                                      f"offset leaves the flow the runtime executes (after _load_flow_config): {bad_rt[0]} ({origin})",
                                                      {"kind": "v1-items", "items": items, "origin": origin, "problems": bad_rt[:5], "elements": rt_obs}))
                        runs, probs = v1_slide_probe(rng, rt_elements)
                        v1_slide_runs += runs
                        if probs:
                            out.findings.append(C.Finding("v1:slide-raises:as-executed-by-runtime", f"real slide() failed on the runtime's flow: {probs[0]} ({origin})",
                                                          {"kind": "v1-items", "items": items, "origin": origin, "problems": probs[:5]}))
                    off_terms.append(v1_coq_elems(rt_obs))
                    off_kept.append((origin + ":runtime", items, rt_obs))
        # model side
        try:
            tree = v1_tree_of_items(items)
            t_items = v1_coq_items(tree)
        except (Unsupported, ValueError):
            v1_unsupported += 1
            if origin.startswith(("shipped", "inline")):
                out.add_broken("correspondence:C12-v1-loader", f"shipped flow outside the modelled item vocabulary: {origin}")
            continue
        expected = f"(Ok {v1_coq_elems(obs)})" if obs is not None else f"(Err {r[1]})"
        terms.append(f"({t_items}, {expected})")
        kept.append((origin, items, r[0], obs))
        h = C.canon_hash([t_items, expected])
        if h not in seen:
            seen.add(h)
            if obs is not None and sum(1 for o in obs if o["t"] in ("if", "while", "branch", "jump")) >= 3:
                nontrivial += 1

    out.findings.sort(key=lambda f: len(json.dumps(f.replay, default=str)))   # smallest replay per signature first
    if okm and terms:
        bools, err = C.run_cases(PID + "_v1", PRE_V1, terms, "check_compile", shard=200)
        if err:
            out.add_broken("correspondence:C12-v1(coqc)", err)
        else:
            bad = [c for ok, c in zip(bools, kept) if not ok]
            if bad:
                origin, items, kind, obs = min(bad, key=lambda c: len(json.dumps(c[1], default=str)))
                model = C.eval_term(PID + "_v1", PRE_V1, f"compile {v1_coq_items(v1_tree_of_items(items))}")
                out.add_broken("correspondence:C12-v1",
                               f"{len(bad)} disagreements; smallest ({origin}): items={json.dumps(items, default=str)[:1500]} "
                               f"impl={json.dumps(obs)[:1500]} model={model[-1500:]}")
    if okm and off_terms:
        bools, err = C.run_cases(PID + "_v1off", PRE_V1, off_terms, "check_offsets", shard=300)
        if err:
            out.add_broken("correspondence:C12-v1-offsets(coqc)", err)
        else:
            for ok, (origin, items, obs) in zip(bools, off_kept):
                if ok != (not v1_oracle(obs)):
                    out.add_broken("correspondence:C12-v1-offsets",
                                   f"verified checker says {ok}, python oracle says {not v1_oracle(obs)} on {origin}")
                    break

    # ------------------------------------------------------------------ Colang 2.x
    st2 = {k: 0 for k in ("if", "while", "when", "orwhen", "when_else", "match", "await", "start", "activate",
                          "break", "continue", "label", "group_and", "group_or", "jump_in_nested_block",
                          "x_if", "x_elif", "x_while", "x_when", "x_when_else", "x_match", "x_start", "x_await", "x_activate",
                          "x_case_event", "x_case_flow", "x_case_action", "x_case_and_group", "x_break", "x_continue")}
    v2_sources = []   # (origin, src)
    given_events = {}
    for i, x in enumerate(_corpus("v2-source")):
        v2_sources.append((f"corpus:{i}", x["source"]))
        if x.get("events"):
            given_events[f"corpus:{i}"] = x["events"]
    if rp and rp.get("kind") == "v2-source":
        v2_sources.append(("replay", rp["source"]))
        ev = rp.get("events") or (rp.get("confirmed_on_interpreter") or {}).get("events")
        if ev:
            given_events["replay"] = ev
    n_shipped_v2 = n_inline = 0
    if not rp:
        for rel, content in v2_shipped_sources():
            v2_sources.append(("shipped:" + rel, content))
            n_shipped_v2 += 1
        for rel, content in v2_inline_test_sources():
            v2_sources.append(("inline:" + rel, content))
            n_inline += 1
    exotic = [] if rp else v2_gen_exotic()
    if quick and exotic:
        exotic = [x for k, x in enumerate(exotic) if (k + seed) % 2 == 0 or ":activate:" in x[0] or ":deactivate:" in x[0] or ":stop:" in x[0]]
    v2_sources += exotic
    gen_programs = []
    for i in range(n_v2_gen):
        src = v2_gen_program(rng, st2)
        gen_programs.append(src)
        v2_sources.append((f"gen:{i}", src))

    frag_trees = {}
    for i in range(n_frag):
        src, tree = v2_gen_fragment(rng, st2)
        v2_sources.append((f"frag:{i}", src))
        frag_trees[f"frag:{i}"] = tree
    if rp and rp.get("kind") == "v2-fragment":
        v2_sources.append(("frag:replay", rp["source"]))
        frag_trees["frag:replay"] = rp["tree"]

    v2_terms, v2_kept = [], []
    x_terms, x_kept = [], []
    rejected_files = 0
    rejected_flows = 0
    flows_by_origin = {}
    oracle_problems = {}
    if consts is not None:
        for origin, src in v2_sources:
            try:
                ok_flows, rej = v2_expand_source(src, origin)
            except Exception:
                rejected_files += 1     # the loader rejects the file (syntax error, not 2.x ...)
                if origin.startswith("exotic:"):
                    dist["v2_exotic_rejected_by_parser"] = dist.get("v2_exotic_rejected_by_parser", 0) + 1
                continue
            rejected_flows += len(rej)
            if origin.startswith("exotic:"):
                k_ = "v2_exotic_main_rejected_by_loader" if any(f == "main" for f, _ in rej) else "v2_exotic_main_compiled"
                dist[k_] = dist.get(k_, 0) + 1
            for fid, cfg in ok_flows:
                model = v2_abstract(cfg.elements, consts, cfg.element_labels)
                prob = v2_oracle(cfg, consts)
                key = (origin, fid)
                flows_by_origin.setdefault(origin, []).append(fid)
                dist["v2_flows_" + origin.split(":")[0]] = dist.get("v2_flows_" + origin.split(":")[0], 0) + 1
                if prob is not None:
                    oracle_problems[key] = (prob, v2_sig(cfg, prob))
                term = v2_coq(model)
                v2_terms.append(term)
                v2_kept.append((origin, fid, src, model, prob))
                if origin in frag_trees and fid == "main":
                    x_terms.append(f"({v2_coq_stmts(frag_trees[origin])}, {term})")
                    x_kept.append((origin, src, frag_trees[origin], model))
                h = C.canon_hash(term)
                if h not in seen:
                    seen.add(h)
                    if sum(1 for e in model if e[0] in ("goto", "fork", "catch", "begin", "break", "continue")) >= 3:
                        nontrivial += 1

    model_false = {}
    if okm and v2_terms:
        bools, err = C.run_cases(PID + "_v2", PRE_V2, v2_terms, "check_closed", shard=60)
        if err:
            out.add_broken("correspondence:C12-v2(coqc)", err)
        else:
            disagree = []
            for ok, (origin, fid, src, model, prob) in zip(bools, v2_kept):
                if not ok:
                    model_false[(origin, fid)] = True
                if ok != (prob is None):
                    disagree.append((origin, fid, src, model, prob, ok))
            if disagree:
                origin, fid, src, model, prob, ok = min(disagree, key=lambda c: len(c[3]))
                diag = C.eval_term(PID + "_v2", PRE_V2, f"closed_diag {v2_coq(model)}")
                out.add_broken("correspondence:C12-v2",
                               f"{len(disagree)} flows where the verified checker and the python oracle differ; smallest: "
                               f"{origin} flow `{fid}`: closedb={ok} oracle={prob} diag={diag[-600:]}")

    # expansion model (V2/Expand.v) against the real expand_elements, modulo renaming by first occurrence
    if okm and x_terms:
        bools, err = C.run_cases(PID + "_x", PRE_X, x_terms, "check_expand", shard=60)
        if err:
            out.add_broken("correspondence:C12-v2-expand(coqc)", err)
        else:
            bad = [c for ok, c in zip(bools, x_kept) if not ok]
            if bad:
                origin, src, tree, model = min(bad, key=lambda c: len(c[1]))
                mo = C.eval_term(PID + "_x", PRE_X, f"canon (expand {v2_coq_stmts(tree)})")
                out.add_broken("correspondence:C12-v2-expand",
                               f"{len(bad)} programs where expand_elements differs from V2.Expand.expand (modulo label renaming); "
                               f"smallest:\n{src}\nreal={v2_coq(model)[:1500]}\nmodel={mo[-1500:]}")

    # findings: a flow the loader compiled that is not closed (python oracle on the real elements)
    reported = set()
    src_of = dict(v2_sources)

    def _rank(kv):
        (origin, fid), (prob, sig) = kv
        cls = 0 if origin.startswith(("corpus", "replay")) else 1 if origin.startswith(("shipped", "exotic")) else 2
        return (cls, len(src_of[origin]))

    for (origin, fid), (prob, sig) in sorted(oracle_problems.items(), key=_rank):
        if sig in reported:
            continue
        reported.add(sig)
        src = src_of[origin]
        payload = {"kind": "v2-source", "origin": origin, "flow": fid, "problem": prob, "source": src if len(src) < 20000 else src[:20000]}
        out.findings.append(C.Finding(sig, f"flow `{fid}` of {origin} is not closed: {prob['kind']} {prob['detail']} at element {prob['pos']}", payload))

    # ---- flows added at RUNTIME through the real _add_flows_action (AddFlowsAction): same closedness
    #      conditions on state.flow_configs[new] with ITS element_labels; verified checker + oracle
    added_sources = []
    for i, x in enumerate(_corpus("v2-added-source")):
        added_sources.append((f"corpus-added:{i}", x["source"]))
    if rp and rp.get("kind") == "v2-added-source":
        added_sources.append(("replay-added", rp["source"]))
    n_added = 0 if rp else (200 if quick else 3000)
    pool = [(o, s_) for o, s_ in v2_sources if o.startswith(("frag:", "gen:"))]
    added_sources += [("added:" + o, v2_added_source(s_)) for o, s_ in exotic[::7]]
    for o, s_ in pool[:: max(1, len(pool) // max(1, n_added))][:n_added]:
        added_sources.append(("added:" + o, v2_added_source(s_)))
    a_terms, a_kept = [], []
    added_rejected = 0
    added_problems = {}
    if consts is not None and added_sources:
        for origin, src, name, cfg in v2_add_at_runtime(added_sources):
            if name is None:
                added_rejected += 1
                continue
            prob = v2_oracle(cfg, consts)
            model = v2_abstract(cfg.elements, consts, cfg.element_labels)
            a_terms.append(v2_coq(model))
            a_kept.append((origin, name, src, model, prob))
            if prob is not None:
                added_problems[(origin, name)] = (prob, "v2:added-at-runtime:" + v2_sig(cfg, prob)[3:], src)
    if okm and a_terms:
        bools, err = C.run_cases(PID + "_added", PRE_V2, a_terms, "check_closed", shard=60)
        if err:
            out.add_broken("correspondence:C12-v2-added(coqc)", err)
        else:
            dis = [(o, n, m, pr, ok) for ok, (o, n, sr, m, pr) in zip(bools, a_kept) if ok != (pr is None)]
            if dis:
                o, n, m, pr, ok = min(dis, key=lambda c: len(c[2]))
                out.add_broken("correspondence:C12-v2-added",
                               f"{len(dis)} runtime-added flows where closedb and the python oracle differ; smallest {o} `{n}`: closedb={ok} oracle={pr}")
    added_jobs = []
    seen_added_sig = set()
    for (origin, name), (prob, sig, src) in sorted(added_problems.items(), key=lambda kv: (0 if kv[0][0].startswith(("corpus", "replay")) else 1, len(kv[1][2]))):
        if sig in seen_added_sig:
            continue
        seen_added_sig.add(sig)
        out.findings.append(C.Finding(sig, f"flow `{name}` loaded at runtime through AddFlowsAction ({origin}) is not closed: {prob['kind']} {prob['detail']} at element {prob['pos']}",
                                      {"kind": "v2-added-source", "origin": origin, "flow": name, "problem": prob, "source": src}))
        added_jobs.append({"id": sig, "src": src, "events": []})
    # end-to-end: a bot that loads the flow with AddFlowsAction and awaits it (corpus + flagged + a few others)
    for origin, src in added_sources[: (3 if quick else 12)]:
        if len(added_jobs) < (6 if quick else 24):
            added_jobs.append({"id": "e2e:" + origin, "src": src, "events": ["EvA", "EvB"]})
    added_e2e = v2_added_dynamic(added_jobs) if consts is not None else {}
    e2e_bad = 0
    for f in out.findings:
        r = added_e2e.get(f.sig)
        if r and isinstance(f.replay, dict):
            f.replay["confirmed_on_interpreter"] = r
            f.what += f"; real bot run: {r['labels_missing_from_index']} labels missing from element_labels, errors={r['errors'][:1]}, warnings={r['invalid_label_warnings'][:1]}"
    for jid, r in added_e2e.items():
        if jid.startswith("e2e:") and r["status"] == "ok" and (r["labels_missing_from_index"] or r["invalid_label_warnings"] or closedness_errors(r["errors"])):
            e2e_bad += 1
            if not added_problems:
                out.findings.append(C.Finding("v2:added-at-runtime:e2e", f"bot run with AddFlowsAction: {r}",
                                              {"kind": "v2-added-source", "source": dict((j["id"], j["src"]) for j in added_jobs)[jid], "observed": r}))

    # dynamic probe of the real interpreter on generated programs (+ corpus/replay)
    dyn_jobs = []
    dyn_src = {}
    cand = [(o, s) for o, s in v2_sources if o.startswith(("gen:", "corpus", "replay"))
            or (o.startswith("frag:") and any((o, f) in oracle_problems for f in flows_by_origin.get(o, [])))]

    def _flagged(origin):
        return any((origin, f) in oracle_problems for f in flows_by_origin.get(origin, []))

    # corpus/replay first, then programs with a flagged flow (they should show the predicted runtime
    # error; smallest first), then the rest
    cand.sort(key=lambda os_: (0 if os_[0].startswith(("corpus", "replay")) else 1 if _flagged(os_[0]) else 2,
                               len(os_[1]) if _flagged(os_[0]) else 0))
    for origin, src in cand[: max(n_dyn, 8)]:
        seqs = []
        if origin in given_events:
            seqs.append(list(given_events[origin]))
        for k in range(3 if quick else 4):
            seqs.append([rng.choice(EVENTS + ["*finish-actions*"]) for _ in range(rng.choice([4, 8, 12]))])
        if _flagged(origin):
            # drive the failure paths: the sub flows that abort, repeatedly
            for k in range(4):
                seqs.append([rng.choice(["EvF", "EvG", "EvF", "EvG", "EvA", "EvB", "EvX", "*finish-actions*"]) for _ in range(16)])
        for k, evs in enumerate(seqs):
            jid = f"{origin}/{k}"
            dyn_jobs.append({"id": jid, "src": src, "events": evs})
            dyn_src[jid] = (origin, src, evs)
    dyn_runs = dyn_errors = dyn_timeouts = 0
    dyn_status = {}
    dyn_confirmed = {}
    if dyn_jobs and consts is not None:
        res = v2_dynamic(dyn_jobs)
        for jid, r in res.items():
            dyn_runs += 1
            k_ = r["status"].split(":")[0] + (":" + r["status"].split(":")[1] if r["status"].startswith(("exc", "nonterminating")) else "")
            dyn_status[k_] = dyn_status.get(k_, 0) + 1
            if r["status"] != "ok":
                dyn_timeouts += 1
                continue
            errs = closedness_errors(r["errors"])
            if not errs:
                continue
            dyn_errors += 1
            origin, src, evs = dyn_src[jid]
            flagged = [f for f in flows_by_origin.get(origin, []) if (origin, f) in oracle_problems]
            if flagged:
                for f_ in flagged:
                    sg = oracle_problems[(origin, f_)][1]
                    if sg not in dyn_confirmed or len(src) < len(dyn_confirmed[sg]["source"]):
                        dyn_confirmed[sg] = {"source": src, "events": evs, "errors": errs[:3]}
            else:
                # the interpreter hit a closedness error on a program every flow of which the checker accepts
                out.add_broken("correspondence:C12-v2-dynamic",
                               f"real interpreter raised {errs[0]} on a program accepted by closedb: events={evs} source=\n{src}")
                out.findings.append(C.Finding("v2:runtime-closedness-error:unpredicted", f"interpreter raised {errs[0]}",
                                              {"kind": "v2-source", "source": src, "events": evs, "errors": errs[:3]}))
    for f in out.findings:
        # same defect class (construct), whichever of its symptoms the static oracle met first
        hit = dyn_confirmed.get(f.sig)
        if hit and isinstance(f.replay, dict):
            f.replay["confirmed_on_interpreter"] = hit
            f.what += f"; real interpreter on events {hit['events']}: {hit['errors'][0]}"

    out.coverage.update({
        "evaluations": len(terms) + len(off_terms) + len(v2_terms) + len(x_terms) + len(a_terms) + dyn_runs + v1_slide_runs,
        "distinct_nontrivial": nontrivial,
        "rule": "v1: compiled flow with >=3 control elements (if/while/branch/jump); v2: expanded flow with >=3 jump/fork/"
                "failure-handler/scope/loop-exit elements; distinct by hash of the Coq case term",
        "samples": [{"v1_items": json.loads(json.dumps(c[1], default=str))} for c in kept[:2]]
                   + [{"v2_flow": c[1], "origin": c[0], "elements": len(c[3])} for c in v2_kept[:3]],
        "input_distribution": {
            "v1_generated_trees": n_v1_trees, "v1_generated_sources": n_v1_src, "v1_sources_rejected_by_parser": src_fail,
            "v1_shipped_files_compiled": len(shipped_v1), "v1_shipped_files_rejected_by_parser": shipped_v1_rejected,
            "v1_inline_test_programs_compiled": inline_v1, "v1_inline_test_programs_rejected_by_parser": inline_v1_rejected,
            "v1_flows_compared": len(terms), "v1_flows_changed_by_runtime_loader_and_rechecked": v1_meta_tails, "v1_flows_offsets_checked": len(off_terms), "v1_results": v1_results,
            "v1_outside_model_vocabulary": v1_unsupported, "v1_constructs": st1,
            "v2_shipped_files": n_shipped_v2, "v2_inline_test_programs": n_inline, "v2_generated_programs": n_v2_gen,
            "v2_files_rejected_by_loader": rejected_files, "v2_flows_rejected_by_loader": rejected_flows,
            "v2_flows_checked": len(v2_terms), "v2_constructs": st2,
            "v2_fragment_programs": n_frag, "v2_expansions_compared_with_model": len(x_terms),
            "v2_flows_added_at_runtime_checked": len(a_terms), "v2_added_rejected_by_runtime_loader": added_rejected,
            "v2_added_not_closed": len(added_problems), "v2_added_end_to_end_bot_runs": len(added_e2e),
            "v2_added_end_to_end_status": {k: v["status"] for k, v in list(added_e2e.items())[:8]},
            "v2_flows_not_closed": len(oracle_problems), "v2_model_false": len(model_false),
            "v2_dynamic_runs": dyn_runs, "v2_dynamic_runs_with_closedness_error": dyn_errors,
            "v2_dynamic_timeouts_or_load_failures": dyn_timeouts, "v2_dynamic_status": dyn_status,
            **dist,
        },
        "traces_validated_against_impl": len(terms) + len(v2_terms) + len(x_terms) + dyn_runs + v1_slide_runs,
        "validation_kind": "v1: theorem for all item trees + differential; v2: per-program validation of the real expanded "
                           "elements by the verified checker closedb (C12_v2_checker_sound), not a theorem about expand_elements",
    })
    out.assumptions += [
        "v1: the model covers _extract_elements/_resolve_gotos/_process_ellipsis; _dict_to_element's type dispatch is mirrored by the "
        "harness loader and validated by the differential; eval_expression is an arbitrary oracle in slide",
        "v2: one head token (position, open scopes, failure-handler stack); MergeHeads continues with the merging head's own scopes; "
        "head.scope_uids and flow_state.scopes are identified; Goto to an unknown label (runtime: warning + next element) counts as failure",
        "v2: send counts as blocking unless its static spec name is an internal event; label/scope/fork names are renamed injectively before printing",
        "v2: closedness of expand_elements output is validated per program (verified checker); the expansion is modelled only for the "
        "fragment of V2/Expand.v (if/while/break/continue, event match groups, when with single-event cases), where the static part "
        "is a theorem (C12_v2_expand_static_closed_partial) and the model is diffed against expand_elements modulo renaming",
    ]
    if tier == "thorough" and b["ok"]:
        ok, log = C.coqchk(PID, b["files"])
        out.coverage["coqchk"] = "ok" if ok else "FAILED"
        if not ok:
            out.add_broken("coqchk", log)
    return C.finish(out)
