(* V1.Interp_proofs - fuel monotonicity of the interpreter model: a result other than Fuel does
   not depend on how much fuel was supplied.  Hence the explicit fuel of the model is not a
   hidden input: compute_next_steps is a function of (configs, history) alone. *)
From Coq Require Import ZArith QArith List String Bool Lia.
From NG Require Import V1.Expr V1.Elems V1.Slide V1.Interp.
Import ListNotations.
Open Scope Z_scope.

Lemma slide_loop_mono : forall f els h p c u r,
  slide_loop f els h p c u = r -> r <> SFuel ->
  forall f', (f <= f')%nat -> slide_loop f' els h p c u = r.
Proof.
  induction f as [|f IH]; intros els h p c u r H Hr f' Hle; simpl in H.
  - subst; congruence.
  - destruct f' as [|f']; [lia|]. simpl.
    destruct ((h =? Z.of_nat (Datatypes.length els)) || (h <? 0)); [exact H|].
    destruct (nth_error els (Z.to_nat h)) as [el|]; [|exact H].
    destruct (slide_elem el h c u) as [h' c' u'| | |]; try exact H.
    eapply IH; eauto; lia.
Qed.

Lemma slide_mono : forall f els h c u r,
  slide f els h c u = r -> r <> SFuel ->
  forall f', (f <= f')%nat -> slide f' els h c u = r.
Proof. unfold slide; intros; eapply slide_loop_mono; eauto. Qed.

(* a generic helper: a computation that did not run out of fuel *)
Definition nofuel {A} (r : res A) : Prop := r <> Fuel.

Lemma bind_nofuel : forall {A B} (r : res A) (k : A -> res B),
  bind r k <> Fuel -> r <> Fuel.
Proof. intros A B r k H; destruct r; simpl in *; congruence. Qed.

Lemma sws_mono : forall o f cs s fs r,
  sws o f cs s fs = r -> r <> Fuel ->
  forall f', (f <= f')%nat -> sws o f' cs s fs = r.
Proof.
  intros o; induction f as [|f IH]; intros cs s fs r H Hr f' Hle; simpl in H.
  - subst; congruence.
  - destruct f' as [|f']; [lia|]. simpl.
    destruct (find_config cs (f_flow fs)) as [cfg|]; simpl in *; [|exact H].
    destruct (slide f (fc_elems cfg) (f_head fs) (st_ctx s) (st_upd s)) as [h c u| | |] eqn:Hs.
    + erewrite slide_mono; [|exact Hs|congruence|lia]. cbv iota beta.
      destruct (h >=? 0); [|exact H].
      destruct (pyidx (fc_elems cfg) h) as [el|]; simpl in *; [|exact H].
      destruct el; try exact H.
      match type of H with bind ?X _ = _ => destruct X as [[s3 sub']| |] eqn:Hsub end; simpl in *.
      * erewrite (IH _ _ _ _ Hsub); [|congruence|lia]. simpl.
        destruct (f_head sub' <? 0); [|exact H].
        eapply IH; eauto; lia.
      * erewrite (IH _ _ _ _ Hsub); [|congruence|lia]. exact H.
      * subst; congruence.
    + erewrite slide_mono; [|exact Hs|congruence|lia]. exact H.
    + erewrite slide_mono; [|exact Hs|congruence|lia]. exact H.
    + subst; congruence.
Qed.

Lemma phase1_mono : forall o cs ev old f s ext r,
  phase1 o f cs ev old s ext = r -> r <> Fuel ->
  forall f', (f <= f')%nat -> phase1 o f' cs ev old s ext = r.
Proof.
  intros o cs ev; induction old as [|fs rest IH]; intros f s ext r H Hr f' Hle; simpl in *; [exact H|].
  destruct (f_status fs); try (eapply IH; eauto; fail).
  destruct (find_config cs (f_flow fs)) as [cfg|]; simpl in *; [|exact H].
  destruct (pyidx (fc_elems cfg) (f_head fs)) as [hel|]; simpl in *; [|exact H].
  destruct (negb (string_in (event_type ev) (fc_triggers cfg))).
  - destruct (record_next_step (st_push s fs) fs cfg q09); simpl in *; try exact H.
    eapply IH; eauto.
  - match type of H with bind ?X _ = _ => destruct X as [mh| |] end; simpl in *; try exact H.
    match type of H with match ?X with _ => _ end = _ => destruct X as [m|] end.
    + destruct (sws o f cs s (fs_head fs m)) as [[s1 fs1]| |] eqn:Hs; simpl in *.
      * erewrite (sws_mono _ _ _ _ _ _ Hs); [|congruence|lia]. simpl.
        destruct (f_head fs1 <? 0); eapply IH; eauto.
      * erewrite (sws_mono _ _ _ _ _ _ Hs); [|congruence|lia]. exact H.
      * subst; congruence.
    + match type of H with (if ?X then _ else _) = _ => destruct X end; eapply IH; eauto.
Qed.

Lemma phase2_mono : forall o cs ev todo f s r,
  phase2 o f cs ev todo s = r -> r <> Fuel ->
  forall f', (f <= f')%nat -> phase2 o f' cs ev todo s = r.
Proof.
  intros o cs ev; induction todo as [|cfg rest IH]; intros f s r H Hr f' Hle; simpl in *; [exact H|].
  destruct (fc_subflow cfg); [eapply IH; eauto|].
  destruct (negb (fc_multiple cfg) && has_flow (st_fss s) (fc_id cfg)); [eapply IH; eauto|].
  destruct (slide f (fc_elems cfg) 0 (st_ctx s) (st_upd s)) as [sh c u| | |] eqn:Hs;
    try (erewrite slide_mono; [|exact Hs|congruence|lia]; cbv iota beta; try exact H).
  - destruct (pyidx (fc_elems cfg) sh) as [el|]; simpl in *; [|exact H].
    destruct (is_match el ev); [|eapply IH; eauto].
    match type of H with bind ?X _ = _ => destruct X as [[s3 fs']| |] eqn:Hw end; simpl in *.
    + erewrite (sws_mono _ _ _ _ _ _ Hw); [|congruence|lia]. simpl. eapply IH; eauto.
    + erewrite (sws_mono _ _ _ _ _ _ Hw); [|congruence|lia]. exact H.
    + subst; congruence.
Qed.

Lemma resume_pass_mono : forall o f cs s i ch r,
  resume_pass o f cs s i ch = r -> r <> Fuel ->
  forall f', (f <= f')%nat -> resume_pass o f' cs s i ch = r.
Proof.
  intros o; induction f as [|f IH]; intros cs s i ch r H Hr f' Hle; simpl in H.
  - subst; congruence.
  - destruct f' as [|f']; [lia|]. simpl.
    destruct (nth_error (st_fss s) i) as [fs|]; [|exact H].
    destruct (status_eqb (f_status fs) Interrupted); [|eapply IH; eauto; lia].
    match type of H with (let '(a, b) := ?X in _) = _ => destruct X as [sr sa] end.
    destruct sr.
    + match type of H with bind ?X _ = _ => destruct X as [[s2 fs2]| |] eqn:Hw end; simpl in *.
      * erewrite (sws_mono _ _ _ _ _ _ Hw); [|congruence|lia]. simpl. eapply IH; eauto; lia.
      * erewrite (sws_mono _ _ _ _ _ _ Hw); [|congruence|lia]. exact H.
      * subst; congruence.
    + destruct sa; eapply IH; eauto; lia.
Qed.

Lemma resume_loop_mono : forall o f cs s r,
  resume_loop o f cs s = r -> r <> Fuel ->
  forall f', (f <= f')%nat -> resume_loop o f' cs s = r.
Proof.
  intros o; induction f as [|f IH]; intros cs s r H Hr f' Hle.
  - simpl in H; subst; congruence.
  - destruct f' as [|f']; [lia|].
    cbn [resume_loop] in *.
    remember (resume_pass o (S f) cs s 0 false) as rp eqn:Hp. symmetry in Hp.
    destruct rp as [[s1 ch]| |]; cbn [bind] in H.
    + erewrite (resume_pass_mono _ _ _ _ _ _ _ Hp); [|congruence|lia]. cbn [bind].
      destruct ch; [eapply IH; eauto; lia|exact H].
    + erewrite (resume_pass_mono _ _ _ _ _ _ _ Hp); [|congruence|lia]. exact H.
    + subst; congruence.
Qed.

Lemma compute_next_state_mono : forall o f cs s ev r,
  compute_next_state o f cs s ev = r -> r <> Fuel ->
  forall f', (f <= f')%nat -> compute_next_state o f' cs s ev = r.
Proof.
  intros o f cs s ev r H Hr f' Hle.
  unfold compute_next_state in *.
  destruct ev; try exact H;
  (match type of H with bind ?X _ = _ => destruct X as [[s1 ext]| |] eqn:H1 end; simpl in *;
   [ erewrite (phase1_mono _ _ _ _ _ _ _ _ H1); [|congruence|lia]; simpl
   | erewrite (phase1_mono _ _ _ _ _ _ _ _ H1); [|congruence|lia]; exact H
   | subst; congruence ];
   match type of H with bind ?X _ = _ => destruct X as [s2| |] eqn:H2 end; simpl in *;
   [ erewrite (phase2_mono _ _ _ _ _ _ _ H2); [|congruence|lia]; simpl
   | erewrite (phase2_mono _ _ _ _ _ _ _ H2); [|congruence|lia]; exact H
   | subst; congruence ];
   match type of H with bind ?X _ = _ => destruct X as [s3| |] end; simpl in *; try exact H;
   match type of H with bind ?X _ = _ => destruct X as [s5| |] end; simpl in *; try exact H;
   eapply resume_loop_mono; eauto).
Qed.

Lemma run_events_mono : forall o cs l f s r,
  run_events o f cs s l = r -> r <> Fuel ->
  forall f', (f <= f')%nat -> run_events o f' cs s l = r.
Proof.
  intros o cs; induction l as [|e rest IH]; intros f s r H Hr f' Hle; simpl in *; [exact H|].
  destruct (compute_next_state o f cs s e) as [s1| |] eqn:H1; simpl in *.
  - erewrite (compute_next_state_mono _ _ _ _ _ _ H1); [|congruence|lia]. simpl. eapply IH; eauto.
  - erewrite (compute_next_state_mono _ _ _ _ _ _ H1); [|congruence|lia]. exact H.
  - subst; congruence.
Qed.

Lemma final_steps_nofuel : forall s a, final_steps s a <> Fuel.
Proof.
  intros s a. unfold final_steps.
  destruct (st_next s) as [el|]; simpl.
  - unfold step_to_event. destruct el; simpl; try congruence;
      destruct a; simpl; try congruence; destruct (is_bot_stop _); congruence.
  - destruct a; simpl; try congruence; destruct (is_bot_stop _); congruence.
Qed.

Lemma compute_next_steps_mono : forall o f cs h r,
  compute_next_steps o f cs h = r -> r <> Fuel ->
  forall f', (f <= f')%nat -> compute_next_steps o f' cs h = r.
Proof.
  intros o f cs h r H Hr f' Hle. unfold compute_next_steps in *.
  destruct (preprocess h []) as [a| |]; simpl in *; try exact H.
  destruct (run_events o f cs init_state a) as [s| |] eqn:H1; simpl in *.
  - erewrite (run_events_mono _ _ _ _ _ _ H1); [|congruence|lia]. exact H.
  - erewrite (run_events_mono _ _ _ _ _ _ H1); [|congruence|lia]. exact H.
  - subst; congruence.
Qed.

(* The decision does not depend on the fuel: two runs that both terminate agree. *)
Theorem compute_next_steps_fuel_independent : forall o f1 f2 cs h,
  compute_next_steps o f1 cs h <> Fuel ->
  compute_next_steps o f2 cs h <> Fuel ->
  compute_next_steps o f1 cs h = compute_next_steps o f2 cs h.
Proof.
  intros o f1 f2 cs h H1 H2.
  destruct (Nat.le_ge_cases f1 f2) as [Hle|Hle].
  - symmetry. eapply compute_next_steps_mono; eauto.
  - eapply compute_next_steps_mono; eauto.
Qed.
