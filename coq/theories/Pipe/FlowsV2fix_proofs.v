(* Pipe.FlowsV2fix_proofs - the CURRENT guardrails.co resets $output_rails_in_progress on every
   path of `run output rails`, including the failure of the awaited `output rails` flow.
   False for the shipped file (DESIGN section 5, F3); true with fixes/C02-output-rails-flag.patch. *)
From Coq Require Import List String Bool.
From NG Require Import Pipe.Rails Pipe.TurnV2 Pipe.TurnV2_proofs Pipe.FlowCheck Gen.C01Flows Pipe.Flows_proofs.

Lemma current_file_resets_flag : current_fixd = true.
Proof. vm_compute. reflexivity. Qed.

(* the flag invariant for the model of the current file *)
Lemma v2_flag_invariant_current :
  forall vf llm value_of refusal_in refusal_out cf us st,
    orip st = false ->
    Forall (fun r => orip (fst (fst r)) = false)
           (conv_v2 current_fixd vf llm value_of refusal_in refusal_out cf st us).
Proof. rewrite current_file_resets_flag. exact conv_v2_fixed_flag. Qed.
