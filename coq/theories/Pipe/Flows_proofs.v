(* Pipe.Flows_proofs - the structural obligations about the SHIPPED Colang programs, discharged on
   the terms of Gen/C01Flows.v (regenerated from the source tree on every run).  An edit of
   llm_flows.co / guardrails.co / the self check flows that opens a path around a gate, changes
   the loop counter, or drops the flag reset makes one of these proofs fail. *)
From Coq Require Import List String Bool ZArith Lia.
From NG Require Import Pipe.FlowCheck Pipe.FlowCheck_proofs Gen.C01Flows.
Import ListNotations.
Open Scope string_scope.
Open Scope list_scope.

(* ---- llm_flows.co: `process user input` ---- *)
Lemma input_gate_checked : input_gate_ok v1_process_user_input = true.
Proof. vm_compute. reflexivity. Qed.

Definition in_excused := false_of [g_in_cfg; g_in_opt].

(* every control path of `process user input` from its first element to the element that creates
   UserMessage passes `do run input rails`, unless it takes the false edge of
   `if $config.rails.input.flows` or of the generation-options test *)
Lemma input_gate_dominates :
  forall p k, path v1_process_user_input 0 p k ->
              is_create "UserMessage" (elem_at v1_process_user_input k) = true ->
              passes v1_process_user_input (is_flow "run input rails") in_excused p.
Proof.
  intros p k Hp Ht.
  pose proof input_gate_checked as H. unfold input_gate_ok in H.
  apply andb_true_iff in H. destruct H as [H _]. apply andb_true_iff in H. destruct H as [H _].
  destruct (gatedb_sound _ _ _ _ _ H p k Hp Ht) as [Hpass|(e & He & Hg)]; [exact Hpass|].
  exfalso. clear H. rewrite He in Ht. destruct e; simpl in Ht, Hg; discriminate.
Qed.

(* ---- llm_flows.co: `process bot message` ---- *)
Lemma output_gate_checked : output_gate_ok v1_process_bot_message = true.
Proof. vm_compute. reflexivity. Qed.

Definition out_excused := fun l => false_of [g_out_cfg; g_out_opt] l || true_of [g_skip] l.

Lemma output_gate_dominates :
  forall p k, path v1_process_bot_message 0 p k ->
              is_create "StartUtteranceBotAction" (elem_at v1_process_bot_message k) = true ->
              passes v1_process_bot_message (is_flow "run output rails") out_excused p.
Proof.
  intros p k Hp Ht.
  pose proof output_gate_checked as H. unfold output_gate_ok in H.
  do 3 (apply andb_true_iff in H; destruct H as [H _]).
  destruct (gatedb_sound _ _ _ _ _ H p k Hp Ht) as [Hpass|(e & He & Hg)]; [exact Hpass|].
  exfalso. clear H. rewrite He in Ht. destruct e; simpl in Ht, Hg; discriminate.
Qed.

(* on the branch taken when $skip_output_rails is set, the flag is reset before the utterance *)
Definition skip_branch_entry : Z :=
  match find_index (fun e => match e with EIf x _ => String.eqb x g_skip | _ => false end) v1_process_bot_message 0 with
  | Some i => (i + 1)%Z | None => (-1)%Z end.

Lemma skip_flag_reset_dominates :
  forall p k, path v1_process_bot_message skip_branch_entry p k ->
              is_create "StartUtteranceBotAction" (elem_at v1_process_bot_message k) = true ->
              passes v1_process_bot_message (is_set "skip_output_rails" "False") (fun _ => false) p.
Proof.
  intros p k Hp Ht.
  assert (H : gatedb v1_process_bot_message (is_set "skip_output_rails" "False")
                     (is_create "StartUtteranceBotAction") (fun _ => false) skip_branch_entry = true)
    by (vm_compute; reflexivity).
  destruct (gatedb_sound _ _ _ _ _ H p k Hp Ht) as [Hpass|(e & He & Hg)]; [exact Hpass|].
  exfalso. clear H. rewrite He in Ht. destruct e; simpl in Ht, Hg; discriminate.
Qed.

(* ---- llm_flows.co: the rails loops visit the configured list 0 .. n-1 in order, for every n ---- *)
Lemma in_loop_visits :
  forall (n : nat) i0, exists fuel, lrun in_loop v1_run_input_rails (Z.of_nat n) fuel 0 i0 [] = Some (zseq 0 n).
Proof.
  apply (loop_generic in_loop v1_run_input_rails 3%Z 3 10 2).
  - intros. reflexivity.
  - intros f n i acc H. change (10 + f) with (S (9 + f)).
    cbn [lrun]. unfold lstep at 1. cbn -[Z.ltb lrun]. rewrite H. reflexivity.
  - intros f n i acc H. change (2 + f) with (S (1 + f)).
    cbn [lrun]. unfold lstep at 1. cbn -[Z.ltb lrun]. rewrite H. reflexivity.
Qed.

Lemma out_loop_visits :
  forall (n : nat) i0, exists fuel, lrun out_loop v1_run_output_rails (Z.of_nat n) fuel 0 i0 [] = Some (zseq 0 n).
Proof.
  apply (loop_generic out_loop v1_run_output_rails 3%Z 3 10 2).
  - intros. reflexivity.
  - intros f n i acc H. change (10 + f) with (S (9 + f)).
    cbn [lrun]. unfold lstep at 1. cbn -[Z.ltb lrun]. rewrite H. reflexivity.
  - intros f n i acc H. change (2 + f) with (S (1 + f)).
    cbn [lrun]. unfold lstep at 1. cbn -[Z.ltb lrun]. rewrite H. reflexivity.
Qed.

(* ---- llm_flows.co: the dialog / generation flows start only behind the released events; the
   input-side flows contain no LLM-calling action ---- *)
Lemma dialog_triggers :
  first_match v1_run_dialog_rails = Some "UserMessage" /\
  first_match v1_generate_next_step = Some "UserIntent" /\
  first_match v1_process_user_input = Some "UtteranceUserActionFinished" /\
  first_match v1_process_bot_message = Some "BotMessage" /\
  no_llm_action v1_process_user_input = true /\ no_llm_action v1_run_input_rails = true /\
  has_action "generate_user_intent" v1_generate_user_intent = true /\
  has_action "generate_bot_message" v1_generate_bot_message = true.
Proof. vm_compute. repeat split; reflexivity. Qed.

(* ---- library rails: a rejection reaches `stop` ---- *)
Lemma self_check_input_stops : reject_stops_ok v1_self_check_input [] = true.
Proof. vm_compute. reflexivity. Qed.

(* the Colang 2 twin: a rejection aborts the flow, with and without rail exceptions *)
Lemma v2_self_check_input_aborts : v2_reject_aborts v2lib_self_check_input "not $allowed" = true.
Proof. vm_compute. reflexivity. Qed.

(* ---- guardrails.co ---- *)
Lemma v2_gates_checked :
  v2_user_said_ok v2_user_said = true /\
  v2_bot_say_ok v2_bot_say = true /\
  v2_run_rails_ok v2_run_input_rails "$input_rails_exist" "input rails" "$input_text" = true /\
  v2_run_rails_ok v2_run_output_rails "$output_rails_exist" "output rails" "$output_text" = true.
Proof. vm_compute. repeat split; reflexivity. Qed.

(* which model of `run output rails` the CURRENT file is *)
Definition current_fixd : bool := v2_resets_on_failure v2_run_output_rails.
