"""Translator for C06 (T-tie): reads, with Python's `ast`, from the CURRENT
nemoguardrails/colang/v2_x/runtime/statemachine.py

  * that the three places which emit a Stop<Action> event (_abort_flow, _finish_flow, the
    EndScope case of slide) have exactly the guarded shape the model `stop_action` transcribes
        if action.status == STARTING or action.status == STARTED:
            action.flow_scope_count -= 1
            if action.flow_scope_count == 0: stop_event; status = STOPPING; _generate_umim_event
    (anything else is a translator error = broken obligation, fail-closed);
  * whether the EndScope case makes the flow give up its share of an action that other flows
    still use (`else: _release_shared_action(flow_state, action_uid)`, and the helper has the
    expected body) -> Gen/LifeConsts.scope_release_shared.

The model's end_scope takes this flag; the C06 theorems about scope ends are stated for the
flag read from the source, so a tree without the release breaks a proof obligation.
"""
from __future__ import annotations

import ast
import os

REPO = os.environ.get("VERIF_REPO", "/repo")
REL = "nemoguardrails/colang/v2_x/runtime/statemachine.py"


class TranslatorError(Exception):
    pass


GUARD_REF = """
if (
    action.status == ActionStatus.STARTING
    or action.status == ActionStatus.STARTED
):
    action.flow_scope_count -= 1
    if action.flow_scope_count == 0:
        action_event = action.stop_event({})
        action.status = ActionStatus.STOPPING
        _generate_umim_event(state, action_event)
"""

RELEASE_CALL_REF = "_release_shared_action(flow_state, action_uid)"

RELEASE_FN_REF = '''
def _release_shared_action(flow_state: FlowState, action_uid: str) -> None:
    if action_uid in flow_state.action_uids:
        flow_state.action_uids.remove(action_uid)
    for _, scope_action_uids in flow_state.scopes.values():
        scope_action_uids[:] = [uid for uid in scope_action_uids if uid != action_uid]
'''


def _dump(node):
    return ast.dump(node, annotate_fields=True, include_attributes=False)


def _func(tree, name):
    for node in tree.body:
        if isinstance(node, ast.FunctionDef) and node.name == name:
            return node
    return None


def _strip_doc(fn):
    body = list(fn.body)
    if body and isinstance(body[0], ast.Expr) and isinstance(getattr(body[0], "value", None), ast.Constant) \
            and isinstance(body[0].value.value, str):
        body = body[1:]
    return body


def _action_loops(node):
    """`for action_uid in <...>:` loops below node."""
    out = []
    for n in ast.walk(node):
        if isinstance(n, ast.For) and isinstance(n.target, ast.Name) and n.target.id == "action_uid":
            out.append(n)
    return out


def _check_loop(loop, where, iter_src):
    """Returns the orelse of the `if flow_scope_count == 0` statement."""
    if ast.unparse(loop.iter) != iter_src:
        raise TranslatorError(f"{where}: action loop iterates over {ast.unparse(loop.iter)!r}, expected {iter_src!r}")
    if len(loop.body) != 2 or loop.orelse:
        raise TranslatorError(f"{where}: action loop body has {len(loop.body)} statements, expected 2")
    if ast.unparse(loop.body[0]) != "action = state.actions[action_uid]":
        raise TranslatorError(f"{where}: first statement is {ast.unparse(loop.body[0])!r}")
    guard = loop.body[1]
    ref = ast.parse(GUARD_REF).body[0]
    if not isinstance(guard, ast.If) or guard.orelse:
        raise TranslatorError(f"{where}: Stop guard is not a plain `if`")
    inner = guard.body[1] if len(guard.body) == 2 else None
    if not isinstance(inner, ast.If):
        raise TranslatorError(f"{where}: Stop guard body has an unexpected shape")
    orelse = inner.orelse
    saved = inner.orelse
    inner.orelse = []
    try:
        if _dump(guard) != _dump(ref):
            raise TranslatorError(f"{where}: Stop guard differs from the modelled shape:\n{ast.unparse(guard)}")
    finally:
        inner.orelse = saved
    return orelse


def life_consts():
    path = os.path.join(REPO, REL)
    with open(path, encoding="utf-8") as f:
        tree = ast.parse(f.read(), filename=path)
    for name in ("_abort_flow", "_finish_flow"):
        fn = _func(tree, name)
        if fn is None:
            raise TranslatorError(f"function {name} not found")
        loops = _action_loops(fn)
        if len(loops) != 1:
            raise TranslatorError(f"{name}: expected one action loop, found {len(loops)}")
        if _check_loop(loops[0], name, "flow_state.action_uids"):
            raise TranslatorError(f"{name}: unexpected `else` on the flow_scope_count test")
    slide = _func(tree, "slide")
    if slide is None:
        raise TranslatorError("function slide not found")
    branches = [n for n in ast.walk(slide) if isinstance(n, ast.If) and ast.unparse(n.test) == "isinstance(element, EndScope)"]
    if len(branches) != 1:
        raise TranslatorError(f"slide: expected one EndScope branch, found {len(branches)}")
    loops = _action_loops(ast.Module(body=branches[0].body, type_ignores=[]))
    if len(loops) != 1:
        raise TranslatorError(f"slide/EndScope: expected one action loop, found {len(loops)}")
    orelse = _check_loop(loops[0], "slide/EndScope", "action_uids")
    helper = _func(tree, "_release_shared_action")
    if not orelse:
        release = False
    else:
        if len(orelse) != 1 or ast.unparse(orelse[0]) != RELEASE_CALL_REF:
            raise TranslatorError("slide/EndScope: unexpected `else` branch: " + ast.unparse(orelse[0]))
        if helper is None:
            raise TranslatorError("_release_shared_action is called but not defined")
        ref = ast.parse(RELEASE_FN_REF).body[0]
        if [_dump(x) for x in _strip_doc(helper)] != [_dump(x) for x in _strip_doc(ref)]:
            raise TranslatorError("_release_shared_action differs from the modelled body:\n" + ast.unparse(helper))
        release = True
    return {"scope_release_shared": release, "cleanup_keeps_needed_parents": _cleanup_shape(tree)}


NEEDED_REF = ("needed_parent_uids = {flow_state.parent_uid for flow_state in state.flow_states.values() "
              "if not _is_done_flow(flow_state) or flow_state.activated != 0}")
CLEANUP_CONJUNCTS = ["_is_done_flow(flow_state)",
                     "datetime.now() - flow_state.status_updated > timedelta(seconds=5)",
                     "flow_state.activated == 0"]
CLEANUP_KEEP = "flow_state.uid not in needed_parent_uids"


def _cleanup_shape(tree):
    """The condition under which _clean_up_state discards an instance: ended, older than 5 s, count 0
    [, not the parent of a running or activated instance].  Any other conjunct is an error."""
    fn = _func(tree, "_clean_up_state")
    if fn is None:
        raise TranslatorError("function _clean_up_state not found")
    tests = []
    for n in ast.walk(fn):
        if isinstance(n, ast.If) and len(n.body) == 1 and ast.unparse(n.body[0]) == "states_to_be_removed.append(flow_state.uid)":
            tests.append(n.test)
    if len(tests) != 1:
        raise TranslatorError(f"_clean_up_state: expected one removal test, found {len(tests)}")
    t = tests[0]
    if not (isinstance(t, ast.BoolOp) and isinstance(t.op, ast.And)):
        raise TranslatorError("_clean_up_state: removal test is not a conjunction")
    conj = [ast.unparse(v) for v in t.values]
    if conj == CLEANUP_CONJUNCTS:
        return False
    if conj == CLEANUP_CONJUNCTS + [CLEANUP_KEEP]:
        assigns = [ast.unparse(n) for n in ast.walk(fn) if isinstance(n, ast.Assign) and ast.unparse(n.targets[0]) == "needed_parent_uids"]
        if assigns != [NEEDED_REF]:
            raise TranslatorError("_clean_up_state: needed_parent_uids differs from the modelled definition: " + str(assigns))
        return True
    raise TranslatorError("_clean_up_state: removal condition differs from the modelled shape: " + " and ".join(conj))


def emit():
    c = life_consts()
    return (
        "(* GENERATED by translator/gen_c06.py from " + REL + " - do not edit *)\n"
        "(* the three Stop<Action> sites have the guarded shape of V2.Life.stop_action (checked, fail-closed) *)\n"
        "Definition stop_guards_checked : bool := true.\n"
        "(* EndScope: `else: _release_shared_action(flow_state, action_uid)` present in the source *)\n"
        f"Definition scope_release_shared : bool := {'true' if c['scope_release_shared'] else 'false'}.\n"
        "(* _clean_up_state keeps an ended instance that is the parent of a running or activated instance *)\n"
        f"Definition cleanup_keeps_needed_parents : bool := {'true' if c['cleanup_keeps_needed_parents'] else 'false'}.\n"
    )


GENERATORS = {"LifeConsts": emit}
