(* V2/Life_scope.v - the EndScope case, sequences of lifetime operations, deactivation.

   The accounting of actions and Stop events only looks at the `acts` and `out` components;
   `Orel A` is `Srel` on states whose flows are erased, which makes the lemmas of
   Life_proofs.v reusable for scope_actions (= stop_actions + the release of shared actions,
   which only touches flows). *)
From Coq Require Import ZArith NArith List Bool Lia.
From NG Require Import V2.Life V2.Life_proofs.
Import ListNotations.
Open Scope N_scope.

Definition wf (s : st) (fl : list (uid * inst)) : st := mkSt fl (acts s) (out s).
Definition erase (s : st) : st := wf s [].

Definition Orel (A : uid -> Prop) (s s' : st) : Prop := Srel anyR A (erase s) (erase s').

Lemma orel_refl : forall A s, Orel A s s.
Proof. intros; apply Srel_refl. Qed.

Lemma orel_trans : forall A s1 s2 s3, Orel A s1 s2 -> Orel A s2 s3 -> Orel A s1 s3.
Proof. unfold Orel; intros; eapply Srel_trans; eauto. Qed.

Lemma emit_ok_weaken : forall (R A : uid -> Prop) e, emit_ok R A e -> emit_ok anyR A e.
Proof. intros R A [a|x|x|x y z|x]; simpl; unfold anyR; auto. Qed.

Lemma srel_orel : forall (R A : uid -> Prop) s s', Srel R A s s' -> Orel A s s'.
Proof.
  intros R A s s' [_ Ac (delta & O & E & N)]. split.
  - intros x. simpl. exact I.
  - exact Ac.
  - exists delta. simpl. repeat split; auto.
    eapply Forall_impl; [|exact E]. apply emit_ok_weaken.
Qed.

Lemma orel_stops : forall A s s', Orel A s s' -> stops_spec A s s'.
Proof. intros A s s' H. apply (srel_stops _ _ _ _ H). Qed.

Lemma orel_acts_fwd : forall A s s' a c, Orel A s s' -> geta s a = Some c ->
  exists c', geta s' a = Some c' /\ arel A a c c'.
Proof. intros A s s' a c H Hc. apply (srel_acts_fwd _ _ _ _ _ _ H Hc). Qed.

Lemma erase_modf : forall s f g, erase (modf s f g) = erase s.
Proof. unfold modf; intros; destruct (getf s f); reflexivity. Qed.

Lemma geta_modf : forall s f g a, geta (modf s f g) a = geta s a.
Proof. unfold modf; intros; destruct (getf s f); reflexivity. Qed.

(* scope_action = stop_action, as far as actions and output are concerned *)
Lemma scope_action_erase : forall rel f s a s', scope_action rel f s a = Ok s' ->
  stop_action (erase s) a = Ok (erase s').
Proof.
  unfold scope_action, stop_action; intros rel f s a s' H.
  change (geta (erase s) a) with (geta s a).
  destruct (geta s a) as [c|]; try discriminate.
  destruct (active (a_status c)); [|inversion H; auto].
  destruct (a_count c - 1 =? 0)%Z; inversion H; subst; auto.
  destruct rel; auto.
  unfold release_shared, modf. simpl.
  match goal with |- context [getf ?x f] => destruct (getf x f) end; auto.
Qed.

Lemma scope_actions_erase : forall rel f l s s', scope_actions rel f l s = Ok s' ->
  stop_actions l (erase s) = Ok (erase s').
Proof.
  induction l as [|a l IH]; simpl; intros s s' H; [inversion H; auto|].
  bind_inv H. rewrite (scope_action_erase _ _ _ _ _ Hb). simpl. eauto.
Qed.

Lemma scope_actions_orel : forall (A : uid -> Prop) rel f l s s',
  (forall a, In a l -> A a) -> scope_actions rel f l s = Ok s' -> Orel A s s'.
Proof.
  intros A rel f l s s' HA H. apply scope_actions_erase in H.
  eapply stop_actions_srel; eauto.
Qed.

(* what scope_actions does to the flows: only f, only its action list and scopes *)
Definition only_lists (i i' : inst) : Prop :=
  i_flow i' = i_flow i /\ i_status i' = i_status i /\ i_parent i' = i_parent i /\
  i_children i' = i_children i /\ i_activated i' = i_activated i /\ i_nis i' = i_nis i.

Lemma only_lists_refl : forall i, only_lists i i.
Proof. unfold only_lists; intros; repeat split; auto. Qed.

Lemma only_lists_trans : forall i1 i2 i3, only_lists i1 i2 -> only_lists i2 i3 -> only_lists i1 i3.
Proof. unfold only_lists; intros i1 i2 i3 (?&?&?&?&?&?) (?&?&?&?&?&?); repeat split; congruence. Qed.

Definition flows_but_lists (f : uid) (s s' : st) : Prop :=
  forall x, match getf s x, getf s' x with
            | None, None => True
            | Some i, Some i' => only_lists i i' /\ (x <> f -> i' = i)
            | _, _ => False
            end.

Lemma fbl_refl : forall f s, flows_but_lists f s s.
Proof. intros f s x; destruct (getf s x); auto using only_lists_refl. Qed.

Lemma fbl_trans : forall f s1 s2 s3, flows_but_lists f s1 s2 -> flows_but_lists f s2 s3 -> flows_but_lists f s1 s3.
Proof.
  intros f s1 s2 s3 H1 H2 x. specialize (H1 x). specialize (H2 x).
  destruct (getf s1 x), (getf s2 x), (getf s3 x); try tauto.
  destruct H1 as (O1 & N1), H2 as (O2 & N2). split; eauto using only_lists_trans.
  intros Hx. rewrite (N2 Hx), (N1 Hx); auto.
Qed.

Lemma fbl_modf : forall f s g, (forall i, only_lists i (g i)) -> flows_but_lists f s (modf s f g).
Proof.
  intros f s g Hg x. unfold modf. destruct (getf s f) as [fi|] eqn:Ef; [|apply fbl_refl].
  destruct (N.eq_dec f x) as [<-|Hne].
  - rewrite Ef, (getf_setf_same _ _ _ _ Ef). split; auto. tauto.
  - rewrite getf_setf_other; auto. destruct (getf s x); auto using only_lists_refl.
Qed.

Lemma fbl_same_flows : forall f s s', flows s' = flows s -> flows_but_lists f s s'.
Proof.
  intros f s s' H x. unfold getf. rewrite H. destruct (get x (flows s)); auto using only_lists_refl.
Qed.

Lemma scope_action_fbl : forall rel f s a s', scope_action rel f s a = Ok s' -> flows_but_lists f s s'.
Proof.
  unfold scope_action; intros rel f s a s' H.
  destruct (geta s a) as [c|]; try discriminate.
  destruct (active (a_status c)); [|inversion H; apply fbl_refl].
  destruct (a_count c - 1 =? 0)%Z; inversion H; subst.
  - apply fbl_same_flows; auto.
  - destruct rel; [|apply fbl_same_flows; auto].
    eapply fbl_trans; [apply (fbl_same_flows f s (seta s a (mkAct (a_status c) (a_count c - 1)%Z))); auto|].
    unfold release_shared. apply fbl_modf.
    intros i. unfold only_lists; simpl; repeat split; auto.
Qed.

Lemma scope_actions_fbl : forall rel f l s s', scope_actions rel f l s = Ok s' -> flows_but_lists f s s'.
Proof.
  induction l as [|a l IH]; simpl; intros s s' H; [inversion H; apply fbl_refl|].
  bind_inv H. eapply fbl_trans; [eapply scope_action_fbl; eauto|eauto].
Qed.

Lemma fbl_lst : forall f s s' x, flows_but_lists f s s' -> lst s' x = lst s x.
Proof.
  intros f s s' x H. specialize (H x). unfold lst.
  destruct (getf s x), (getf s' x); try tauto. destruct H as ((_ & Hs & _) & _). rewrite Hs; auto.
Qed.

Lemma fbl_ranked : forall rk f s s', flows_but_lists f s s' -> ranked rk s -> ranked rk s'.
Proof.
  intros rk f s s' H Hr x i' c E' Hin. specialize (H x). rewrite E' in H.
  destruct (getf s x) as [i|] eqn:E; try tauto. destruct H as ((_ & _ & _ & Hc & _) & _).
  eapply Hr; eauto. rewrite <- Hc; auto.
Qed.

(* the flows of the scope are stopped *)
Section ScopeFlows.
  Variable rk : uid -> nat.

  Lemma scope_flows_seg : forall n Z l s s',
    ranked rk s -> Zinv Z s -> scope_flows (abort n) l s = Ok s' ->
    Seg Z s s' /\ (forall c, In c l -> lst s' c = false).
  Proof.
    induction l as [|c l IH]; simpl; intros s s' Hr HZ H.
    - inversion H; split; [apply seg_refl|tauto].
    - destruct (getf s c) as [ci|] eqn:E.
      + destruct (listening (i_status ci)) eqn:El.
        * bind_inv H.
          destruct (abort_good rk n Z _ _ _ _ Hr HZ Hb) as (G1 & Hp).
          assert (S1 : Srel anyR anyA s s0) by apply G1.
          destruct (IH _ _ (srel_ranked _ _ _ _ _ S1 Hr) (zinv_mono _ _ _ _ _ S1 HZ) H) as (G2 & Hd).
          split; [eapply seg_trans; eauto|].
          intros c' [<-|Hin]; auto.
          eapply lst_mono; [apply G2|]. apply lst_lv. apply Hp.
          unfold proceeds. rewrite E. auto.
        * destruct (IH _ _ Hr HZ H) as (G & Hd). split; auto.
          intros c' [<-|Hin]; auto.
          eapply lst_mono; [apply G|]. unfold lst. rewrite E. auto.
      + destruct (IH _ _ Hr HZ H) as (G & Hd). split; auto.
        intros c' [<-|Hin]; auto.
        unfold lst. destruct G as (S & _). rewrite (srel_none _ _ _ _ _ S E); auto.
  Qed.
End ScopeFlows.

(* the subtrees of the flows registered in the scope *)
Definition scope_region (s : st) (fl : list uid) : uid -> Prop :=
  fun x => exists c, In c fl /\ reach s c x.
Definition scope_actions_region (s : st) (fl al : list uid) : uid -> Prop :=
  fun a => In a al \/ exists c, In c fl /\ owned s c a.

Lemma scope_region_closed : forall s fl, closed (scope_region s fl) s.
Proof. intros s fl x i c (c0 & Hin & Hr) E Hc. exists c0; split; auto. eapply reach_child; eauto. Qed.

Lemma scope_region_owns : forall s fl al, owns (scope_region s fl) (scope_actions_region s fl al) s.
Proof. intros s fl al x i a (c0 & Hin & Hr) E Ha. right. exists c0; split; auto. exists x, i; auto. Qed.

Lemma pop_modf_children : forall s f rest x,
  match getf s x, getf (modf s f (set_scopes rest)) x with
  | Some i, Some i' => only_lists i i' /\ i_actions i' = i_actions i /\ (x <> f -> i' = i)
  | None, None => True
  | _, _ => False
  end.
Proof.
  intros s f rest x. unfold modf. destruct (getf s f) as [fi|] eqn:Ef.
  - destruct (N.eq_dec f x) as [<-|Hne].
    + rewrite Ef, (getf_setf_same _ _ _ _ Ef). unfold only_lists; simpl; repeat split; auto. tauto.
    + rewrite getf_setf_other; auto. destruct (getf s x); auto using only_lists_refl.
  - destruct (getf s x); auto using only_lists_refl.
Qed.

Lemma reach_pop : forall s f rest c x, reach (modf s f (set_scopes rest)) c x -> reach s c x.
Proof.
  intros s f rest c x H. induction H as [|x i' d Hx IH E' Hin]; [apply reach_self|].
  pose proof (pop_modf_children s f rest x) as P. rewrite E' in P.
  destruct (getf s x) as [i|] eqn:E; try tauto. destruct P as ((_ & _ & _ & Hc & _) & _).
  eapply reach_child; eauto. rewrite <- Hc; auto.
Qed.

(* EndScope(name) in flow f (with the release of shared actions, as in the current source):
   (1) every flow registered in the scope is not listening afterwards;
   (2) Stop accounting: per action at most one Stop, exactly for the actions that were
       STARTING/STARTED and end up STOPPING with count 0, and only for actions of the scope or
       of the stopped flows;
   (3) every unfinished action registered in the scope gives up one share;
   (4) whole-state frame: instances outside the subtrees of the scope's flows keep everything
       (children lists lose only stopped instances) - f itself keeps status, children,
       activated; actions outside the scope and those subtrees are unchanged. *)
Theorem end_scope_spec : forall rk rel n s f name s' i fl al rest,
  ranked rk s -> getf s f = Some i -> pop_scope name (i_scopes i) = Some ((fl, al), rest) ->
  end_scope rel n s f name = Ok s' ->
  (forall c, In c fl -> lst s' c = false) /\
  stops_spec (scope_actions_region s fl al) s s' /\
  (forall a c, In a al -> geta s a = Some c -> active (a_status c) = true ->
     exists c', geta s' a = Some c' /\ (a_count c' < a_count c)%Z) /\
  (forall a, ~ scope_actions_region s fl al a -> geta s' a = geta s a) /\
  (forall x, ~ scope_region s fl x ->
     match getf s x, getf s' x with
     | None, None => True
     | Some xi, Some xi' =>
         i_flow xi' = i_flow xi /\ i_status xi' = i_status xi /\ i_parent xi' = i_parent xi /\
         i_activated xi' = i_activated xi /\ i_nis xi' = i_nis xi /\
         (forall c, In c (i_children xi') -> In c (i_children xi)) /\
         (forall c, ~ scope_region s fl c ->
            count_occ N.eq_dec (i_children xi') c = count_occ N.eq_dec (i_children xi) c) /\
         (x <> f -> i_actions xi' = i_actions xi /\ i_scopes xi' = i_scopes xi)
     | _, _ => False
     end).
Proof.
  unfold end_scope; intros rk rel n s f name s' i fl al rest Hr E Hpop H.
  rewrite E, Hpop in H. bind_inv H.
  set (sp := modf s f (set_scopes rest)) in *.
  assert (Hrp : ranked rk sp).
  { intros x i' c E' Hin. pose proof (pop_modf_children s f rest x) as P. fold sp in P. rewrite E' in P.
    destruct (getf s x) as [xi|] eqn:Ex; try tauto. destruct P as ((_ & _ & _ & Hc & _) & _).
    eapply Hr; eauto. rewrite <- Hc; auto. }
  set (R := scope_region sp fl). set (A := scope_actions_region sp fl al).
  assert (S1 : Srel R A sp s0).
  { eapply (scope_flows_srel rk (abort n) (abort_srel rk n) R A fl); eauto.
    - apply scope_region_closed.
    - apply scope_region_owns.
    - apply Forall_forall. intros c Hin. exists c; split; auto. apply reach_self. }
  destruct (scope_flows_seg rk n (act0 sp) _ _ _ Hrp (act0_zinv sp) Hb) as (G1 & Hdone).
  assert (O2 : Orel A s0 s') by (eapply scope_actions_orel; eauto; intros a Ha; left; auto).
  pose proof (scope_actions_fbl _ _ _ _ _ H) as F2.
  assert (RR : forall x, R x -> scope_region s fl x).
  { intros x (c & Hin & Hx). exists c; split; auto. eapply reach_pop; eauto. }
  assert (AA : forall a, A a -> scope_actions_region s fl al a).
  { intros a [Ha|(c & Hin & (x & xi' & Hx & Exi' & Hax))]; [left; auto|right].
    exists c; split; auto.
    pose proof (pop_modf_children s f rest x) as P. fold sp in P. rewrite Exi' in P.
    destruct (getf s x) as [xi|] eqn:Ex; try tauto. destruct P as (_ & Ha' & _).
    exists x, xi; repeat split; auto. eapply reach_pop; eauto. congruence. }
  assert (Osp : Orel A s sp).
  { unfold Orel, sp. rewrite erase_modf. apply Srel_refl. }
  assert (O : Orel A s s').
  { eapply orel_trans; [exact Osp|eapply orel_trans; [eapply srel_orel; eauto|exact O2]]. }
  repeat match goal with |- _ /\ _ => split end.
  - intros c Hin. rewrite (fbl_lst _ _ _ _ F2). auto.
  - destruct (orel_stops _ _ _ O) as (delta & Od & Hd). exists delta; split; auto.
    intros a. destruct (Hd a) as (H1 & H2 & H3 & H4).
    split; [auto|split; [exact H2|split; [intros Hn; apply AA; auto|auto]]].
  - intros a c Hin Hc Hact.
    assert (Hcp : geta sp a = Some c).
    { unfold sp. rewrite geta_modf. auto. }
    destruct (srel_acts_fwd _ _ _ _ _ _ S1 Hcp) as (c0 & Hc0 & Hr0).
    pose proof (scope_actions_erase _ _ _ _ _ H) as He.
    destruct (orel_acts_fwd _ _ _ _ _ O2 Hc0) as (c' & Hc' & Hr').
    pose proof (arel_count_le _ _ _ _ Hr') as Hle.
    destruct Hr0 as [->|(_ & _ & Hlt & _)]; [|exists c'; split; auto; lia].
    destruct (stop_actions_decr _ _ _ He a c Hin Hc0 Hact) as (c'' & Hc'' & Hlt).
    change (geta (erase s') a) with (geta s' a) in Hc''. eauto.
  - intros a Ha.
    destruct O as [_ Ac _]. specialize (Ac a).
    change (geta (erase s) a) with (geta s a) in Ac. change (geta (erase s') a) with (geta s' a) in Ac.
    destruct (geta s a) as [c|], (geta s' a) as [c'|]; try tauto.
    destruct Ac as [->|(HA & _)]; auto. exfalso; apply Ha; auto.
  - intros x Hx.
    assert (HxR : ~ R x) by (intros HR; apply Hx; auto).
    pose proof (pop_modf_children s f rest x) as P. fold sp in P.
    pose proof (sr_flows _ _ _ _ S1 x) as F1.
    specialize (F2 x).
    destruct (getf s x) as [xi|], (getf sp x) as [xp|], (getf s0 x) as [x0|], (getf s' x) as [xi'|]; try tauto.
    destruct P as ((Pf & Ps & Pp & Pc & Pa & Pn) & Pact & Pne).
    destruct F1 as (F1f & F1p & F1a & F1s & _ & F1c & F1k & _ & F1n).
    destruct (F1n HxR) as (F1act & F1nis & F1st).
    destruct F2 as ((Ff & Fs & Fp & Fc & Fa & Fn) & Fne).
    repeat match goal with |- _ /\ _ => split end; try congruence.
    + intros c Hc. rewrite Fc in Hc. rewrite <- Pc. auto.
    + intros c Hc. rewrite Fc, <- Pc. apply F1k. intros HR; apply Hc; auto.
    + intros Hxf. rewrite (Fne Hxf). rewrite (Pne Hxf) in *. split; congruence.
Qed.

(* ------------------------------------------------------------------------------------ *)
(* Sequences of lifetime operations: at most one Stop per action, ever *)

Inductive lop :=
| LAbort (f : uid) (d : bool)
| LFinish (f : uid) (d : bool)
| LEndScope (f : uid) (name : N)
| LEvent (k : akind) (a : uid).

Definition lstep (rel : bool) (fuel : nat) (s : st) (o : lop) : res st :=
  match o with
  | LAbort f d => abort fuel s f d
  | LFinish f d => finish fuel s f d
  | LEndScope f name => end_scope rel fuel s f name
  | LEvent k a => Ok (action_event k a s)
  end.

Fixpoint lrun (rel : bool) (fuel : nat) (l : list lop) (s : st) : res st :=
  match l with
  | [] => Ok s
  | o :: l' => bind (lstep rel fuel s o) (lrun rel fuel l')
  end.

(* a Start event for an action that already exists is not part of the lifetime layer (an action
   is started once, when it is created) *)
Definition allowed (o : lop) : Prop :=
  match o with LEvent KStart _ => False | _ => True end.

(* once an action has been sent a Stop its count is <= 0, so no later decrement reaches 0 *)
Definition StopInv (s : st) : Prop :=
  forall a, (nstops a (out s) <= 1)%nat /\
            (nstops a (out s) = 1%nat -> forall c, geta s a = Some c -> (a_count c <= 0)%Z).

Lemma orel_stopinv : forall A s s', Orel A s s' -> StopInv s -> StopInv s'.
Proof.
  intros A s s' O J a.
  destruct (orel_stops _ _ _ O) as (delta & Od & Hd).
  destruct (Hd a) as (H1 & H2 & _ & H4). destruct (J a) as (J1 & J2).
  rewrite Od, nstops_app.
  destruct (nstops a delta) as [|[|k]] eqn:En; try lia.
  - rewrite Nat.add_0_r. split; auto.
    intros Hn c' Hc'.
    destruct O as [_ Ac _]. specialize (Ac a).
    change (geta (erase s) a) with (geta s a) in Ac. change (geta (erase s') a) with (geta s' a) in Ac.
    rewrite Hc' in Ac. destruct (geta s a) as [c|] eqn:Hc; try tauto.
    pose proof (arel_count_le _ _ _ _ Ac). specialize (J2 Hn c eq_refl). lia.
  - destruct H2 as (H2 & _). destruct (H2 eq_refl) as ((c & Hc & Hact) & Hg).
    assert (Hz : nstops a (out s) = 0%nat).
    { destruct (nstops a (out s)) as [|[|k]] eqn:Es; auto; try lia.
      exfalso. specialize (J2 eq_refl c Hc).
      destruct O as [_ Ac _]. specialize (Ac a).
      change (geta (erase s) a) with (geta s a) in Ac. change (geta (erase s') a) with (geta s' a) in Ac.
      rewrite Hc, Hg in Ac. destruct Ac as [Heq|(_ & _ & Hlt & _)].
      - rewrite <- Heq in Hact. discriminate.
      - simpl in Hlt. lia. }
    rewrite Hz. split; [lia|].
    intros _ c' Hc'. rewrite Hg in Hc'. inversion Hc'; subst. simpl. lia.
Qed.

(* action events: flows and output unchanged; an invariant of the counts that process_event
   respects is kept *)
Lemma visit_spec : forall (P : act -> Prop) k a s a',
  (forall c, P c -> P (process_event k c)) ->
  flows (visit k a s a') = flows s /\ out (visit k a s a') = out s /\
  (forall b, geta s b = None -> geta (visit k a s a') b = None) /\
  (forall b c, geta s b = Some c -> exists c', geta (visit k a s a') b = Some c' /\ (P c -> P c')).
Proof.
  intros P k a s a' HP. unfold visit.
  destruct (N.eqb a' a); [|repeat split; eauto].
  destruct (geta s a') as [c0|] eqn:E0; [|repeat split; eauto].
  destruct (astatus_eqb (a_status c0) AFinished); [repeat split; eauto|].
  repeat split; auto.
  - intros b Hb. destruct (N.eq_dec a' b) as [<-|Hne]; [congruence|]. rewrite geta_seta_other; auto.
  - intros b c Hc. destruct (N.eq_dec a' b) as [<-|Hne].
    + rewrite (geta_seta_same _ _ _ _ E0). rewrite E0 in Hc; inversion Hc; subst. eauto.
    + rewrite geta_seta_other; eauto.
Qed.

Lemma fold_visit_spec : forall (P : act -> Prop) k a l s,
  (forall c, P c -> P (process_event k c)) ->
  flows (fold_left (visit k a) l s) = flows s /\ out (fold_left (visit k a) l s) = out s /\
  (forall b, geta s b = None -> geta (fold_left (visit k a) l s) b = None) /\
  (forall b c, geta s b = Some c -> exists c', geta (fold_left (visit k a) l s) b = Some c' /\ (P c -> P c')).
Proof.
  intros P k a l. induction l as [|a' l IH]; simpl; intros s HP; [repeat split; eauto|].
  destruct (visit_spec P k a s a' HP) as (F1 & O1 & N1 & G1).
  destruct (IH (visit k a s a') HP) as (F2 & O2 & N2 & G2).
  repeat split; try congruence; auto.
  intros b c Hc. destruct (G1 b c Hc) as (c1 & Hc1 & P1). destruct (G2 b c1 Hc1) as (c2 & Hc2 & P2). eauto.
Qed.

Definition ev_fold (k : akind) (a : uid) (l : list (uid * inst)) (s : st) : st :=
  fold_left (fun s1 (xi : uid * inst) =>
               if listening (i_status (snd xi))
               then fold_left (visit k a) (i_actions (snd xi)) s1
               else s1) l s.

Lemma ev_fold_spec : forall (P : act -> Prop) k a l s,
  (forall c, P c -> P (process_event k c)) ->
  flows (ev_fold k a l s) = flows s /\ out (ev_fold k a l s) = out s /\
  (forall b, geta s b = None -> geta (ev_fold k a l s) b = None) /\
  (forall b c, geta s b = Some c -> exists c', geta (ev_fold k a l s) b = Some c' /\ (P c -> P c')).
Proof.
  intros P k a l. unfold ev_fold. induction l as [|[x xi] l IH]; simpl; intros s HP; [repeat split; eauto|].
  destruct (listening (i_status xi)); auto.
  destruct (fold_visit_spec P k a (i_actions xi) s HP) as (F1 & O1 & N1 & G1).
  destruct (IH (fold_left (visit k a) (i_actions xi) s) HP) as (F2 & O2 & N2 & G2).
  repeat split; try congruence; auto.
  intros b c Hc. destruct (G1 b c Hc) as (c1 & Hc1 & P1). destruct (G2 b c1 Hc1) as (c2 & Hc2 & P2). eauto.
Qed.

Lemma action_event_spec : forall (P : act -> Prop) k a s,
  (forall c, P c -> P (process_event k c)) ->
  flows (action_event k a s) = flows s /\ out (action_event k a s) = out s /\
  (forall b, geta s b = None -> geta (action_event k a s) b = None) /\
  (forall b c, geta s b = Some c -> exists c', geta (action_event k a s) b = Some c' /\ (P c -> P c')).
Proof. intros P k a s HP. apply (ev_fold_spec P k a (flows s) s HP). Qed.

Lemma flows_ranked : forall rk s s', flows s' = flows s -> ranked rk s -> ranked rk s'.
Proof. intros rk s s' H Hr x i c E. unfold getf in E. rewrite H in E. eapply Hr; eauto. Qed.

Lemma end_scope_orel_ranked : forall rk rel n s f name s',
  ranked rk s -> end_scope rel n s f name = Ok s' -> Orel anyA s s' /\ ranked rk s'.
Proof.
  unfold end_scope; intros rk rel n s f name s' Hr H.
  destruct (getf s f) as [i|] eqn:E; try discriminate.
  destruct (pop_scope name (i_scopes i)) as [[[fl al] rest]|]; try discriminate.
  bind_inv H.
  assert (Hrp : ranked rk (modf s f (set_scopes rest))).
  { intros x i' c E' Hin. pose proof (pop_modf_children s f rest x) as P. rewrite E' in P.
    destruct (getf s x) as [xi|] eqn:Ex; try tauto. destruct P as ((_ & _ & _ & Hc & _) & _).
    eapply Hr; eauto. rewrite <- Hc; auto. }
  assert (S1 : Srel anyR anyA (modf s f (set_scopes rest)) s0).
  { eapply (scope_flows_srel rk (abort n) (abort_srel rk n) anyR anyA fl); eauto using anyR_closed, anyA_owns.
    apply Forall_forall; intros; exact I. }
  split.
  - eapply orel_trans; [|eapply orel_trans; [eapply srel_orel; exact S1|]].
    + unfold Orel. rewrite erase_modf. apply Srel_refl.
    + eapply scope_actions_orel; eauto. intros; exact I.
  - eapply fbl_ranked; [eapply scope_actions_fbl; eauto|]. eapply srel_ranked; eauto.
Qed.

Lemma lstep_inv : forall rk rel fuel s o s',
  ranked rk s -> allowed o -> lstep rel fuel s o = Ok s' -> StopInv s -> StopInv s' /\ ranked rk s'.
Proof.
  intros rk rel fuel s o s' Hr Ha H J. destruct o as [f d|f d|f name|k a]; simpl in H.
  - assert (S : Srel anyR anyA s s').
    { eapply abort_srel; eauto using anyR_closed, anyA_owns; exact I. }
    split; [eapply orel_stopinv; eauto using srel_orel|eapply srel_ranked; eauto].
  - assert (S : Srel anyR anyA s s').
    { eapply finish_srel; eauto using anyR_closed, anyA_owns; exact I. }
    split; [eapply orel_stopinv; eauto using srel_orel|eapply srel_ranked; eauto].
  - destruct (end_scope_orel_ranked _ _ _ _ _ _ _ Hr H) as (O & Hr').
    split; auto. eapply orel_stopinv; eauto.
  - inversion H; subst.
    destruct (action_event_spec (fun c => (a_count c <= 0)%Z) k a s) as (F & O & Nn & G).
    { intros c Hc. destruct k; simpl in *; auto; try lia; try contradiction. }
    split; [|eapply flows_ranked; eauto].
    intros b. rewrite O. destruct (J b) as (J1 & J2). split; auto.
    intros Hn c' Hc'. destruct (geta s b) as [c|] eqn:Hc.
    + destruct (G b c Hc) as (c'' & Hc'' & HP). rewrite Hc' in Hc''. inversion Hc''; subst. apply HP. eauto.
    + rewrite (Nn b Hc) in Hc'. discriminate.
Qed.

(* over any sequence of the modelled operations no action is ever sent a second Stop *)
Theorem trace_stop_once : forall rk rel fuel ops s s',
  ranked rk s -> Forall allowed ops -> lrun rel fuel ops s = Ok s' -> StopInv s -> StopInv s'.
Proof.
  intros rk rel fuel ops. induction ops as [|o ops IH]; simpl; intros s s' Hr Ha H J.
  - inversion H; subst; auto.
  - inversion Ha; subst. bind_inv H.
    destruct (lstep_inv _ _ _ _ _ _ Hr H2 Hb J) as (J0 & Hr0). eauto.
Qed.

Lemma StopInv_nil : forall s, out s = [] -> StopInv s.
Proof. intros s H a. rewrite H. simpl. split; [lia|discriminate]. Qed.

(* ... and every Stop is emitted for an action that is STARTING or STARTED at that moment *)
Theorem step_stop_only_active : forall rk rel fuel s o s',
  ranked rk s -> lstep rel fuel s o = Ok s' ->
  exists delta, out s' = out s ++ delta /\
    forall a, (nstops a delta >= 1)%nat ->
      (exists c, geta s a = Some c /\ active (a_status c) = true) /\
      geta s' a = Some (mkAct AStopping 0%Z).
Proof.
  intros rk rel fuel s o s' Hr H.
  assert (O : Orel anyA s s' \/ out s' = out s).
  { destruct o as [f d|f d|f name|k a]; simpl in H.
    - left. eapply srel_orel. eapply (abort_srel rk fuel anyR anyA); eauto using anyR_closed, anyA_owns; exact I.
    - left. eapply srel_orel. eapply (finish_srel rk fuel anyR anyA); eauto using anyR_closed, anyA_owns; exact I.
    - left. eapply end_scope_orel_ranked; eauto.
    - right. inversion H; subst.
      destruct (action_event_spec (fun _ => True) k a s (fun _ _ => I)) as (_ & Oo & _). auto. }
  destruct O as [O|O].
  - destruct (orel_stops _ _ _ O) as (delta & Od & Hd). exists delta; split; auto.
    intros a Hn. destruct (Hd a) as (H1 & H2 & _). apply H2. lia.
  - exists []. rewrite app_nil_r. split; auto. simpl. intros a Hn. lia.
Qed.

(* ------------------------------------------------------------------------------------ *)
(* Deactivation: the reference count of an activated flow *)

(* an activator ends while others remain: the count is decremented, nothing else happens *)
Theorem deactivate_not_last : forall n s f i,
  getf s f = Some i -> is_ref_activated s i = Ok true -> i_activated i <> 1%Z ->
  abort (S n) s f true = Ok (modf s f (set_activated (i_activated i - 1)%Z)) /\
  finish n s f true = Ok (modf s f (set_activated (i_activated i - 1)%Z)).
Proof.
  intros n s f i E Href Hne. simpl. unfold finish, prologue, deactivate. rewrite E, Href. simpl.
  destruct (i_activated i - 1 =? 0)%Z eqn:Ez; [apply Z.eqb_eq in Ez; lia|]. simpl. auto.
Qed.

Lemma epilogue_abort_fields : forall s3 f d s' i, epilogue_abort s3 f d = Ok s' -> getf s3 f = Some i ->
  exists i', getf s' f = Some i' /\ i_status i' = FStopped /\ i_activated i' = i_activated i.
Proof.
  unfold epilogue_abort; intros s3 f d s' i H E. bind_inv H.
  destruct (unlink_getf_fields _ _ _ _ _ Hb E) as (i4 & E4 & _ & Ha4 & _).
  assert (E5 : getf (emit1 (modf s f (set_status FStopped)) (EFailed f)) f = Some (set_status FStopped i4)).
  { rewrite getf_emit1, (modf_some _ _ _ _ E4). eapply getf_setf_same; eauto. }
  destruct (restart_getf _ _ _ _ _ _ H E5) as (i' & E' & Hs & _ & Ha). exists i'. simpl in *.
  repeat split; auto. congruence.
Qed.

(* the last activator ends: the count reaches 0 and the instance is not running afterwards *)
Theorem deactivate_last : forall rk n s f s' i,
  ranked rk s -> getf s f = Some i -> is_ref_activated s i = Ok true -> i_activated i = 1%Z ->
  abort n s f true = Ok s' ->
  lv s' f = false /\ exists i', getf s' f = Some i' /\ i_activated i' = 0%Z.
Proof.
  intros rk n s f s' i Hr E Href Hone H.
  assert (Hp : proceeds s f true = true).
  { unfold proceeds. rewrite E, Href, Hone. auto. }
  destruct (abort_good rk n (act0 s) _ _ _ _ Hr (act0_zinv s) H) as (_ & He).
  split; auto.
  destruct n as [|n]; simpl in H; try discriminate.
  apply bind_ok in H. destruct H as ([s3 go] & Hpr & H). simpl in H.
  destruct go.
  - destruct (prologue_inv rk (abort n) (abort_srel rk n) _ _ _ _ _ _ Hr Hpr E)
      as (s1 & s0 & i1 & i2 & Hd & E1 & Hsk & Hch & E2 & Hsa & _ & _ & _ & _ & _ & _ & _ & _ & Hact21).
    destruct (deactivate_self rk (abort n) (abort_srel rk n) _ _ _ _ _ _ Hr Hd E)
      as (i1' & E1' & _ & _ & _ & _ & _ & _ & _ & Hz).
    rewrite E1 in E1'; inversion E1'; subst i1'.
    assert (E3 : getf s3 f = Some i2).
    { unfold getf. rewrite (stop_actions_flows _ _ _ Hsa). exact E2. }
    destruct (epilogue_abort_fields _ _ _ _ _ H E3) as (i' & E' & _ & Ha').
    exists i'; split; auto. rewrite Ha', Hact21. auto.
  - inversion H; subst s3.
    unfold prologue in Hpr. apply bind_ok in Hpr. destruct Hpr as ([s1 b] & Hd & Hpr). simpl in Hpr.
    destruct (deactivate_self rk (abort n) (abort_srel rk n) _ _ _ _ _ _ Hr Hd E)
      as (i1 & E1 & _ & _ & _ & _ & _ & _ & _ & Hz).
    destruct (deactivate_seg rk (abort n) (abort_good rk n) (act0 s) _ _ _ _ _ Hr (act0_zinv s) Hd) as (_ & Hb).
    specialize (Hb Hp). subst b. rewrite E1 in Hpr.
    destruct (skip_abort (i_status i1)).
    + inversion Hpr; subst. eauto.
    + bind_inv Hpr. destruct (getf s0 f); try discriminate. bind_inv Hpr. discriminate.
Qed.

(* the end-of-slide guard: an activated flow that reaches its end without ever having waited
   (status STARTING) is marked STARTED and is NOT finished - it runs once and stays activated;
   every other flow that reaches its end is finished *)
Theorem end_of_slide_activated : forall activated waiting,
  (0 < activated)%Z -> end_of_slide FStarting activated true waiting = (FStarted, true, false).
Proof. intros a w H. unfold end_of_slide. simpl. apply Z.ltb_lt in H. rewrite H. auto. Qed.

Theorem end_of_slide_finishes : forall status activated waiting,
  (status <> FStarting \/ (activated <= 0)%Z) ->
  snd (end_of_slide status activated true waiting) = true.
Proof.
  intros st a w H. unfold end_of_slide. simpl.
  destruct st; simpl; auto. destruct H as [H|H]; [congruence|].
  destruct (0 <? a)%Z eqn:E; auto. apply Z.ltb_lt in E. lia.
Qed.

(* ------------------------------------------------------------------------------------ *)
(* The release of shared actions at a scope end (rel = true): afterwards the flow no longer
   holds the action, so neither an outer scope end nor the end of the flow can give up the
   same share a second time *)

Definition held (s : st) (f a : uid) : Prop :=
  exists i, getf s f = Some i /\
    (In a (i_actions i) \/ exists sc, In sc (i_scopes i) /\ In a (snd (snd sc))).

Definition nodup_actions (s : st) (f : uid) : Prop :=
  forall i, getf s f = Some i -> NoDup (i_actions i).

Lemma remove1_nodup : forall x l r, remove1 x l = Some r -> NoDup l -> NoDup r /\ ~ In x r.
Proof.
  induction l as [|y l IH]; simpl; intros r H Hn; try discriminate.
  inversion Hn; subst.
  destruct (N.eqb x y) eqn:E.
  - apply N.eqb_eq in E; subst. inversion H; subst. auto.
  - destruct (remove1 x l) as [r'|] eqn:E1; try discriminate. inversion H; subst.
    destruct (IH _ eq_refl H3) as (Hn' & Hx). split.
    + constructor; auto. intros Hin. apply H2. eapply remove1_in; eauto.
    + intros [->|Hin]; [rewrite N.eqb_refl in E; discriminate|auto].
Qed.

Lemma remove1_none_notin : forall x l, remove1 x l = None -> ~ In x l.
Proof.
  induction l as [|y l IH]; simpl; intros H; auto.
  destruct (N.eqb x y) eqn:E; try discriminate.
  destruct (remove1 x l) eqn:E1; try discriminate.
  intros [->|Hin]; [rewrite N.eqb_refl in E; discriminate|apply IH; auto].
Qed.

Lemma remove1_opt_spec : forall x l, NoDup l ->
  NoDup (remove1_opt x l) /\ ~ In x (remove1_opt x l) /\ (forall y, In y (remove1_opt x l) -> In y l).
Proof.
  intros x l Hn. unfold remove1_opt. destruct (remove1 x l) as [r|] eqn:E.
  - destruct (remove1_nodup _ _ _ E Hn). repeat split; auto. intros y Hy. eapply remove1_in; eauto.
  - repeat split; auto. apply remove1_none_notin; auto.
Qed.

Lemma release_not_held : forall f a s, nodup_actions s f -> ~ held (release_shared f a s) f a.
Proof.
  intros f a s Hn (i' & E' & Hh). unfold release_shared, modf in E'.
  destruct (getf s f) as [i|] eqn:E.
  - rewrite (getf_setf_same _ _ _ _ E) in E'. inversion E'; subst i'. simpl in Hh.
    destruct (remove1_opt_spec a (i_actions i) (Hn _ E)) as (_ & Hx & _).
    destruct Hh as [Hh|(sc & Hsc & Hin)]; [contradiction|].
    apply in_map_iff in Hsc. destruct Hsc as (sc0 & <- & _). simpl in Hin.
    apply filter_In in Hin. destruct Hin as (_ & Hne). rewrite N.eqb_refl in Hne. discriminate.
  - rewrite E in E'. discriminate.
Qed.

Lemma release_held_mono : forall f a b s, held (release_shared f b s) f a -> held s f a.
Proof.
  intros f a b s (i' & E' & Hh). unfold release_shared, modf in E'.
  destruct (getf s f) as [i|] eqn:E.
  - rewrite (getf_setf_same _ _ _ _ E) in E'. inversion E'; subst i'. simpl in Hh.
    exists i; split; auto.
    destruct Hh as [Hh|(sc & Hsc & Hin)].
    + left. unfold remove1_opt in Hh. destruct (remove1 b (i_actions i)) eqn:Er; auto.
      eapply remove1_in; eauto.
    + right. apply in_map_iff in Hsc. destruct Hsc as (sc0 & <- & Hsc0). simpl in Hin.
      apply filter_In in Hin. exists sc0; split; tauto.
  - exists i'; split; auto.
Qed.

Lemma release_nodup : forall f b s, nodup_actions s f -> nodup_actions (release_shared f b s) f.
Proof.
  intros f b s Hn i' E'. unfold release_shared, modf in E'.
  destruct (getf s f) as [i|] eqn:E.
  - rewrite (getf_setf_same _ _ _ _ E) in E'. inversion E'; subst i'. simpl.
    apply (remove1_opt_spec b (i_actions i) (Hn _ E)).
  - apply Hn. congruence.
Qed.

Lemma held_same_flows : forall s s' f a, flows s' = flows s -> held s' f a -> held s f a.
Proof. intros s s' f a H (i & E & Hh). exists i; split; auto. unfold getf in *. rewrite <- H; auto. Qed.

Lemma nodup_same_flows : forall s s' f, flows s' = flows s -> nodup_actions s f -> nodup_actions s' f.
Proof. intros s s' f H Hn i E. apply Hn. unfold getf in *. rewrite <- H; auto. Qed.

Lemma scope_action_held : forall f s b s' a, scope_action true f s b = Ok s' ->
  nodup_actions s f ->
  nodup_actions s' f /\ (held s' f a -> held s f a) /\
  (forall c c', geta s b = Some c -> active (a_status c) = true -> geta s' b = Some c' ->
     active (a_status c') = true -> ~ held s' f b).
Proof.
  unfold scope_action; intros f s b s' a H Hn.
  destruct (geta s b) as [c|] eqn:Ec; try discriminate.
  destruct (active (a_status c)) eqn:Eact.
  2:{ inversion H; subst. repeat split; auto. intros c0 c' Hc0 Hact0. inversion Hc0; subst. congruence. }
  destruct (a_count c - 1 =? 0)%Z eqn:Ez; inversion H; subst; clear H.
  - repeat split.
    + eapply nodup_same_flows; eauto; reflexivity.
    + apply held_same_flows; reflexivity.
    + intros c0 c' _ _ Hc' Hact'. rewrite geta_emit1, (geta_seta_same _ _ _ _ Ec) in Hc'.
      inversion Hc'; subst. discriminate.
  - set (s1 := seta s b (mkAct (a_status c) (a_count c - 1)%Z)).
    assert (Hn1 : nodup_actions s1 f) by (eapply nodup_same_flows; eauto; reflexivity).
    repeat split.
    + apply release_nodup; auto.
    + intros Hh. apply release_held_mono in Hh. eapply held_same_flows; eauto; reflexivity.
    + intros _ _ _ _ _ _. apply release_not_held; auto.
Qed.

Lemma scope_actions_release : forall f l s s',
  scope_actions true f l s = Ok s' -> nodup_actions s f ->
  forall a c c', In a l -> geta s a = Some c -> active (a_status c) = true ->
    geta s' a = Some c' -> active (a_status c') = true -> ~ held s' f a.
Proof.
  induction l as [|b l IH]; simpl; intros s s' H Hn a c c' Hin Hc Hact Hc' Hact'; [tauto|].
  bind_inv H.
  destruct (scope_action_held _ _ _ _ a Hb Hn) as (Hn0 & _ & Hrel).
  assert (O1 : Orel anyA s0 s') by (eapply scope_actions_orel; eauto; intros; exact I).
  assert (O0 : Orel anyA s s0).
  { unfold Orel. eapply srel_stop_action; [exact I|]. eapply scope_action_erase; eauto. }
  destruct (orel_acts_fwd _ _ _ _ _ O0 Hc) as (c0 & Hc0 & Hr0).
  assert (Hact0 : active (a_status c0) = true).
  { destruct (orel_acts_fwd _ _ _ _ _ O1 Hc0) as (c'' & Hc'' & Hr1).
    rewrite Hc' in Hc''. inversion Hc''; subst c''.
    destruct Hr1 as [->|(_ & H1 & _)]; auto. }
  (* held only shrinks from s0 to s' *)
  assert (Hmono : forall l' t t', scope_actions true f l' t = Ok t' -> nodup_actions t f ->
                    held t' f a -> held t f a).
  { clear. induction l' as [|b' l' IH']; simpl; intros t t' H Hn Hh; [inversion H; subst; auto|].
    bind_inv H. destruct (scope_action_held _ _ _ _ a Hb Hn) as (Hn0 & Hm & _). eauto. }
  destruct (in_dec N.eq_dec a l) as [Hin'|Hnin].
  - eapply IH; eauto.
  - destruct Hin as [<-|Hin]; [|contradiction].
    intros Hh. apply (Hrel c c0 Hc Hact Hc0 Hact0). eapply Hmono; eauto.
Qed.

(* EndScope with the release: a shared action of the scope that is still running afterwards
   is no longer held by f (not in action_uids, in none of its open scopes) *)
Theorem end_scope_releases : forall rk n s f name s' i fl al rest,
  ranked rk s -> getf s f = Some i -> NoDup (i_actions i) ->
  pop_scope name (i_scopes i) = Some ((fl, al), rest) ->
  end_scope true n s f name = Ok s' ->
  forall a c', In a al -> geta s' a = Some c' -> active (a_status c') = true -> ~ held s' f a.
Proof.
  unfold end_scope; intros rk n s f name s' i fl al rest Hr E Hnd Hpop H a c' Hin Hc' Hact'.
  rewrite E, Hpop in H. bind_inv H.
  set (sp := modf s f (set_scopes rest)) in *.
  assert (Hrp : ranked rk sp).
  { intros x i' c E' Hin'. pose proof (pop_modf_children s f rest x) as P. fold sp in P. rewrite E' in P.
    destruct (getf s x) as [xi|] eqn:Ex; try tauto. destruct P as ((_ & _ & _ & Hc & _) & _).
    eapply Hr; eauto. rewrite <- Hc; auto. }
  assert (S1 : Srel anyR anyA sp s0).
  { eapply (scope_flows_srel rk (abort n) (abort_srel rk n) anyR anyA fl); eauto using anyR_closed, anyA_owns.
    apply Forall_forall; intros; exact I. }
  assert (Hn0 : nodup_actions s0 f).
  { intros i0 E0. destruct (srel_bwd _ _ _ _ _ _ S1 E0) as (ip & Ep & (_ & _ & Ha & _)).
    rewrite Ha. unfold sp in Ep. rewrite (modf_some _ _ _ _ E) in Ep.
    rewrite (getf_setf_same _ _ _ _ E) in Ep. inversion Ep; subst. simpl. auto. }
  assert (O2 : Orel anyA s0 s') by (eapply scope_actions_orel; eauto; intros; exact I).
  destruct (geta s0 a) as [c0|] eqn:Hc0.
  - destruct (orel_acts_fwd _ _ _ _ _ O2 Hc0) as (c'' & Hc'' & Hr2).
    rewrite Hc' in Hc''. inversion Hc''; subst c''.
    assert (Hact0 : active (a_status c0) = true) by (destruct Hr2 as [->|(_ & H1 & _)]; auto).
    eapply scope_actions_release; eauto.
  - exfalso. destruct O2 as [_ Ac _]. specialize (Ac a).
    change (geta (erase s0) a) with (geta s0 a) in Ac. change (geta (erase s') a) with (geta s' a) in Ac.
    rewrite Hc0, Hc' in Ac. auto.
Qed.

(* ------------------------------------------------------------------------------------ *)
(* _finish_flow: own actions; bundled statements *)

Theorem finish_own_actions : forall rk n s f d s' i,
  ranked rk s -> finish n s f d = Ok s' -> proceeds s f d = true -> getf s f = Some i ->
  listening (i_status i) = true ->
  forall a c, In a (i_actions i) -> geta s a = Some c -> active (a_status c) = true ->
  exists c', geta s' a = Some c' /\ (a_count c' < a_count c)%Z.
Proof.
  unfold finish; intros rk n s f d s' i Hr H Hp E Hl a c Hin Hc Hact.
  apply bind_ok in H. destruct H as ([s3 go] & Hpr & H). simpl in H.
  assert (Hgo : go = true).
  { destruct go; auto. exfalso.
    destruct (prologue_seg rk (abort n) (abort_srel rk n) (abort_good rk n) (act0 s) _ _ _ _ _ _ Hr (act0_zinv s) Hpr)
      as (_ & _ & Hstop).
    destruct (Hstop eq_refl Hp) as (i3 & E3 & Hsk).
    unfold prologue in Hpr. apply bind_ok in Hpr. destruct Hpr as ([s1 b] & Hd & Hpr). simpl in Hpr.
    destruct (deactivate_self rk (abort n) (abort_srel rk n) _ _ _ _ _ _ Hr Hd E) as (i1 & E1 & Hs1 & _).
    destruct b.
    - rewrite E1 in Hpr. destruct (skip_finish (i_status i1)) eqn:Esk.
      + rewrite Hs1 in Esk. unfold skip_finish in *. rewrite Hl in Esk. discriminate.
      + bind_inv Hpr. destruct (getf s0 f); try discriminate. bind_inv Hpr. discriminate.
    - destruct (deactivate_seg rk (abort n) (abort_good rk n) (act0 s) _ _ _ _ _ Hr (act0_zinv s) Hd) as (_ & Hb).
      specialize (Hb Hp). discriminate. }
  subst go.
  destruct (prologue_inv rk (abort n) (abort_srel rk n) _ _ _ _ _ _ Hr Hpr E)
    as (s1 & s0 & i1 & i2 & Hd & E1 & Hsk & Hch & E2 & Hsa & Ha2 & _).
  assert (S1 : Srel anyR anyA s s1).
  { eapply (deactivate_srel rk (abort n) (abort_srel rk n) anyR anyA); eauto using anyR_closed, anyA_owns; exact I. }
  assert (S10 : Srel anyR anyA s s0).
  { eapply Srel_trans; [exact S1|].
    eapply (abort_children_srel rk (abort n) (abort_srel rk n) anyR anyA (i_children i1));
      eauto using anyR_closed, anyA_owns, srel_ranked.
    apply Forall_forall; intros; exact I. }
  destruct (srel_acts_fwd _ _ _ _ _ _ S10 Hc) as (c0 & Hc0 & Hr0).
  assert (S3 : Srel anyR anyA s0 s3) by (eapply stop_actions_srel; eauto; intros; exact I).
  assert (S4 : Srel anyR anyA s3 s').
  { destruct (prologue_out rk n _ _ _ _ _ _ Hr Hpr E) as (_ & i3 & _ & _ & E3 & Hsk3 & _).
    eapply epilogue_finish_srel; eauto using skip_finish_listening. exact I. }
  destruct Hr0 as [->|(_ & _ & Hlt & _)].
  - rewrite Ha2 in Hsa.
    destruct (stop_actions_decr _ _ _ Hsa a c Hin Hc0 Hact) as (c3 & Hc3 & Hlt3).
    destruct (srel_acts_fwd _ _ _ _ _ _ S4 Hc3) as (c' & Hc' & Hr').
    exists c'; split; auto. pose proof (arel_count_le _ _ _ _ Hr'). lia.
  - destruct (srel_acts_fwd _ _ _ _ _ _ S3 Hc0) as (c3 & Hc3 & Hr3).
    destruct (srel_acts_fwd _ _ _ _ _ _ S4 Hc3) as (c' & Hc' & Hr').
    exists c'; split; auto.
    pose proof (arel_count_le _ _ _ _ Hr3). pose proof (arel_count_le _ _ _ _ Hr'). lia.
Qed.

(* an unfinished action whose count is 1 and that gives up a share is stopped *)
Lemma last_share_stopped : forall (A : uid -> Prop) s s' a c c',
  Orel A s s' -> geta s a = Some c -> active (a_status c) = true -> a_count c = 1%Z ->
  geta s' a = Some c' -> (a_count c' < a_count c)%Z ->
  c' = mkAct AStopping 0%Z.
Proof.
  intros A s s' a c c' O Hc Hact H1 Hc' Hlt.
  destruct (orel_acts_fwd _ _ _ _ _ O Hc) as (c'' & Hc'' & Hr).
  rewrite Hc' in Hc''. inversion Hc''; subst c''.
  destruct Hr as [->|(_ & _ & _ & [(_ & _ & Hpos)|(Hs & Hz)])]; try lia.
  destruct c'; simpl in *; subst; auto.
Qed.

(* the whole statement about Stop events of one _abort_flow / _finish_flow call *)
Definition stop_once_statement (run : st -> uid -> bool -> res st) (needs : fstatus -> bool) : Prop :=
  forall rk s f d s', ranked rk s -> run s f d = Ok s' ->
    exists delta, out s' = out s ++ delta /\
      (* at most one Stop per action; exactly for the actions that were STARTING/STARTED and are
         STOPPING with count 0 afterwards; only for actions owned inside the subtree of f *)
      (forall a, (nstops a delta <= 1)%nat /\
                 (nstops a delta = 1%nat <->
                    (exists c, geta s a = Some c /\ active (a_status c) = true) /\
                    geta s' a = Some (mkAct AStopping 0%Z)) /\
                 (nstops a delta = 1%nat -> owned s f a) /\
                 (nstops a delta = 0%nat -> ast s' a = ast s a)) /\
      (* every unfinished action of the ending instance gives up one share; if it was the last
         share (count 1) the action gets its Stop; if other flows still share it (count stays
         positive) it gets none *)
      (forall i, getf s f = Some i -> proceeds s f d = true -> needs (i_status i) = true ->
         forall a c, In a (i_actions i) -> geta s a = Some c -> active (a_status c) = true ->
           exists c', geta s' a = Some c' /\ (a_count c' < a_count c)%Z /\
                      (a_count c = 1%Z -> nstops a delta = 1%nat) /\
                      ((0 < a_count c')%Z -> nstops a delta = 0%nat /\ a_status c' = a_status c)).

Lemma stop_once_generic : forall (run : st -> uid -> bool -> res st) (needs : fstatus -> bool),
  (forall rk s f d s', ranked rk s -> run s f d = Ok s' -> Srel (reach s f) (owned s f) s s') ->
  (forall rk s f d s' i, ranked rk s -> run s f d = Ok s' -> proceeds s f d = true -> getf s f = Some i ->
     needs (i_status i) = true ->
     forall a c, In a (i_actions i) -> geta s a = Some c -> active (a_status c) = true ->
     exists c', geta s' a = Some c' /\ (a_count c' < a_count c)%Z) ->
  stop_once_statement run needs.
Proof.
  intros run needs Hsrel Hown rk s f d s' Hr H.
  pose proof (Hsrel _ _ _ _ _ Hr H) as S.
  pose proof (srel_orel _ _ _ _ S) as O.
  destruct (orel_stops _ _ _ O) as (delta & Od & Hd).
  exists delta; split; auto. split; [exact Hd|].
  intros i E Hp Hn a c Hin Hc Hact.
  destruct (Hown _ _ _ _ _ _ Hr H Hp E Hn a c Hin Hc Hact) as (c' & Hc' & Hlt).
  exists c'; repeat split; auto.
  - intros H1. destruct (Hd a) as (_ & (_ & H2) & _). apply H2. split; eauto.
    rewrite Hc'. f_equal. eapply last_share_stopped; eauto.
  - destruct (Hd a) as (Hle & (H2 & _) & _).
    destruct (nstops a delta) as [|[|k]]; auto; try lia.
    destruct (H2 eq_refl) as (_ & Hg). rewrite Hg in Hc'. inversion Hc'; subst. simpl in H0. lia.
  - destruct (orel_acts_fwd _ _ _ _ _ O Hc) as (c'' & Hc'' & Hrel).
    rewrite Hc' in Hc''. inversion Hc''; subst c''.
    destruct Hrel as [->|(_ & _ & _ & [(Hs & _)|(_ & Hz)])]; auto. lia.
Qed.

Theorem abort_stop_once : forall n, stop_once_statement (abort n) live.
Proof.
  intros n. apply stop_once_generic.
  - intros. eapply abort_srel; eauto using reach_closed, reach_owns, reach_self.
  - intros. eapply abort_own_actions; eauto.
Qed.

Theorem finish_stop_once : forall n, stop_once_statement (finish n) listening.
Proof.
  intros n. apply stop_once_generic.
  - intros. eapply finish_srel; eauto using reach_closed, reach_owns, reach_self.
  - intros. eapply finish_own_actions; eauto.
Qed.

(* ------------------------------------------------------------------------------------ *)
(* the last activator ends: the restarted instances (children of the reference instance f with
   the same flow id) are stopped as well *)
Definition restarted_child (s : st) (f : uid) (fid : N) (c : uid) : Prop :=
  exists ci fi, getf s c = Some ci /\ i_flow ci = fid /\ i_parent ci = Some f /\
                getf s f = Some fi /\ i_flow fi = fid.

Lemma restarted_child_stable : forall (R A : uid -> Prop) s t f fid c,
  Srel R A s t -> restarted_child s f fid c -> restarted_child t f fid c.
Proof.
  intros R A s t f fid c S (ci & fi & Ec & Hfl & Hp & Ef & Hff).
  destruct (srel_fwd _ _ _ _ _ _ S Ec) as (ci' & Ec' & (F1 & P1 & _)).
  destruct (srel_fwd _ _ _ _ _ _ S Ef) as (fi' & Ef' & (F2 & _)).
  exists ci', fi'. repeat split; auto; congruence.
Qed.

Lemma restarted_child_proceeds : forall s f fid c, restarted_child s f fid c -> proceeds s c true = true.
Proof.
  intros s f fid c (ci & fi & Ec & Hfl & Hp & Ef & Hff).
  unfold proceeds, is_ref_activated. rewrite Ec, Hp, Ef, Hfl, Hff, N.eqb_refl. simpl.
  destruct (0 <? i_activated ci)%Z; auto.
Qed.

Section SameDone.
  Variable rk : uid -> nat.
  Variable ab : st -> uid -> bool -> res st.
  Hypothesis Hab2 : forall Z s c d s',
    ranked rk s -> Zinv Z s -> ab s c d = Ok s' ->
    Seg Z s s' /\ (proceeds s c d = true -> lv s' c = false).

  Lemma abort_same_done : forall f fid l s s',
    ranked rk s -> abort_same ab fid l s = Ok s' ->
    Srel anyR anyA s s' /\
    forall c, In c l -> restarted_child s f fid c -> lst s' c = false.
  Proof.
    induction l as [|c0 l IH]; simpl; intros s s' Hr H.
    - inversion H; subst. split; [apply Srel_refl|tauto].
    - destruct (getf s c0) as [c0i|] eqn:E0; try discriminate.
      destruct (N.eqb (i_flow c0i) fid) eqn:Efid.
      + bind_inv H.
        destruct (Hab2 (fun _ => False) _ _ _ _ Hr (fun _ _ F => False_ind _ F) Hb) as (G1 & Hp).
        assert (S1 : Srel anyR anyA s s0) by apply G1.
        assert (S2 : Srel anyR anyA s0 (modf s0 c0 (set_activated 0%Z))) by (apply modf_srel_activated0; exact I).
        assert (S12 : Srel anyR anyA s (modf s0 c0 (set_activated 0%Z))) by (eapply Srel_trans; eauto).
        destruct (IH _ _ (srel_ranked _ _ _ _ _ S12 Hr) H) as (S3 & Hd).
        split; [eapply Srel_trans; eauto|].
        intros c Hin Hrc.
        destruct (in_dec N.eq_dec c l) as [Hl|Hnl].
        * apply Hd; auto. eapply restarted_child_stable; eauto.
        * destruct Hin as [<-|Hin]; [|contradiction].
          eapply lst_mono; [exact S3|]. eapply lst_mono; [exact S2|].
          apply lst_lv. apply Hp. eapply restarted_child_proceeds; eauto.
      + destruct (IH _ _ Hr H) as (S3 & Hd). split; auto.
        intros c [<-|Hin] Hrc; auto.
        destruct Hrc as (ci & fi & Ec & Hfl & _). rewrite E0 in Ec. inversion Ec; subst.
        rewrite N.eqb_refl in Efid. discriminate.
  Qed.
End SameDone.

Theorem deactivate_last_children : forall rk n s f s' i,
  ranked rk s -> getf s f = Some i -> is_ref_activated s i = Ok true -> i_activated i = 1%Z ->
  abort n s f true = Ok s' ->
  forall c ci, In c (i_children i) -> getf s c = Some ci -> i_flow ci = i_flow i ->
    i_parent ci = Some f -> lst s' c = false.
Proof.
  intros rk n s f s' i Hr E Href Hone H c ci Hin Ec Hfl Hpar.
  destruct n as [|n]; simpl in H; try discriminate.
  apply bind_ok in H. destruct H as ([s3 go] & Hpr & H). simpl in H.
  (* expose the deactivate prologue *)
  assert (Hdx : exists s1, deactivate (abort n) s f true = Ok (s1, true) /\ Srel anyR anyA s1 s').
  { destruct go.
    - destruct (prologue_inv rk (abort n) (abort_srel rk n) _ _ _ _ _ _ Hr Hpr E)
        as (s1 & s0 & i1 & i2 & Hd & E1 & Hsk & Hch & E2 & Hsa & _).
      exists s1; split; auto.
      assert (Hr1 : ranked rk s1).
      { eapply srel_ranked; [|exact Hr].
        eapply (deactivate_srel rk (abort n) (abort_srel rk n) anyR anyA); eauto using anyR_closed, anyA_owns; exact I. }
      eapply Srel_trans; [|eapply Srel_trans].
      + eapply (abort_children_srel rk (abort n) (abort_srel rk n) anyR anyA (i_children i1));
          eauto using anyR_closed, anyA_owns. apply Forall_forall; intros; exact I.
      + eapply stop_actions_srel; eauto; intros; exact I.
      + destruct (prologue_out rk n _ _ _ _ _ _ Hr Hpr E) as (_ & i3 & _ & _ & E3 & Hsk3 & _).
        eapply epilogue_abort_srel; eauto using skip_abort_live. exact I.
    - inversion H; subst s3.
      unfold prologue in Hpr. apply bind_ok in Hpr. destruct Hpr as ([s1 b] & Hd & Hpr). simpl in Hpr.
      assert (Hp : proceeds s f true = true) by (unfold proceeds; rewrite E, Href, Hone; auto).
      destruct (deactivate_seg rk (abort n) (abort_good rk n) (act0 s) _ _ _ _ _ Hr (act0_zinv s) Hd) as (_ & Hb).
      specialize (Hb Hp). subst b.
      destruct (getf s1 f) as [i1|]; try discriminate.
      destruct (skip_abort (i_status i1)).
      + inversion Hpr; subst. exists s'; split; auto. apply Srel_refl.
      + bind_inv Hpr. destruct (getf s0 f); try discriminate. bind_inv Hpr. discriminate. }
  destruct Hdx as (s1 & Hd & S1).
  unfold deactivate in Hd. rewrite E, Href in Hd. simpl in Hd. rewrite Hone in Hd. simpl in Hd.
  bind_inv Hd. inversion Hd; subst s0.
  set (sm := modf s f (set_activated (1 - 1)%Z)) in *.
  assert (Sm : Srel anyR anyA s sm).
  { unfold sm. rewrite (modf_some _ _ _ _ E). apply srel_set_activated; unfold anyR; auto. }
  destruct (abort_same_done rk (abort n) (abort_good rk n) f (i_flow i) (i_children i) sm s1
              (srel_ranked _ _ _ _ _ Sm Hr) Hb) as (_ & Hdone).
  eapply lst_mono; [exact S1|]. apply Hdone; auto.
  eapply restarted_child_stable; [exact Sm|].
  exists ci, i. repeat split; auto.
Qed.

(* ------------------------------------------------------------------------------------ *)
(* _abort_flow(..., restart_flow=False): everything except the restart is as for _abort_flow *)

Lemma abort_top_true : forall n s f d, abort_top true n s f d = abort n s f d.
Proof.
  destruct n as [|n]; simpl; auto. intros s f d.
  destruct (prologue (abort n) skip_abort s f d) as [[s3 go]|e]; simpl; auto.
  rewrite Bool.orb_false_r. auto.
Qed.

Theorem abort_top_srel : forall rk r n (R A : uid -> Prop) s f d s',
  ranked rk s -> closed R s -> owns R A s -> R f -> abort_top r n s f d = Ok s' -> Srel R A s s'.
Proof.
  destruct n as [|n]; simpl; intros R A s f d s' Hr Hc Ho HR H; try discriminate.
  apply bind_ok in H. destruct H as ([s3 go] & Hp & H). simpl in H.
  destruct (prologue_srel rk (abort n) (abort_srel rk n) R A _ _ _ _ _ _ Hr Hc Ho HR Hp) as (S & Hgo).
  destruct go; [|inversion H; subst; auto].
  destruct (Hgo eq_refl) as (i3 & E3 & Hsk).
  eapply Srel_trans; [exact S|].
  eapply epilogue_abort_srel; eauto using skip_abort_live.
Qed.

Theorem abort_top_children_stop : forall rk r n s f d s',
  ranked rk s -> abort_top r n s f d = Ok s' -> proceeds s f d = true -> lv s f = true ->
  lv s' f = false /\ forall x, started_by s f x -> lst s' x = false.
Proof.
  intros rk r n s f d s' Hr H Hp Hl.
  assert (HG : Seg (act0 s) s s' /\ lv s' f = false).
  { destruct n as [|n]; simpl in H; try discriminate.
    apply bind_ok in H. destruct H as ([s3 go] & Hpr & H). simpl in H.
    destruct (prologue_seg rk (abort n) (abort_srel rk n) (abort_good rk n) (act0 s) _ _ _ _ _ _ Hr (act0_zinv s) Hpr)
      as (G & Hgo & Hstop).
    destruct go.
    - destruct (Hgo eq_refl) as (i3 & E3 & Hsk & Hdone).
      destruct (epilogue_abort_seg (act0 s) _ _ _ _ _ E3 (skip_abort_live _ Hsk) Hdone H) as (G2 & Hlv).
      split; auto. eapply seg_trans; eauto.
    - inversion H; subst. split; auto.
      destruct (Hstop eq_refl Hp) as (i3 & E3 & Hsk).
      unfold lv. rewrite E3. unfold skip_abort in Hsk. unfold live.
      destruct (listening (i_status i3)), (is_stopping (i_status i3)); simpl in *; auto; discriminate. }
  destruct HG as (G & He). split; auto.
  apply started_chain; auto.
  intros i c E Hin Hz. destruct G as (_ & _ & G). eapply G; eauto.
  unfold lv in Hl. rewrite E in Hl; auto.
Qed.

(* ... and it never emits a restart of f *)
Theorem abort_top_no_restart : forall rk n s f d s',
  ranked rk s -> abort_top false n s f d = Ok s' ->
  exists delta, out s' = out s ++ delta /\ forall src v, ~ In (ERestart f src v) delta.
Proof.
  destruct n as [|n]; simpl; intros s f d s' Hr H; try discriminate.
  apply bind_ok in H. destruct H as ([s3 go] & Hpr & H). simpl in H.
  rewrite Bool.orb_true_r in H.
  assert (S : Srel (below rk f) anyA s s3 \/ True) by (right; exact I). clear S.
  (* the prologue works strictly below f, except for f's own activated count *)
  destruct (getf s f) as [i|] eqn:E.
  2:{ unfold prologue, deactivate in Hpr. rewrite E in Hpr. discriminate. }
  destruct go.
  - destruct (prologue_out rk n _ _ _ _ _ _ Hr Hpr E) as (pre & i3 & O3 & F3 & E3 & _).
    unfold epilogue_abort in H. bind_inv H.
    destruct (unlink_getf_fields _ _ _ _ _ Hb E3) as (i4 & E4 & _).
    assert (E5 : getf (emit1 (modf s0 f (set_status FStopped)) (EFailed f)) f = Some (set_status FStopped i4)).
    { rewrite getf_emit1, (modf_some _ _ _ _ E4). eapply getf_setf_same; eauto. }
    destruct (restart_out _ _ _ _ _ H E5) as (O5 & _).
    exists (pre ++ [EFailed f]). split.
    + rewrite O5, app_nil_r, out_emit1, modf_out, (unlink_out _ _ _ Hb), O3, app_assoc. auto.
    + intros src v Hin. apply in_app_or in Hin. destruct Hin as [Hin|[Hin|[]]]; try discriminate.
      rewrite Forall_forall in F3. specialize (F3 _ Hin). simpl in F3. unfold below in F3. lia.
  - inversion H; subst s3.
    assert (S : Srel anyR anyA s s').
    { eapply (prologue_srel rk (abort n) (abort_srel rk n) anyR anyA); eauto using anyR_closed, anyA_owns; exact I. }
    (* early return: only the deactivate prologue ran, which works below f *)
    unfold prologue in Hpr. apply bind_ok in Hpr. destruct Hpr as ([s1 b] & Hd & Hpr). simpl in Hpr.
    assert (Hs1 : s1 = s').
    { destruct b; [|inversion Hpr; auto].
      destruct (getf s1 f) as [i1|]; try discriminate.
      destruct (skip_abort (i_status i1)); [inversion Hpr; auto|].
      bind_inv Hpr. destruct (getf s0 f); try discriminate. bind_inv Hpr. discriminate. }
    subst s1.
    unfold deactivate in Hd. rewrite E in Hd.
    apply bind_ok in Hd. destruct Hd as (isref & Hisref & Hd).
    destruct isref; [|inversion Hd; subst; exists []; rewrite app_nil_r; split; auto].
    destruct (i_activated i - 1 =? 0)%Z.
    + bind_inv Hd. inversion Hd; subst s0.
      assert (Hpos : (0 < i_activated i)%Z).
      { destruct d; [|discriminate]. unfold is_ref_activated in Hisref.
        destruct (0 <? i_activated i)%Z eqn:Ez; [apply Z.ltb_lt in Ez; auto|discriminate]. }
      assert (Hrm : ranked rk (modf s f (set_activated (i_activated i - 1)%Z))).
      { eapply srel_ranked; [|exact Hr]. rewrite (modf_some _ _ _ _ E).
        apply (srel_set_activated anyR anyA); unfold anyR; auto. }
      assert (Sx : Srel (below rk f) anyA (modf s f (set_activated (i_activated i - 1)%Z)) s').
      { eapply (abort_same_srel rk (abort n) (abort_srel rk n) (below rk f) anyA (i_flow i) (i_children i));
          eauto using below_closed, anyA_owns.
        apply Forall_forall. intros c Hin. eapply Hr; eauto. }
      destruct Sx as [_ _ (p1 & O1 & F1 & _)]. rewrite modf_out in O1.
      exists p1; split; auto.
      intros src v Hin. rewrite Forall_forall in F1. specialize (F1 _ Hin). simpl in F1. unfold below in F1. lia.
    + inversion Hd; subst. exists []. rewrite modf_out, app_nil_r. split; auto.
Qed.
