(* Pipe.FlowCheck - structural checkers over the SHIPPED Colang programs (T-tie of C01/C02).

   Gen/C01Flows.v (translator/gen_c01.py, regenerated from the source tree on every run)
   contains the compiled flat elements of the Colang 1.0 gate flows and the statement trees of
   the Colang 2.x guardrails library.  This file defines

     * `gatedb` - a dominance checker over flat element lists: no path of the control-flow
       graph (as `slide` follows it: if/_next_else, while/_next_on_break, jump/_next) from an
       entry to a target element avoids the gate element, except through an excused guard edge;
       proved sound w.r.t. `path` in FlowCheck_proofs.v;
     * `lrun` - a mini-interpreter of the rails loop (counter variable, list variable), used to
       prove that the loop of `run input rails` / `run output rails` calls the rails
       0, 1, ..., n-1 in this order for EVERY n;
     * `paths` over Colang 2 statement trees and the checks of guardrails.co
       (`await run input rails` dominates the end of `_user_said`; `_bot_say` awaits
       `run output rails` before UtteranceBotAction unless the in-progress flag is set;
       `run output rails` leaves the flag False on every path, including failure of the awaited
       `output rails` flow).
   Definitions only. *)
From Coq Require Import List String Bool ZArith.
Import ListNotations.
Open Scope string_scope.
Open Scope list_scope.

(* ------------------------------------------------------------------ Colang 1.0 flat elements *)

Inductive elem :=
| EMeta
| EMatch (ev : string)                              (* wait for an event of this type *)
| ESet (key expr : string)
| EIf (expr : string) (next_else : Z)
| EWhile (expr : string) (next_on_break : Z)
| EJump (next : Z)
| EFlow (name : string)                             (* subflow call; the name may be an expression *)
| ECreate (ev : string) (params : list (string * string))   (* run_action create_event *)
| EAction (name : string) (result_key : string)
| EUtter (intent : string).                         (* `bot <intent>`; `stop` compiles to `bot stop` *)

Inductive edge := LNext | LTrue (e : string) | LFalse (e : string).

(* successors of element i, as sliding.py `slide` computes them *)
Definition succs (i : Z) (e : elem) : list (edge * Z) :=
  match e with
  | EIf x ne => [(LTrue x, i + 1); (LFalse x, i + ne)]%Z
  | EWhile x nb => [(LTrue x, i + 1); (LFalse x, i + nb)]%Z
  | EJump n => [(LNext, i + n)]%Z
  | _ => [(LNext, i + 1)]%Z
  end.

Definition elem_at (es : list elem) (i : Z) : option elem :=
  if (i <? 0)%Z then None else nth_error es (Z.to_nat i).

Definition zmem (x : Z) (l : list Z) : bool := existsb (Z.eqb x) l.

Section Gate.
  Variable es : list elem.
  Variable gate : elem -> bool.
  Variable target : option elem -> bool.       (* None = the end of the flow *)
  Variable excused : edge -> bool.

  Definition out_edges (i : Z) : list (edge * Z) :=
    match elem_at es i with
    | None => []
    | Some e => if gate e then [] else filter (fun lj => negb (excused (fst lj))) (succs i e)
    end.

  Definition expand (R : list Z) : list Z :=
    flat_map (fun i => map snd (out_edges i)) R.

  Fixpoint add_new (xs R : list Z) : list Z :=
    match xs with
    | [] => R
    | x :: xs' => if zmem x R then add_new xs' R else add_new xs' (R ++ [x])
    end.

  Fixpoint reach (fuel : nat) (R : list Z) : list Z :=
    match fuel with
    | O => R
    | S f => reach f (add_new (expand R) R)
    end.

  (* certificate check: R contains the entry, is closed under non-gated, non-excused edges,
     and contains no target *)
  Definition closedb (entry : Z) (R : list Z) : bool :=
    zmem entry R &&
    forallb (fun i => forallb (fun lj => zmem (snd lj) R) (out_edges i)) R &&
    forallb (fun i => negb (target (elem_at es i)) || match elem_at es i with Some e => gate e | None => false end) R.

  Definition gatedb (entry : Z) : bool :=
    closedb entry (reach (S (List.length es)) [entry]).
End Gate.

Definition is_flow (n : string) (e : elem) : bool :=
  match e with EFlow m => String.eqb n m | _ => false end.
Definition is_create (n : string) (e : option elem) : bool :=
  match e with Some (ECreate m _) => String.eqb n m | _ => false end.
Definition is_set (k x : string) (e : elem) : bool :=
  match e with ESet k' x' => String.eqb k k' && String.eqb x x' | _ => false end.
Definition is_utter (n : string) (e : elem) : bool :=
  match e with EUtter m => String.eqb n m | _ => false end.
Definition is_end (e : option elem) : bool := match e with None => true | _ => false end.

Definition false_of (gs : list string) (l : edge) : bool :=
  match l with LFalse x => existsb (String.eqb x) gs | _ => false end.
Definition true_of (gs : list string) (l : edge) : bool :=
  match l with LTrue x => existsb (String.eqb x) gs | _ => false end.

Fixpoint find_index (p : elem -> bool) (es : list elem) (i : Z) : option Z :=
  match es with
  | [] => None
  | e :: es' => if p e then Some i else find_index p es' (i + 1)%Z
  end.

(* -- the checks of llm_flows.co -- *)

Definition g_in_cfg := "$config.rails.input.flows".
Definition g_in_opt := "$generation_options is None or $generation_options.rails.input".
Definition g_out_cfg := "$config.rails.output.flows".
Definition g_out_opt := "$generation_options is None or $generation_options.rails.output".
Definition g_skip := "$skip_output_rails".

(* `process user input`: UserMessage is created only after `do run input rails`, unless no input
   rails are configured / the generation options switch them off; it carries $user_message *)
Definition input_gate_ok (es : list elem) : bool :=
  gatedb es (is_flow "run input rails") (is_create "UserMessage") (false_of [g_in_cfg; g_in_opt]) 0 &&
  forallb (fun e => match e with
                    | ECreate "UserMessage" ps =>
                      match ps with [("text", "$user_message")] => true | _ => false end
                    | _ => true end) es &&
  existsb (fun e => match e with ECreate "UserMessage" _ => true | _ => false end) es.

(* `process bot message`: StartUtteranceBotAction is created only after `do run output rails`,
   unless no output rails are configured / options switch them off / the one-shot skip flag is
   set; on the skip branch the flag is reset before the utterance; the utterance is $bot_message *)
Definition output_gate_ok (es : list elem) : bool :=
  gatedb es (is_flow "run output rails") (is_create "StartUtteranceBotAction")
         (fun l => false_of [g_out_cfg; g_out_opt] l || true_of [g_skip] l) 0 &&
  match find_index (fun e => match e with EIf x _ => String.eqb x g_skip | _ => false end) es 0 with
  | Some i => gatedb es (is_set "skip_output_rails" "False") (is_create "StartUtteranceBotAction")
                     (fun _ => false) (i + 1)%Z
  | None => false
  end &&
  forallb (fun e => match e with
                    | ECreate "StartUtteranceBotAction" ps =>
                      match ps with [("script", "$bot_message")] => true | _ => false end
                    | _ => true end) es &&
  existsb (is_set "bot_message" "$event.text") es.

(* a rail of the library shape: on the reject branch every path to the end of the flow passes `stop`
   (`excuse` lists guards whose TRUE edge is exempted - see Props/C02.v for self check output) *)
Definition reject_stops_ok (es : list elem) (excuse : list string) : bool :=
  match find_index (fun e => match e with EIf x _ => String.eqb x "not $allowed" | _ => false end) es 0 with
  | Some i => gatedb es (is_utter "stop") is_end (true_of excuse) (i + 1)%Z
  | None => false
  end.

(* the LLM-calling dialog actions are reachable only behind the event that the gate releases *)
Definition first_match (es : list elem) : option string :=
  match filter (fun e => match e with EMeta => false | _ => true end) es with
  | EMatch ev :: _ => Some ev
  | _ => None
  end.
Definition has_action (n : string) (es : list elem) : bool :=
  existsb (fun e => match e with EAction m _ => String.eqb n m | _ => false end) es.
Definition llm_actions := ["generate_user_intent"; "generate_next_step"; "generate_bot_message";
                           "generate_intent_steps_message"; "generate_value"].
Definition no_llm_action (es : list elem) : bool :=
  forallb (fun n => negb (has_action n es)) llm_actions.

(* -- the rails loop -- *)

Record loopspec := mkLoop { l_ctr : string; l_list : string; l_cfg : string }.
Definition l_incr (s : loopspec) := ("$" ++ l_ctr s ++ " + 1")%string.
Definition l_cond (s : loopspec) := ("$" ++ l_ctr s ++ " < len($" ++ l_list s ++ ")")%string.
Definition l_call (s : loopspec) := ("$" ++ l_list s ++ "[$" ++ l_ctr s ++ "]")%string.

Inductive lout := LRun (visit : list Z) (pc ctr : Z) | LDone | LStuck.

(* one element of the loop flow; n = len(list); anything that could disturb the counter or the
   list variable, or whose meaning is not fixed here, is Stuck (fail-closed) *)
Definition lstep (s : loopspec) (es : list elem) (n pc i : Z) : lout :=
  match elem_at es pc with
  | None => LDone
  | Some e =>
    match e with
    | EMeta | EMatch _ | ECreate _ _ => LRun [] (pc + 1) i
    | ESet k x =>
      if String.eqb k (l_ctr s) then
        if String.eqb x "0" then LRun [] (pc + 1) 0
        else if String.eqb x (l_incr s) then LRun [] (pc + 1) (i + 1)
        else LStuck
      else if String.eqb k (l_list s) then
        if String.eqb x (l_cfg s) then LRun [] (pc + 1) i else LStuck
      else LRun [] (pc + 1) i
    | EWhile x nb =>
      if String.eqb x (l_cond s) then (if (i <? n)%Z then LRun [] (pc + 1) i else LRun [] (pc + nb) i)
      else LStuck
    | EJump k => LRun [] (pc + k) i
    | EFlow name => if String.eqb name (l_call s) then LRun [i] (pc + 1) i else LStuck
    | EIf _ _ | EAction _ _ | EUtter _ => LStuck
    end
  end%Z.

(* the rails visited, in order (accumulated in reverse); None = stuck or out of fuel *)
Fixpoint lrun (s : loopspec) (es : list elem) (n : Z) (fuel : nat) (pc i : Z) (acc : list Z) : option (list Z) :=
  match fuel with
  | O => None
  | S f =>
    match lstep s es n pc i with
    | LDone => Some (rev acc)
    | LStuck => None
    | LRun v pc' i' => lrun s es n f pc' i' (rev v ++ acc)
    end
  end.

Fixpoint zseq (start : Z) (len : nat) : list Z :=
  match len with O => [] | S l => start :: zseq (start + 1)%Z l end.

Definition in_loop := mkLoop "i" "input_flows" "$config.rails.input.flows".
Definition out_loop := mkLoop "i" "output_flows" "$config.rails.output.flows".

(* ------------------------------------------------------------------ Colang 2.x statement trees *)

Inductive stmt :=
| SMatch (name member : string)
| SAwait (kind name : string) (args : list (string * string))
| SSend (name : string)
| SAssign (key expr : string)
| SGlobal (name : string)
| SIf (cond : string) (th el : list stmt)
| SWhen (kind name : string) (args : list (string * string)) (th el : list stmt)
| SLog | SAbort | SReturn.

Inductive atom :=
| AMatch (name : string)
| AAwait (name : string) (args : list (string * string))   (* awaited flow/action finished *)
| AFail (kind name : string)                               (* awaited flow/action failed: this flow fails with it *)
| AWhenOk (name : string) (args : list (string * string))  (* `when` case finished *)
| AWhenFail (name : string)                                (* `when` case failed: the else branch runs *)
| AAssign (key expr : string)
| ACond (cond : string) (b : bool)
| AAbort | AReturn | AOther.

(* all control paths of a statement list: (atoms, finished normally?) *)
Definition seq_paths (ps : list (list atom * bool)) (k : list (list atom * bool)) : list (list atom * bool) :=
  flat_map (fun pl : list atom * bool =>
              if snd pl then map (fun ql : list atom * bool => (fst pl ++ fst ql, snd ql)) k
              else [(fst pl, false)]) ps.

Definition prefix_all (a : atom) (ps : list (list atom * bool)) : list (list atom * bool) :=
  map (fun pl : list atom * bool => (a :: fst pl, snd pl)) ps.

Fixpoint paths_s (s : stmt) : list (list atom * bool) :=
  let fix paths_l (l : list stmt) : list (list atom * bool) :=
      match l with
      | [] => [(@nil atom, true)]
      | x :: l' => seq_paths (paths_s x) (paths_l l')
      end in
  match s with
  | SMatch n _ => [([AMatch n], true)]
  | SAwait k n a => [([AAwait n a], true); ([AFail k n], false)]
  | SSend _ | SGlobal _ | SLog => [([AOther], true)]
  | SAssign k x => [([AAssign k x], true)]
  | SIf c th el => prefix_all (ACond c true) (paths_l th) ++ prefix_all (ACond c false) (paths_l el)
  | SWhen k n a th el => prefix_all (AWhenOk n a) (paths_l th) ++ prefix_all (AWhenFail n) (paths_l el)
  | SAbort => [([AAbort], false)]
  | SReturn => [([AReturn], false)]
  end.

Fixpoint paths (l : list stmt) : list (list atom * bool) :=
  match l with
  | [] => [(@nil atom, true)]
  | x :: l' => seq_paths (paths_s x) (paths l')
  end.

(* a path on which the flow FINISHES (successfully): it runs off the end, or executes `return`
   (an early exit is a normal end of the flow: callers awaiting it proceed); `abort` and the
   failure of an awaited flow are not *)
Definition finishes (pl : list atom * bool) : bool :=
  snd pl || existsb (fun a => match a with AReturn => true | _ => false end) (fst pl).

Definition args_eqb (a b : list (string * string)) : bool :=
  (List.length a =? List.length b)%nat &&
  forallb (fun p => String.eqb (fst (fst p)) (fst (snd p)) && String.eqb (snd (fst p)) (snd (snd p))) (combine a b).

Definition is_await (n : string) (args : list (string * string)) (a : atom) : bool :=
  match a with
  | AAwait m x | AWhenOk m x => String.eqb n m && args_eqb args x
  | _ => false
  end.
Definition is_await_name (n : string) (a : atom) : bool :=
  match a with AAwait m _ | AWhenOk m _ => String.eqb n m | _ => false end.
Definition is_cond (c : string) (b : bool) (a : atom) : bool :=
  match a with ACond c' b' => String.eqb c c' && Bool.eqb b b' | _ => false end.

(* every occurrence of `tgt` in p is preceded by an occurrence of `gate` *)
Fixpoint preceded (gate tgt : atom -> bool) (seen : bool) (p : list atom) : bool :=
  match p with
  | [] => true
  | a :: p' => (negb (tgt a) || seen) && preceded gate tgt (seen || gate a) p'
  end.

(* `_user_said`: the flow finishes (the `user said` event is released) only after
   `await run input rails $user_message`, with $user_message assigned from the transcript *)
Definition v2_user_said_ok (body : list stmt) : bool :=
  forallb (fun pl => negb (finishes pl) ||
                     (existsb (is_await "run input rails" [("$0", "$user_message")]) (fst pl) &&
                      preceded (fun a => match a with AAssign "user_message" "$text" => true | _ => false end)
                               (is_await_name "run input rails") false (fst pl)))
          (paths body).

(* `_bot_say`: UtteranceBotAction(script=$text) only after `await run output rails $text`, unless the
   in-progress flag is set; nothing else is uttered *)
Definition v2_bot_say_ok (body : list stmt) : bool :=
  forallb (fun pl =>
             existsb (is_cond "not $output_rails_in_progress" false) (fst pl) ||
             preceded (is_await "run output rails" [("$0", "$text")]) (is_await_name "UtteranceBotAction") false (fst pl))
          (paths body) &&
  forallb (fun pl => forallb (fun a => negb (is_await_name "UtteranceBotAction" a) ||
                                       is_await "UtteranceBotAction" [("script", "$text")] a) (fst pl))
          (paths body).

(* `run input rails` / `run output rails`: on EVERY path on which the flow finishes - including any
   early `return` - the user's rails flow was awaited with the text, unless it is not defined *)
Definition v2_run_rails_ok (body : list stmt) (exist_var rails_flow text_var : string) : bool :=
  forallb (fun pl => negb (finishes pl) || existsb (is_cond exist_var false) (fst pl) ||
                     existsb (is_await rails_flow [("$0", text_var)]) (fst pl))
          (paths body).

(* the last assignment of the in-progress flag on a path *)
Fixpoint last_flag (p : list atom) (cur : option string) : option string :=
  match p with
  | [] => cur
  | AAssign "output_rails_in_progress" x :: p' => last_flag p' (Some x)
  | _ :: p' => last_flag p' cur
  end.

(* `run output rails` leaves $output_rails_in_progress False on EVERY path on which it set it -
   including the paths on which the awaited `output rails` flow fails (a rail aborts).  Failure
   of the CheckFlowDefinedAction *action* is not a rail verdict and is exempted. *)
Definition v2_resets_on_failure (body : list stmt) : bool :=
  forallb (fun pl =>
             existsb (fun a => match a with AFail "action" _ => true | _ => false end) (fst pl) ||
             match last_flag (fst pl) None with
             | None | Some "False" => true
             | Some _ => false
             end)
          (paths body).

(* a Colang 2 rail of the library shape: whenever the guard `cond` holds (the rail rejects), the
   flow does not finish normally - every such path ends in `abort` (or in the failure of an
   awaited flow), for BOTH settings of enable_rails_exceptions *)
Definition v2_reject_aborts (body : list stmt) (cond : string) : bool :=
  forallb (fun pl => negb (finishes pl) || negb (existsb (is_cond cond true) (fst pl))) (paths body) &&
  existsb (fun pl => existsb (is_cond cond true) (fst pl)) (paths body).
