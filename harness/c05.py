"""C05 - Competing flows: exactly one most-specific action wins per interaction loop.

Model: coq/theories/V2/Conflict.v (resolve = _resolve_action_conflicts); proofs
V2/Conflict_proofs.v; theorems Props/C05.v.
Tie: (T) Gen/C05Consts.v (padding value, reverse flag, shortcut) regenerated from
statemachine.py by translator/gen_c05.py; (X1) every call of the real
_resolve_action_conflicts made while the real interpreter runs generated programs is recorded
(candidates before, effects after: returned heads, generated events, _abort_flow calls, label
jumps, action merges, lengths of the random.choice sequences) and re-run on the model inside
Coq, for every outcome of random.choice, with natural and with injected score lists;
(X2) end to end on run_to_completion: the property text is checked on outgoing events and
flow statuses (direct oracle on the implementation), for every outcome of random.choice.
The implementation runs in child processes under a shell `timeout`.
"""
from __future__ import annotations

import itertools
import json
import os
import random
import sys
import time
from fractions import Fraction

from harness import common as C

PID = "C05"
GEN = ["MatchConsts", "C05Consts"]

PREAMBLE = """From Coq Require Import ZArith QArith List String.
From NG Require Import Val.Value V2.Conflict V2.ConflictRun.
Import ListNotations.
Open Scope list_scope.
Open Scope string_scope.
"""

NPARAMS = 3
EVENT = {"type": "E", "p0": 1, "p1": 2, "p2": 3}


def nparams_of(sc):
    return (sc or {}).get("nparams", NPARAMS)


def scenario_event(sc):
    """The triggering event: E(p0=1, ..., p<n-1>=n); wide scenarios use 10-20 parameters like a
    fully populated UMIM event, so that specificity differences lie far from a perfect match."""
    ev = {"type": "E"}
    for i in range(nparams_of(sc)):
        ev["p%d" % i] = i + 1
    return ev
EXTRA_KEYS = {"type", "uid", "event_created_at", "source_uid", "action_uid",
              "action_info_modality", "action_info_modality_policy"}
PRIORITIES = [None, None, None, "1.0", "0.9", "0.5", "0.81", "0.729"]
TRIG_PARAMS = [("a", 7), ("b", 8), ("c", 9), ("d", 10), ("e", 11), ("g", 12)]
INJECT_POOL = [1.0, 0.9, 0.81, 0.9 * 0.9 * 0.9, 0.729, 0.5, 0.45, 0.9 * 0.5]


# ---------------------------------------------------------------------------------------
# scenarios -> Colang 2 source


def lit(v):
    if isinstance(v, bool):
        return "True" if v else "False"
    if isinstance(v, str):
        return '"%s"' % v
    return repr(v)


def action_call(a):
    return "%s(%s)" % (a["cls"], ", ".join("%s=%s" % (k, lit(v)) for k, v in a["args"]))


def action_stmt(f):
    if f["kind"] == "send":
        a = f["acts"][0]
        return ["  send Start" + action_call(a)]
    return ["  await " + " or ".join(action_call(a) for a in f["acts"])]


def scenario_src(sc):
    lines = []
    for f in sc["flows"]:
        for d in range(1, f["via"] + 1):
            lines.append("flow %s_h%d" % (f["name"], d))
            if d == 1:
                lines += action_stmt(f)
            else:
                lines.append("  await %s_h%d" % (f["name"], d - 1))
            lines.append("")
        if f["loop"]:
            lines.append('@loop("%s")' % f["loop"])
        lines.append("flow " + f["name"])
        if f["priority"] is not None:
            lines.append("  priority " + f["priority"])
        if f.get("ff") is not None:
            # reacts to the internal FlowFinished event of the trigger flow `t`, mentioning ff of its parameters
            names = ['flow_id="t"'] + ["%s=%d" % (n, v) for n, v in TRIG_PARAMS[:sc["trigger"]["q"]]]
            lines.append("  match FlowFinished(%s)" % ", ".join(names[:f["ff"]]))
        else:
            lines.append("  match E(%s)" % ", ".join("p%d=%d" % (i, i + 1) for i in range(f["mention"])))
        if f["via"] > 0:
            lines.append("  await %s_h%d" % (f["name"], f["via"]))
        else:
            lines += action_stmt(f)
        lines.append("")
    trig = sc.get("trigger")
    if trig:
        lines.append("flow t" + "".join(" $" + n for n, _ in TRIG_PARAMS[:trig["q"]]))
        lines.append("  match E(%s)" % ", ".join("p%d=%d" % (i, i + 1) for i in range(trig["mention"])))
        lines.append("")
    for b in sc["bystanders"]:
        if b["loop"]:
            lines.append('@loop("%s")' % b["loop"])
        lines.append("flow " + b["name"])
        lines.append("  match E(p0=99)" if b["kind"] == "mismatch" else "  match F()")
        lines.append('  await UtteranceBotAction(script="%s")' % b["name"].upper())
        lines.append("")
    lines.append("flow main")
    for n in sc["order"]:
        if n == "t":
            lines.append("  start t" + "".join(" %d" % v for _, v in TRIG_PARAMS[:trig["q"]]))
        else:
            lines.append("  start " + n)
    lines.append("  match Never()")
    return "\n".join(lines) + "\n"


def act(cls, **kw):
    return {"cls": cls, "args": [[k, v] for k, v in kw.items()]}


ACTIONS = [
    act("UtteranceBotAction", script="A"),
    act("UtteranceBotAction", script="B"),
    act("UtteranceBotAction", script="C"),
    act("GestureBotAction", gesture="A"),
    act("CustomBotAction", v=1),
    act("CustomBotAction", v=True),        # == v=1 in Python
    act("CustomBotAction", v=1.0),         # == v=1 in Python
    act("CustomBotAction", v=2, w="x"),
    act("CustomBotAction", w="x", v=2),    # same dict, other order
    act("CustomBotAction", v="1"),
]


def mk_scenario(sid, specs, loops, acts, prios=None, vias=None, kinds=None, alts=None, bystanders=0, rng=None,
                inject=None, nparams=NPARAMS):
    n = len(specs)
    flows = []
    for i in range(n):
        a = [acts[i]]
        if alts and alts[i] is not None:
            a.append(alts[i])
        flows.append({"name": "f%d" % i, "loop": loops[i], "mention": specs[i],
                      "priority": prios[i] if prios else None, "via": vias[i] if vias else 0,
                      "kind": (kinds[i] if kinds else "await") if len(a) == 1 else "await", "acts": a})
        if flows[-1]["via"] > 0 and len(a) > 1:
            flows[-1]["via"] = 0
    bys = []
    for j in range(bystanders):
        bys.append({"name": "n%d" % j, "kind": "mismatch" if j % 2 == 0 else "other",
                    "loop": None if j % 3 else (loops[0] if loops else None)})
    order = [f["name"] for f in flows] + [b["name"] for b in bys]
    if rng is not None:
        rng.shuffle(order)
    sc = {"id": sid, "flows": flows, "bystanders": bys, "order": order, "inject": inject}
    if nparams != NPARAMS:
        sc["nparams"] = nparams
    return sc


def mk_chain_scenario(sid, trig_q, trig_mention, comps, loops, acts, rng=None, bystanders=0, nparams=NPARAMS):
    """Competitors of which some react to the external event directly (score chain [s]) and some
    through FlowFinished of the trigger flow t (chain [score of t's match, own fuzzy match]).
    comps: list of (ff or None, mention, priority)."""
    sc = mk_scenario(sid, [c[1] for c in comps], loops, acts, prios=[c[2] for c in comps],
                     bystanders=bystanders, nparams=nparams)
    for f, c in zip(sc["flows"], comps):
        f["ff"] = c[0]
    sc["trigger"] = {"q": trig_q, "mention": trig_mention}
    sc["order"] = ["t"] + sc["order"]
    if rng is not None:
        rng.shuffle(sc["order"])
    return sc


def gen_chain_scenarios(n_random, rng, sid0):
    out = []

    def add(**kw):
        out.append(mk_chain_scenario(sid0 + len(out), **kw))

    A = ACTIONS
    # minimal shapes: equal first score, chains of different length with a fuzzy later link;
    # a priority that inverts plain specificity on an internal event
    add(trig_q=0, trig_mention=2, comps=[(None, 2, None), (1, 0, None)], loops=[None, None], acts=[A[0], A[1]])
    add(trig_q=0, trig_mention=2, comps=[(1, 0, None), (None, 2, None)], loops=[None, None], acts=[A[0], A[1]])
    add(trig_q=0, trig_mention=0, comps=[(1, 0, "0.5"), (0, 0, None)], loops=[None, None], acts=[A[0], A[1]])
    add(trig_q=1, trig_mention=3, comps=[(2, 0, "0.5"), (0, 0, None), (0, 0, "0.9")], loops=[None] * 3,
        acts=[A[0], A[1], A[2]])
    # wide events: the differences in specificity lie 9 and more unmentioned parameters away from
    # a perfect match (external event with 12 parameters; FlowFinished of a flow with 5 parameters)
    add(trig_q=0, trig_mention=0, comps=[(None, 1, None), (None, 0, None)], loops=[None, None], acts=[A[0], A[1]],
        nparams=12)
    add(trig_q=5, trig_mention=0, comps=[(1, 0, None), (0, 0, None)], loops=[None, None], acts=[A[0], A[1]])
    add(trig_q=6, trig_mention=1, comps=[(2, 0, None), (1, 0, None), (None, 1, None)], loops=[None] * 3,
        acts=[A[0], A[1], A[2]], nparams=14)
    # float-noise near-ties: priority 0.9 (0.81) with k unmentioned = no priority with k+1 (k+2)
    add(trig_q=2, trig_mention=2, comps=[(None, 3, "0.9"), (2, 0, "0.9"), (3, 0, "0.5")], loops=[None] * 3,
        acts=[A[0], A[1], A[2]], nparams=19)
    add(trig_q=0, trig_mention=1, comps=[(None, 3, "0.81"), (1, 0, None)], loops=[None, None], acts=[A[0], A[1]],
        nparams=12)
    add(trig_q=0, trig_mention=0, comps=[(None, 1, "0.9"), (0, 0, None), (None, 0, None)], loops=[None] * 3,
        acts=[A[0], A[1], A[2]])
    for _ in range(n_random):
        wide = rng.random() < 0.35
        q = rng.choice([4, 5, 6]) if wide and rng.random() < 0.7 else rng.choice([0, 0, 1, 2])
        np_ = rng.randint(10, 20) if wide else NPARAMS
        mt = rng.randint(0, 3)
        n = rng.choice([2, 2, 3, 3, 4])
        comps = []
        for i in range(n):
            prio = rng.choice([None, None, "0.5", "0.9", "0.9", "0.81", "0.8", "1.0"])
            if rng.random() < 0.6:
                comps.append((rng.randint(0, min(1 + q, 3)), 0, prio))
            else:
                # direct competitor, mostly with the same first score as the chains through t
                m = mt if rng.random() < 0.7 else rng.randint(0, 3)
                comps.append((None, m, prio if rng.random() < 0.3 else None))
        if all(c[0] is None for c in comps):
            comps[0] = (rng.randint(0, min(1 + q, 3)), 0, comps[0][2])
        part = rng.choice(list(set_partitions(n))) if rng.random() < 0.25 else [0] * n
        pool = rng.sample(ACTIONS[:5], rng.choice([2, 3, 4]))
        acts = [pool[i % len(pool)] for i in range(n)] if rng.random() < 0.6 else [rng.choice(pool) for _ in range(n)]
        add(trig_q=q, trig_mention=mt, comps=comps, loops=loops_of(part), acts=acts, rng=rng,
            bystanders=rng.choice([0, 0, 1]), nparams=np_)
    return out


def set_partitions(n):
    """All partitions of range(n) as loop-assignment vectors (restricted growth strings)."""
    def rec(i, cur, mx):
        if i == n:
            yield list(cur)
            return
        for v in range(mx + 2):
            cur.append(v)
            yield from rec(i + 1, cur, max(mx, v))
            cur.pop()
    yield from rec(0, [], -1)


def loops_of(part):
    # block 0 = the main interaction loop (no decorator), others named loops
    return [None if b == 0 else "L%d" % b for b in part]


def gen_scenarios(tier, rng):
    out = []
    sid = [0]

    def add(**kw):
        sc = mk_scenario(sid[0], **kw)
        sid[0] += 1
        out.append(sc)

    # hand-written shapes: the documentation example, padding interplay, or-groups
    add(specs=[3, 2], loops=[None, None], acts=[ACTIONS[0], ACTIONS[1]])
    add(specs=[2, 2, 2], loops=[None, None, None], acts=[ACTIONS[0], ACTIONS[1], ACTIONS[2]], vias=[0, 1, 0])
    add(specs=[2, 2, 2], loops=[None, None, None], acts=[ACTIONS[0], ACTIONS[1], ACTIONS[2]], vias=[1, 0, 0])
    add(specs=[2, 2], loops=[None, None], acts=[ACTIONS[0], ACTIONS[1]], alts=[ACTIONS[2], None])
    add(specs=[2, 2], loops=[None, "L1"], acts=[ACTIONS[0], ACTIONS[1]], bystanders=2)
    add(specs=[1, 1, 3], loops=[None, None, None], acts=[ACTIONS[4], ACTIONS[5], ACTIONS[6]])
    add(specs=[1, 0], loops=[None, None], acts=[ACTIONS[0], ACTIONS[1]], nparams=11)
    add(specs=[0, 2, 1], loops=[None, None, None], acts=[ACTIONS[0], ACTIONS[1], ACTIONS[2]], nparams=16)

    if tier == "thorough":
        # exhaustive: all specificity vectors in {0..3}^n, n <= 4, all loop partitions;
        # actions: all-different and a rotating family with identical actions
        for n in (2, 3, 4):
            parts = list(set_partitions(n))
            for specs in itertools.product(range(NPARAMS + 1), repeat=n):
                for part in parts:
                    add(specs=list(specs), loops=loops_of(part), acts=[ACTIONS[i % 3] for i in range(n)], rng=rng)
                    k = sid[0]
                    acts = [ACTIONS[(k + i * (1 + k % 2)) % 2] for i in range(n)]
                    add(specs=list(specs), loops=loops_of(part), acts=acts, rng=rng,
                        bystanders=(k % 3 == 0) * 2)
    out += gen_chain_scenarios(400 if tier == "quick" else 3000, rng, 10 ** 6)
    n_random = 1500 if tier == "quick" else 6000
    for _ in range(n_random):
        n = rng.choice([2, 2, 3, 3, 3, 4, 4, 5])
        part = rng.choice(list(set_partitions(n))) if rng.random() < 0.6 else [0] * n
        wide = rng.random() < 0.3
        np_ = rng.randint(10, 20) if wide else NPARAMS
        specs = [rng.randint(0, NPARAMS) for _ in range(n)]
        if rng.random() < 0.4:  # force ties
            specs = [rng.choice(specs[:2]) for _ in range(n)]
        pool = rng.sample(ACTIONS, rng.choice([1, 2, 2, 3, 3, 4]))
        acts = [rng.choice(pool) for _ in range(n)]
        prios = [rng.choice(PRIORITIES) for _ in range(n)] if rng.random() < 0.5 else None
        vias = [rng.choice([0, 0, 0, 1, 2]) for _ in range(n)] if rng.random() < 0.4 else None
        kinds = [rng.choice(["await", "await", "send"]) for _ in range(n)] if rng.random() < 0.3 else None
        alts = None
        if rng.random() < 0.2:
            alts = [rng.choice(ACTIONS[:4]) if rng.random() < 0.4 else None for _ in range(n)]
            alts = [a if a is None or a != acts[i] else None for i, a in enumerate(alts)]
        inject = rng.randrange(1 << 30) if rng.random() < 0.3 else None
        add(specs=specs, loops=loops_of(part), acts=acts, prios=prios, vias=vias, kinds=kinds, alts=alts,
            bystanders=rng.choice([0, 0, 1, 2]), rng=rng, inject=inject, nparams=np_)
    return out


# ---------------------------------------------------------------------------------------
# worker: runs the real interpreter (child process)


def _worker_main(inp, outp):
    sys.path.insert(0, C.REPO)
    import random as pyrandom

    from harness import v2util
    from nemoguardrails.colang.v2_x.runtime import flows as fl
    from nemoguardrails.colang.v2_x.runtime import statemachine as sm

    job = json.load(open(inp))
    max_runs = job["max_runs"]
    orig_resolve = sm._resolve_action_conflicts
    orig_abort = sm._abort_flow
    real_choice = pyrandom.choice
    results = []

    def snapshot(state):
        snap = {}
        for fs in state.flow_states.values():
            snap.setdefault(fs.flow_id, []).append(
                {"status": fs.status.name, "heads": sorted(h.position for h in fs.heads.values())})
        return snap

    def strip(ev):
        return {"type": ev["type"], "args": {k: v for k, v in ev.items() if k not in EXTRA_KEYS},
                "action_uid": ev.get("action_uid")}

    def run_one(sc, src, picks):
        calls = []
        lens = []
        clipped = [False]
        kk = [0]
        inj = pyrandom.Random(sc["inject"]) if sc["inject"] is not None else None
        inj_pool = None

        def choice(seq):
            n = len(seq)
            lens.append(n)
            i = picks[kk[0]] if kk[0] < len(picks) else 0
            kk[0] += 1
            if i >= n:
                clipped[0] = True
                i = 0
            return seq[i]

        def spy(state, heads):
            heads_l = list(heads)
            if not heads_l:
                return orig_resolve(state, heads)
            nonlocal inj_pool
            if inj is not None:
                if inj_pool is None:
                    inj_pool = [[inj.choice(INJECT_POOL) for _ in range(inj.choice([0, 1, 1, 2, 2, 3]))]
                                for _ in range(inj.choice([2, 3, 4]))]
                for h in heads_l:
                    h.matching_scores = list(inj.choice(inj_pool))
            cands = []
            for h in heads_l:
                fs = state.flow_states[h.flow_state_uid]
                el = state.flow_configs[fs.flow_id].elements[h.position]
                ev = sm.get_event_from_element(state, fs, el)
                au = ev.action_uid if isinstance(ev, fl.ActionEvent) and ev.action_uid else None
                cands.append({"head": h.uid, "flow": h.flow_state_uid, "flow_id": fs.flow_id, "loop": fs.loop_id,
                              "scores": list(h.matching_scores), "name": ev.name, "args": dict(ev.arguments),
                              "action": au, "catch": list(h.catch_pattern_failure_label), "pos": h.position,
                              "action_uids_before": list(fs.action_uids)})
            n0 = len(state.outgoing_events)
            k0 = len(lens)
            aborts = []
            depth = [0]

            def abort_spy(state_, flow_state, matching_scores, *a, **kw):
                if depth[0] == 0:
                    aborts.append([flow_state.uid, list(matching_scores)])
                depth[0] += 1
                try:
                    return orig_abort(state_, flow_state, matching_scores, *a, **kw)
                finally:
                    depth[0] -= 1

            sm._abort_flow = abort_spy
            rec = {"cands": cands, "exception": None}
            calls.append(rec)
            try:
                ret = orig_resolve(state, heads)
            except Exception as e:
                rec["exception"] = repr(e)
                raise
            finally:
                sm._abort_flow = orig_abort
            rec["returned"] = [h.uid for h in ret]
            rec["emitted"] = [strip(e) for e in state.outgoing_events[n0:]]
            rec["aborts"] = aborts
            rec["lens"] = lens[k0:]
            rec["pick_from"] = k0
            jumped = []
            merged = []
            by_uid = {c["head"]: c for c in cands}
            # heads that were moved, in the order of the returned list (then any others)
            moved = [h for h in ret if h.uid in by_uid] + [h for h in heads_l if h not in ret]
            for h in moved:
                c = by_uid[h.uid]
                if h.position != c["pos"]:
                    fs = state.flow_states[h.flow_state_uid]
                    labels = state.flow_configs[fs.flow_id].element_labels
                    names = [l for l in c["catch"] if labels.get(l) == h.position]
                    jumped.append([h.uid, names[-1] if names else "?pos%d" % h.position])
            for h in ret:
                c = by_uid.get(h.uid)
                if c is None or c["action"] is None:
                    continue
                fs = state.flow_states[h.flow_state_uid]
                before = c["action_uids_before"]
                if c["action"] in before and c["action"] not in fs.action_uids:
                    idx = before.index(c["action"])
                    new = fs.action_uids[idx] if idx < len(fs.action_uids) else None
                    dangling = c["action"] in state.actions or any(
                        c["action"] in uids for _f, uids in fs.scopes.values()) or any(
                        getattr(v, "uid", None) == c["action"] for v in fs.context.values())
                    merged.append([h.flow_state_uid, c["action"], new, dangling])
            rec["jumped"] = jumped
            rec["merged"] = merged
            return ret

        pyrandom.choice = choice
        sm._resolve_action_conflicts = spy
        run = {"picks": list(picks), "error": None}
        try:
            state = v2util.init_state(src)
            state = v2util.start_main(state)
            run["start_out"] = [strip(e) for e in state.outgoing_events]
            run["pre"] = snapshot(state)
            n_calls_start = len(calls)
            state = v2util.step(state, scenario_event(sc))
            run["out"] = [strip(e) for e in state.outgoing_events]
            run["post"] = snapshot(state)
            run["trigger_calls"] = [n_calls_start, len(calls)]
            run["trigger_lens"] = list(lens)
            # follow-up: every started action finishes
            fin_out = []
            for e in run["out"]:
                if e["type"].startswith("Start") and e["action_uid"]:
                    state = v2util.step(state, {"type": e["type"][len("Start"):] + "Finished",
                                                "action_uid": e["action_uid"], "is_success": True,
                                                "final_script": "x"})
                    fin_out += [strip(x) for x in state.outgoing_events]
            run["fin_out"] = fin_out
            run["final"] = snapshot(state)
        except BaseException as e:  # incl. VerifStepBudgetExceeded
            run["error"] = repr(e)
        finally:
            pyrandom.choice = real_choice
            sm._resolve_action_conflicts = orig_resolve
            sm._abort_flow = orig_abort
        run["calls"] = calls
        run["lens"] = lens
        run["clipped"] = clipped[0]
        return run

    for sc in job["scenarios"]:
        src = scenario_src(sc)
        res = {"id": sc["id"], "runs": [], "truncated": False}
        try:
            # explore the tree of random.choice outcomes
            todo = [[]]
            seen = set()
            while todo:
                picks = todo.pop(0)
                if tuple(picks) in seen:
                    continue
                seen.add(tuple(picks))
                if len(res["runs"]) >= max_runs:
                    res["truncated"] = True
                    break
                run = run_one(sc, src, picks)
                res["runs"].append(run)
                lens = run.get("lens") or []
                used = list(picks) + [0] * (len(lens) - len(picks))
                for i in range(len(picks), len(lens)):
                    for v in range(1, lens[i]):
                        todo.append(used[:i] + [v])
        except BaseException as e:
            res["error"] = repr(e)
        results.append(res)
    with open(outp, "w") as f:
        json.dump({"results": results}, f)


def run_workers(scenarios, tag, max_runs, nworkers=None, timeout=1500):
    nworkers = nworkers or min(C.NPROC, max(1, len(scenarios) // 20 + 1))
    d = os.path.join(C.BUILD, "c05", tag)
    os.makedirs(d, exist_ok=True)
    shards = [scenarios[i::nworkers] for i in range(nworkers)]
    procs = []
    import subprocess

    env = dict(os.environ)
    env.update(C.impl_env())
    env["VERIF_REPO"] = C.REPO
    env.setdefault("NEMO_GUARDRAILS_VERIF_MAX_STEPS", "20000")
    for i, sh in enumerate(shards):
        inp = os.path.join(d, "in_%d.json" % i)
        outp = os.path.join(d, "out_%d.json" % i)
        if os.path.exists(outp):
            os.remove(outp)
        json.dump({"scenarios": sh, "max_runs": max_runs}, open(inp, "w"))
        p = subprocess.Popen(["timeout", str(timeout), C.PY, "-m", "harness.c05", "--worker", inp, outp],
                             cwd=C.VERIF, env=env, stdout=subprocess.PIPE, stderr=subprocess.STDOUT, text=True)
        procs.append((p, outp, sh))
    results = {}
    errors = []
    for p, outp, sh in procs:
        out, _ = p.communicate()
        if p.returncode != 0 or not os.path.exists(outp):
            errors.append("worker rc=%s: %s" % (p.returncode, (out or "")[-1500:]))
            continue
        for r in json.load(open(outp))["results"]:
            results[r["id"]] = r
    return results, errors


# ---------------------------------------------------------------------------------------
# Coq terms


class Unsupported(Exception):
    pass


def coq_value(x):
    if x is None:
        return "VNone"
    if isinstance(x, bool):
        return "(VBool %s)" % C.coq_bool(x)
    if isinstance(x, int):
        return "(VInt %s)" % C.coq_Z(x)
    if isinstance(x, float):
        q = x * 4
        if q != int(q) or abs(q) > 10 ** 6:
            raise Unsupported("float %r" % x)
        return "(VFloat %s)" % C.coq_Z(int(q))
    if isinstance(x, str):
        return "(VStr %s)" % C.coq_string(x)
    if isinstance(x, list):
        return "(VList %s)" % C.coq_list([coq_value(e) for e in x])
    raise Unsupported(type(x).__name__)


def coq_dict(d):
    for k in d:
        if not isinstance(k, str):
            raise Unsupported("non-str key")
    return C.coq_list(["(%s, %s)" % (C.coq_string(k), coq_value(v)) for k, v in d.items()])


def coq_q(f):
    fr = Fraction(f)  # the exact value of the float
    if fr < 0:
        raise Unsupported("negative score")
    return "(%d # %d)%%Q" % (fr.numerator, fr.denominator)


def coq_scores(sc):
    return C.coq_list([coq_q(x) for x in sc])


class Renamer:
    def __init__(self, prefix):
        self.prefix = prefix
        self.m = {}

    def __call__(self, x):
        if x is None:
            return None
        if x not in self.m:
            self.m[x] = "%s%d" % (self.prefix, len(self.m))
        return self.m[x]


def call_to_case(call, picks):
    """(coq term, canonical JSON) of one recorded _resolve_action_conflicts call."""
    H, F, A, L = Renamer("h"), Renamer("F"), Renamer("a"), Renamer("lab")

    def loopn(l):
        return "(main)" if l.startswith("(main)") else l

    cands = []
    canon_c = []
    for c in call["cands"]:
        cands.append("mkc %s %s %s %s %s %s %s %s" % (
            C.coq_string(H(c["head"])), C.coq_string(F(c["flow"])), C.coq_string(loopn(c["loop"])),
            coq_scores(c["scores"]), C.coq_string(c["name"]), coq_dict(c["args"]),
            C.coq_option(C.coq_string(A(c["action"])) if c["action"] else None),
            C.coq_list([C.coq_string(L(x)) for x in c["catch"]])))
        canon_c.append([H(c["head"]), F(c["flow"]), loopn(c["loop"]), c["scores"], c["name"], c["args"],
                        A(c["action"]) if c["action"] else None, [L(x) for x in c["catch"]]])
    k0 = call["pick_from"]
    nl = len(call["lens"])
    my_picks = [(picks[k0 + i] if k0 + i < len(picks) else 0) for i in range(nl)]
    adv = C.coq_list([C.coq_string(H(h)) for h in call["returned"]])
    emitted = C.coq_list(["{| ev_name := %s; ev_args := %s |}" % (C.coq_string(e["type"]), coq_dict(e["args"]))
                          for e in call["emitted"]])
    aborted = C.coq_list(["(%s, %s)" % (C.coq_string(F(f)), coq_scores(sc)) for f, sc in call["aborts"]])
    jumped = C.coq_list(["(%s, %s)" % (C.coq_string(H(h)), C.coq_string(L(l) if not l.startswith("?") else l))
                         for h, l in call["jumped"]])
    merged = C.coq_list(["(%s, %s, %s)" % (C.coq_string(F(f)), C.coq_string(A(o)), C.coq_string(A(n) if n else "?"))
                         for f, o, n, _ in call["merged"]])
    exp = ("({| r_advancing := %s; r_emitted := %s; r_aborted := %s; r_jumped := %s; r_merged := %s |} : result dict)"
           % (adv, emitted, aborted, jumped, merged))
    term = "(%s, %s, %s, %s)" % (C.coq_list([str(p) for p in my_picks]), C.coq_list([str(n) for n in call["lens"]]),
                                 C.coq_list(cands), exp)
    canon = {"picks": my_picks, "lens": call["lens"], "cands": canon_c,
             "returned": [H(h) for h in call["returned"]],
             "emitted": [[e["type"], e["args"]] for e in call["emitted"]],
             "aborts": [[F(f), sc] for f, sc in call["aborts"]],
             "jumped": [[H(h), L(l) if not l.startswith("?") else l] for h, l in call["jumped"]],
             "merged": [[F(f), A(o), A(n) if n else None] for f, o, n, _ in call["merged"]]}
    return term, canon


# ---------------------------------------------------------------------------------------
# the property text, restated on observations (direct oracle on the implementation)


def py_same_action(a, b):
    return a["cls"] == b["cls"] and dict(map(tuple, a["args"])) == dict(map(tuple, b["args"]))


def ideal_vector(f, factor, sc=None):
    """The documented score chain: per match priority * factor^(event parameters not mentioned);
    a StartFlow match of a helper flow is perfect (1.0)."""
    p = Fraction(f["priority"]) if f["priority"] is not None else Fraction(1)
    if f.get("ff") is not None:
        trig = sc["trigger"]
        # FlowFinished carries flow_id, flow_instance_uid, source_flow_instance_uid and every flow
        # parameter twice (by name and by position)
        n_ff = 3 + 2 * trig["q"]
        return ([factor ** (nparams_of(sc) - trig["mention"]), p * factor ** (n_ff - f["ff"])]
                + [Fraction(1)] * f["via"])
    return [p * factor ** (nparams_of(sc) - f["mention"])] + [Fraction(1)] * f["via"]


def ideal_provenance(f, sc=None):
    """(priority, number of unmentioned parameters) of every link of the documented chain.  Two links
    with the same provenance are computed by the same float operations (0.9 ** k, then *= priority)
    and are bit-identical; two links with different provenance can denote the same rational
    (priority 0.9 and k unmentioned = priority 1.0 and k+1 unmentioned) while their floats differ in
    the last ulps."""
    p = Fraction(f["priority"]) if f["priority"] is not None else Fraction(1)
    if f.get("ff") is not None:
        trig = sc["trigger"]
        n_ff = 3 + 2 * trig["q"]
        return [(Fraction(1), nparams_of(sc) - trig["mention"]), (p, n_ff - f["ff"])] + [(Fraction(1), 0)] * f["via"]
    return [(p, nparams_of(sc) - f["mention"])] + [(Fraction(1), 0)] * f["via"]


def padded_key(v, n, pad=Fraction(1)):
    return list(v) + [pad] * (n - len(v))


NOISE = Fraction(1, 10 ** 12)


def near(x, y):
    return x == y or abs(x - y) <= NOISE * max(abs(x), abs(y))


def possibly_ge(a, pa, b, pb):
    """Can key a be ranked at or above key b under SOME resolution of float-noise near-ties?
    A near-tie (exact values equal or within 1e-12 relative) between links of DIFFERENT provenance
    may fall either way in floating point; links of the same provenance are bit-identical (a true
    tie at that position); any real difference decides strictly."""
    for x, px, y, py in zip(a, pa, b, pb):
        if near(x, y):
            if px == py:
                continue
            return True
        return x > y
    return True


def oracle(sc, run, factor, use_vectors, prov=None, obs=None):
    """Violations of the property text in one end-to-end run. use_vectors: flow name -> score vector."""
    v = []
    post, pre, final = run["post"], run["pre"], run["final"]

    def st(snap, name):
        return snap[name][0]["status"] if name in snap and len(snap[name]) == 1 else None

    def ev_is(e, a):
        return e["type"] == "Start" + a["cls"] and e["args"] == dict(map(tuple, a["args"]))

    emitted = list(run["out"])
    starts = [e for e in emitted if e["type"].startswith("Start")]
    others = [e for e in emitted if not e["type"].startswith("Start")]
    if others:
        v.append(("unexpected-outgoing-event", "events other than action starts: %s" % [e["type"] for e in others]))
    loops = {}
    for f in sc["flows"]:
        loops.setdefault(f["loop"] or "(main)", []).append(f)
    feasible = {}   # loop -> list of actions a such that exactly the flows offering a proceed
    info = {}
    for lname, fls in loops.items():
        proceeding = [f for f in fls if st(post, f["name"]) not in ("STOPPED", None)]
        failed = [f for f in fls if st(post, f["name"]) == "STOPPED"]
        info[lname] = (fls, proceeding, failed)
        if len(proceeding) + len(failed) != len(fls):
            v.append(("flow-instance-missing", "loop %s: some flow has no single instance" % lname))
            continue
        if not proceeding:
            v.append(("no-flow-proceeds", "loop %s: all %d competing flows failed" % (lname, len(fls))))
            continue
        cands_a = []
        for f in proceeding:
            for a in f["acts"]:
                if not any(py_same_action(a, b) for b in cands_a):
                    cands_a.append(a)
        ok = []
        for a in cands_a:
            offering = [f["name"] for f in fls if any(py_same_action(a, b) for b in f["acts"])]
            if sorted(offering) == sorted(f["name"] for f in proceeding):
                ok.append(a)
        if not ok:
            distinct = []
            for f in proceeding:
                if len(f["acts"]) == 1 and not any(py_same_action(f["acts"][0], b) for b in distinct):
                    distinct.append(f["acts"][0])
            if len(distinct) > 1:
                v.append(("two-different-actions-proceed-in-one-loop",
                          "loop %s: flows with different actions proceed: %s" % (
                              lname, [[action_call(a) for a in f["acts"]] for f in proceeding])))
            else:
                v.append(("identical-action-flow-failed",
                          "loop %s: proceeding=%s failed=%s although actions are %s" % (
                              lname, [f["name"] for f in proceeding], [f["name"] for f in failed],
                              {f["name"]: [action_call(a) for a in f["acts"]] for f in fls})))
            continue
        feasible[lname] = ok
    if v:
        return v
    # one started action per loop, each accounted for exactly once
    names = list(feasible)
    assignment = None
    for combo in itertools.product(*[feasible[n] for n in names]):
        rem = list(starts)
        good = True
        for a in combo:
            hit = [e for e in rem if ev_is(e, a)]
            if not hit:
                good = False
                break
            rem.remove(hit[0])
        if good and not rem:
            assignment = dict(zip(names, combo))
            break
    if assignment is None:
        v.append(("action-started-more-than-once-or-by-nobody",
                  "action starts %s cannot be attributed one per loop; per-loop proceeding flows: %s" % (
                      [(e["type"], e["args"]) for e in starts],
                      {n: [f["name"] for f in info[n][1]] for n in names})))
        return v
    for lname in names:
        fls, proceeding, failed = info[lname]
        a = assignment[lname]
        # winner among the most specific
        n = max(len(use_vectors[f["name"]]) for f in fls)
        keys = {f["name"]: padded_key(use_vectors[f["name"]], n) for f in fls}
        if prov is None:   # no provenance known: every value is its own provenance (exact comparison)
            provs = {k: list(kv) for k, kv in keys.items()}
        else:
            provs = {f["name"]: padded_key(prov[f["name"]], n, pad=(Fraction(1), 0)) for f in fls}
        best = max(keys.values())
        admissible = [f["name"] for f in fls
                      if all(possibly_ge(keys[f["name"]], provs[f["name"]], keys[g["name"]], provs[g["name"]])
                             for g in fls)]
        if not any(f["name"] in admissible for f in proceeding):
            v.append(("winner-not-most-specific",
                      "loop %s: proceeding %s, none has the maximal score vector %s (admissible winners: %s)" % (
                          lname, [f["name"] for f in proceeding], [float(x) for x in best], admissible)))
        elif obs is not None and not any(keys[f["name"]] == best for f in proceeding):
            obs.append({"loop": lname, "proceeding": [f["name"] for f in proceeding], "admissible": admissible,
                        "exact_keys": {k: [str(x) for x in kv] for k, kv in keys.items()}})
        # follow-up: flows that await the action finish once it finished
        if all(f["kind"] == "await" for f in proceeding):
            dead = [f["name"] for f in proceeding if st(final, f["name"]) == "STOPPED"]
            stuck = [f["name"] for f in proceeding if st(final, f["name"]) not in ("FINISHED", "STOPPED")]
            if dead:
                v.append(("co-winner-fails-after-shared-action-finished",
                          "loop %s: %s proceeded with %s but failed when the action finished" % (
                              lname, dead, action_call(a))))
            if stuck:
                v.append(("proceeding-flow-stuck-after-action-finished",
                          "loop %s: %s did not finish after the started action finished" % (lname, stuck)))
        bad = [f["name"] for f in failed if st(final, f["name"]) != "STOPPED"]
        if bad:
            v.append(("failed-flow-revived", "loop %s: %s" % (lname, bad)))
    for b in sc["bystanders"]:
        if pre.get(b["name"]) != post.get(b["name"]) or pre.get(b["name"]) != final.get(b["name"]):
            v.append(("non-matching-flow-touched", "%s: %s -> %s -> %s" % (
                b["name"], pre.get(b["name"]), post.get(b["name"]), final.get(b["name"]))))
    return v


# ---------------------------------------------------------------------------------------


def natural_vectors(sc, run):
    """score vector of each competing flow as recorded at the first conflict resolution of the
    trigger step (head of the flow itself or of its innermost helper)."""
    a, b = run["trigger_calls"]
    vec = {}
    for call in run["calls"][a:b]:
        for c in call["cands"]:
            base = c["flow_id"].split("_h")[0]
            vec.setdefault(base, c["scores"])
    return vec


def run(tier, seed, replay=None):
    out = C.Outcome(PID, tier, seed)
    rng = random.Random(seed * 1000003 + 5)
    b = C.build_and_audit(PID, GEN)
    C.proof_coverage(out, b, "make theories/Props/C05.vo && coqc Props/C05.v (Print Assumptions)")
    for br in b["broken"]:
        out.add_broken(br, b["log"])
    with C.BuildLock():
        okm, logm = C.coq_make(["theories/V2/ConflictRun.vo"])
    if not okm:
        out.add_broken("coq:theories/V2/ConflictRun.v", logm)
    try:
        from translator import consts as TC

        factor = Fraction(TC.matcher_consts()["factor"])
    except Exception as e:
        factor = Fraction(9, 10)
        out.add_broken("translator:MatchConsts", str(e))

    t0 = time.time()
    corpus_dir = os.path.join(C.VERIF, "corpus", PID)
    scenarios = []
    corpus_n = 0
    if os.path.isdir(corpus_dir):
        for fn in sorted(os.listdir(corpus_dir)):
            if fn.endswith(".json"):
                d = json.load(open(os.path.join(corpus_dir, fn)))
                sc = d.get("scenario")
                if sc:
                    sc = dict(sc)
                    sc["id"] = "corpus:" + fn
                    scenarios.append(sc)
                    corpus_n += 1
    if replay:
        d = json.load(open(replay))
        r = d.get("replay", d)
        sc = dict(r["scenario"])
        sc["id"] = "replay"
        scenarios = [sc]
    else:
        scenarios += gen_scenarios(tier, rng)
    by_id = {sc["id"]: sc for sc in scenarios}
    max_runs = 16 if tier == "quick" else 64
    results, werrors = run_workers(scenarios, "replay" if replay else tier, max_runs)
    for e in werrors:
        out.add_broken("harness:worker", e)
    t_impl = time.time() - t0

    # ---- function level (X1): every recorded call against the model
    terms, kept, seen = [], [], set()
    viol = []
    n_nontrivial = 0
    n_calls = 0
    dist = {"cands": {}, "groups": {}, "tie": {}, "score_len_mix": 0, "with_catch": 0, "with_merge": 0,
            "injected_calls": 0, "cowin": 0, "aborts": 0}
    impl_errors = []
    for sid, res in results.items():
        sc = by_id[sid]
        if res.get("error"):
            impl_errors.append((sid, res["error"]))
        for run_ in res["runs"]:
            if run_["error"]:
                impl_errors.append((sid, run_["error"]))
            for call in run_["calls"]:
                if call.get("exception") or "returned" not in call:
                    impl_errors.append((sid, "resolve raised: %s" % call.get("exception")))
                    continue
                n_calls += 1
                for f_, old_, new_, dangling in call["merged"]:
                    if dangling:
                        viol.append((sc, run_, "merged-action-still-referenced-in-scope",
                                     "after merging a co-winner's action into the winner's, the flow still refers to the deleted action (state.actions / scopes / context)"))
                try:
                    term, canon = call_to_case(call, run_["picks"])
                except Unsupported as e:
                    impl_errors.append((sid, "unsupported value: %s" % e))
                    continue
                h = C.canon_hash(canon)
                if h in seen:
                    continue
                seen.add(h)
                nc = len(call["cands"])
                groups = {}
                for c in call["cands"]:
                    groups.setdefault(c["loop"], []).append(c)
                big = max(len(g) for g in groups.values())
                if big >= 2:
                    n_nontrivial += 1
                dist["cands"][nc] = dist["cands"].get(nc, 0) + 1
                dist["groups"][len(groups)] = dist["groups"].get(len(groups), 0) + 1
                for n in call["lens"]:
                    dist["tie"][n] = dist["tie"].get(n, 0) + 1
                if len({len(c["scores"]) for c in call["cands"]}) > 1:
                    dist["score_len_mix"] += 1
                dist["with_catch"] += any(c["catch"] for c in call["cands"])
                dist["with_merge"] += bool(call["merged"])
                dist["injected_calls"] += sc["inject"] is not None
                dist["cowin"] += len(call["returned"]) > len(groups) and not call["jumped"]
                dist["aborts"] += len(call["aborts"])
                terms.append(term)
                kept.append((sid, run_["picks"], canon))
    disagreements = []
    if okm and terms:
        bools, err = C.run_cases(PID + "_fn", PREAMBLE, terms, "check_case")
        if err:
            out.add_broken("correspondence:C05-resolve(coqc)", err)
        else:
            disagreements = [(k, t) for ok, k, t in zip(bools, kept, terms) if not ok]
    if disagreements:
        (sid, picks, canon), term = min(disagreements, key=lambda x: len(x[1]))
        parts = term[1:-1]
        model = C.eval_term(PID + "_fn", PREAMBLE,
                            "let '(p, l, c, e) := %s in (run_case p c, tie_sizes c)" % term)
        out.add_broken("correspondence:C05-resolve",
                       "%d of %d recorded _resolve_action_conflicts calls differ from the model; smallest: scenario=%s picks=%s call=%s MODEL: %s"
                       % (len(disagreements), len(terms), json.dumps(by_id[sid]), picks, json.dumps(canon), model[-1500:]))

    # ---- end to end (X2): the property text on observations; ideal vs float scores
    n_runs = 0
    n_e2e = 0
    ideal_bad = []
    rounding_ok = rounding_total = 0
    noise_obs_n = 0
    noise_obs_examples = []
    rounding_bad_examples = []
    truncated = 0
    tie_pick_outcomes = {}
    for sid, res in results.items():
        sc = by_id[sid]
        truncated += bool(res.get("truncated"))
        winners_seen = set()
        for run_ in res["runs"]:
            n_runs += 1
            if run_["error"] or run_.get("clipped"):
                continue
            if run_["start_out"]:
                viol.append((sc, run_, "action-before-trigger", "outgoing events at start: %s" % run_["start_out"]))
            if sc["inject"] is not None:
                continue  # injected score lists: function level only
            n_e2e += 1
            nat = natural_vectors(sc, run_)
            ideal = {f["name"]: ideal_vector(f, factor, sc) for f in sc["flows"]}
            use = {}
            case_ok = True
            for f in sc["flows"]:
                real = nat.get(f["name"])
                if real is None:
                    ideal_bad.append((sid, f["name"], "no recorded score vector", None))
                    case_ok = False
                    use[f["name"]] = ideal[f["name"]]
                    continue
                idl = ideal[f["name"]]
                if len(real) != len(idl) or any(abs(Fraction(r) - i) > Fraction(1, 10 ** 12) * i for r, i in zip(real, idl)):
                    ideal_bad.append((sid, f["name"], real, [float(x) for x in idl]))
                    case_ok = False
                use[f["name"]] = [Fraction(r) for r in real]
            # double rounding: float order == exact order, component-wise over the case
            inverted = False
            if True:
                rounding_total += case_ok
                pairs_ok = True
                names = [f["name"] for f in sc["flows"]] if case_ok else []
                for x, y in itertools.combinations(names, 2):
                    for pos in range(min(len(nat[x]), len(nat[y]))):
                        fr = (nat[x][pos] > nat[y][pos]) - (nat[x][pos] < nat[y][pos])
                        ir = (ideal[x][pos] > ideal[y][pos]) - (ideal[x][pos] < ideal[y][pos])
                        if not case_ok:
                            continue
                        if fr != ir:
                            pairs_ok = False
                            if ir != 0:
                                inverted = True   # rounding merged or inverted two different exact scores
                            if len(rounding_bad_examples) < 3:
                                rounding_bad_examples.append({"scenario": sid, "flows": [x, y], "float": [nat[x][pos], nat[y][pos]],
                                                              "exact": [str(ideal[x][pos]), str(ideal[y][pos])]})
                rounding_ok += pairs_ok and case_ok
                prov = None
                if not inverted:
                    # the oracle speaks about the documented chain: unmentioned parameters x priority;
                    # links that are mathematically equal but computed differently (float noise) may
                    # be ordered either way, see possibly_ge
                    use = ideal
                    prov = {f["name"]: ideal_provenance(f, sc) for f in sc["flows"]}
            obs = []
            for sig, what in oracle(sc, run_, factor, use, prov, obs):
                viol.append((sc, run_, sig, what))
            if obs:
                noise_obs_n += 1
                if len(noise_obs_examples) < 2:
                    noise_obs_examples.append({"scenario": sc, "picks": run_["picks"], "observed": obs,
                                               "float_scores": natural_vectors(sc, run_)})
            winners_seen.add(json.dumps(sorted((e["type"], json.dumps(e["args"], sort_keys=True)) for e in run_["out"])))
        if sc["inject"] is None:
            k = len(winners_seen)
            tie_pick_outcomes[k] = tie_pick_outcomes.get(k, 0) + 1

    seen_sig = set()
    for sc, run_, sig, what in viol:
        if sig in seen_sig:
            continue
        seen_sig.add(sig)
        mine = [x for x in viol if x[2] == sig]
        sc, run_, sig, what = min(mine, key=lambda x: len(json.dumps(x[0])))
        out.findings.append(C.Finding(sig, what, {
            "scenario": sc, "picks": run_["picks"], "colang": scenario_src(sc), "event": scenario_event(sc),
            "outgoing_events": run_.get("out"), "status_after_event": run_.get("post"),
            "status_after_actions_finished": run_.get("final"), "violations_of_this_kind": len(mine)}))
    if impl_errors:
        sid, err = impl_errors[0]
        out.add_broken("impl:exception", "%d runs raised; first: scenario=%s %s" % (
            len(impl_errors), json.dumps(by_id.get(sid)), err))
    if ideal_bad:
        out.add_broken("correspondence:C05-score-vectors",
                       "%d flows whose recorded matching_scores are not priority*factor^k + [1.0]*depth; first: %s" % (
                           len(ideal_bad), ideal_bad[0]))

    samples = [k[2] for k in kept[:2]]
    out.coverage.update({
        "evaluations": len(terms) + n_e2e,
        "distinct_nontrivial": n_nontrivial,
        "rule": "function level: one case = one recorded call of _resolve_action_conflicts (candidates, picks, observed effects), distinct by hash of the canonical case; non-trivial = some interaction-loop group holds >= 2 candidates (a real conflict or co-win); end to end: one evaluation = one run_to_completion trace (program, pick sequence) checked by the property oracle",
        "samples": samples,
        "input_distribution": {
            "scenarios": len(scenarios), "corpus_scenarios": corpus_n, "interpreter_runs": n_runs,
            "end_to_end_runs_checked_by_oracle": n_e2e, "resolve_calls_recorded": n_calls,
            "distinct_calls": len(terms), "candidates_per_call": dist["cands"], "loop_groups_per_call": dist["groups"],
            "random_choice_sequence_lengths": dist["tie"], "calls_mixing_score_list_lengths": dist["score_len_mix"],
            "calls_with_catch_labels": dist["with_catch"], "calls_with_action_merge": dist["with_merge"],
            "calls_with_injected_scores": dist["injected_calls"], "calls_with_co_winners": dist["cowin"],
            "abort_calls": dist["aborts"], "scenarios_with_pick_tree_truncated": truncated,
            "distinct_outcomes_over_picks_per_scenario": tie_pick_outcomes,
        },
        "traces_validated_against_impl": len(terms),
        "correspondence_disagreements": len(disagreements),
        "oracle_violations": len(viol),
        "double_rounding": {"cases_checked": rounding_total, "float_order_equals_exact_order": rounding_ok,
                            "examples_where_not": rounding_bad_examples},
        "observations": {"float_noise_near_tie_decided_winner": {
            "runs": noise_obs_n,
            "what": "two score links are the same rational computed differently (e.g. priority 0.9 x 0.9^k and 0.9^(k+1)); their floats differ in the last ulps and that noise, not specificity, ordered the heads; the winner is maximal under one resolution of the near-tie, which the property admits (arbitrary among exact ties)",
            "examples": noise_obs_examples}},
        "impl_wall_s": round(t_impl, 1),
    })
    out.assumptions += [
        "function level: the candidate record (uid, flow, loop, scores, event, action uid, catch labels) is everything _resolve_action_conflicts reads; effects of _abort_flow on later heads of the same call (a losing parent aborting a child that is also a candidate) are not modelled: the code skips such a dead head (`if not is_active_flow(competing_flow_state): continue`), the model assumes every candidate's flow is still active at its turn",
        "end-to-end oracle: 'most specific' = maximal documented chain under some resolution of float-noise near-ties (links that are the same rational but computed from different priority/exponent pairs may be ordered either way; links of equal provenance are bit-identical; any real difference is strict)",
        "scores: each float is taken as the rational it denotes (exact), so sorting/equality agree with the model by construction; relating scores to 'unmentioned parameters x priority' assumes double rounding does not reorder them - checked per case, see coverage.double_rounding",
        "random.choice(seq) = seq[pick k (len seq)] with an arbitrary pick < len; the harness enumerates the whole tree of outcomes (up to %d runs per scenario)" % max_runs,
        "Python == on argument dicts is an arbitrary oracle in the theorems; the correspondence uses the str/int/bool/float fragment of V2/ConflictRun.v",
        "get_event_from_element does not raise for an actionable head (it already succeeded inside slide)",
    ]
    if tier == "thorough" and b["ok"]:
        ok, log = C.coqchk(PID, b["files"])
        out.coverage["coqchk"] = "ok" if ok else "FAILED"
        if not ok:
            out.add_broken("coqchk", log)
    return C.finish(out)


if __name__ == "__main__":
    if len(sys.argv) == 4 and sys.argv[1] == "--worker":
        _worker_main(sys.argv[2], sys.argv[3])
    else:
        print("usage: python -m harness.c05 --worker IN OUT")
