(* placeholder while the proofs are being written *)
From Coq Require Import String List Bool.
From NG Require Import Gen.C16Consts Pipe.GenLog Pipe.Options.
Import ListNotations.
Open Scope string_scope.
Theorem C16_consts_tmp : mem "create_event" ignored_actions = true.
Proof. exact eq_refl. Qed.
Print Assumptions C16_consts_tmp.
