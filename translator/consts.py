"""Translator (T-tie): constants and small structural facts read from /repo's CURRENT source
with Python's `ast`, emitted as Coq definitions in coq/theories/Gen/Consts.v.

Fail-closed: anything that is not found in the expected shape raises TranslatorError; the
check then reports the broken obligation `translator:consts`.
"""
from __future__ import annotations

import ast
import os
from fractions import Fraction

REPO = os.environ.get("VERIF_REPO", "/repo")


class TranslatorError(Exception):
    pass


def _parse(rel):
    path = os.path.join(REPO, rel)
    with open(path, encoding="utf-8") as f:
        return ast.parse(f.read(), filename=path)


def _func(tree, name):
    for node in ast.walk(tree):
        if isinstance(node, (ast.FunctionDef, ast.AsyncFunctionDef)) and node.name == name:
            return node
    raise TranslatorError(f"function {name} not found")


def _cls(tree, name):
    for node in ast.walk(tree):
        if isinstance(node, ast.ClassDef) and node.name == name:
            return node
    raise TranslatorError(f"class {name} not found")


def coq_str(s: str) -> str:
    if any(ord(c) > 126 or ord(c) < 32 for c in s):
        raise TranslatorError(f"non-printable constant {s!r}")
    return '"' + s.replace('"', '""') + '"'


def coq_str_list(xs) -> str:
    return "[" + "; ".join(coq_str(x) for x in xs) + "]"


def coq_bool(b) -> str:
    return "true" if b else "false"


def _frac_of_float_const(node) -> Fraction:
    if not (isinstance(node, ast.Constant) and isinstance(node.value, float)):
        raise TranslatorError("expected a float literal")
    # exact decimal reading of the literal as written (0.9 -> 9/10)
    return Fraction(repr(node.value))


def _is_len_guard(stmt, big="ref_args", small="args"):
    """`if len(ref_args) > len(args): return 0.0`"""
    if not isinstance(stmt, ast.If) or stmt.orelse:
        return False
    t = stmt.test
    ok = (
        isinstance(t, ast.Compare)
        and len(t.ops) == 1
        and isinstance(t.ops[0], ast.Gt)
        and ast.dump(t.left) == ast.dump(ast.parse(f"len({big})", mode="eval").body)
        and ast.dump(t.comparators[0]) == ast.dump(ast.parse(f"len({small})", mode="eval").body)
    )
    if not ok:
        return False
    b = stmt.body
    return (
        len(b) == 1
        and isinstance(b[0], ast.Return)
        and isinstance(b[0].value, ast.Constant)
        and b[0].value.value == 0.0
    )


def matcher_consts():
    """Facts about _compute_arguments_dict_matching_score and InternalEvents."""
    sm = _parse("nemoguardrails/colang/v2_x/runtime/statemachine.py")
    fn = _func(sm, "_compute_arguments_dict_matching_score")
    out = {}

    # argument_filter
    filt = None
    for node in ast.walk(fn):
        if (
            isinstance(node, ast.Assign)
            and len(node.targets) == 1
            and isinstance(node.targets[0], ast.Name)
            and node.targets[0].id == "argument_filter"
        ):
            if not isinstance(node.value, ast.List):
                raise TranslatorError("argument_filter is not a list literal")
            filt = []
            for e in node.value.elts:
                if not (isinstance(e, ast.Constant) and isinstance(e.value, str)):
                    raise TranslatorError("argument_filter element is not a string literal")
                filt.append(e.value)
    if filt is None:
        raise TranslatorError("argument_filter not found")
    out["argument_filter"] = filt

    # specificity factors: every `<float> ** (...)` in the function
    factors = []
    for node in ast.walk(fn):
        if isinstance(node, ast.BinOp) and isinstance(node.op, ast.Pow):
            factors.append(_frac_of_float_const(node.left))
    if not factors:
        raise TranslatorError("no specificity factor found")
    if len(set(factors)) != 1:
        raise TranslatorError(f"container branches use different factors: {factors}")
    out["factor"] = factors[0]
    out["n_factor_sites"] = len(factors)

    # which container branches begin with the length guard
    guards = {}

    def visit_chain(ifnode):
        t = ifnode.test
        # `isinstance(ref_args, X)`
        if (
            isinstance(t, ast.Call)
            and isinstance(t.func, ast.Name)
            and t.func.id == "isinstance"
            and len(t.args) == 2
            and isinstance(t.args[0], ast.Name)
            and t.args[0].id == "ref_args"
            and isinstance(t.args[1], ast.Name)
            and t.args[1].id in ("dict", "list", "set")
        ):
            body = [s for s in ifnode.body if not (isinstance(s, ast.Expr) and isinstance(s.value, ast.Constant))]
            # skip plain assignments before the guard (e.g. argument_filter = [...])
            first_non_assign = next((s for s in body if not isinstance(s, ast.Assign)), None)
            guards[t.args[1].id] = bool(first_non_assign is not None and _is_len_guard(first_non_assign))
        if len(ifnode.orelse) == 1 and isinstance(ifnode.orelse[0], ast.If):
            visit_chain(ifnode.orelse[0])

    for stmt in fn.body:
        if isinstance(stmt, ast.If):
            visit_chain(stmt)
    for k in ("dict", "list", "set"):
        if k not in guards:
            raise TranslatorError(f"container branch for {k} not found in matcher")
    out["guards"] = guards

    # StartFlow-without-flow_id factor in _compute_event_comparison_score
    ev = _func(sm, "_compute_event_comparison_score")
    sf = []
    for node in ast.walk(ev):
        if (
            isinstance(node, ast.AugAssign)
            and isinstance(node.op, ast.Mult)
            and isinstance(node.target, ast.Name)
            and node.target.id == "match_score"
            and isinstance(node.value, ast.Constant)
            and isinstance(node.value.value, float)
        ):
            sf.append(Fraction(repr(node.value.value)))
    if len(sf) != 1:
        raise TranslatorError("expected exactly one `match_score *= <float>` in _compute_event_comparison_score")
    out["start_flow_factor"] = sf[0]
    if sf[0] != out["factor"]:
        # the model counts the StartFlow-without-flow_id penalty as one more power of `factor`
        raise TranslatorError(f"StartFlow factor {sf[0]} differs from the specificity factor {out['factor']}")

    # InternalEvents
    fl = _parse("nemoguardrails/colang/v2_x/runtime/flows.py")
    ie = _cls(fl, "InternalEvents")
    names = {}
    all_names = None
    for stmt in ie.body:
        if isinstance(stmt, ast.Assign) and len(stmt.targets) == 1 and isinstance(stmt.targets[0], ast.Name):
            tgt = stmt.targets[0].id
            if isinstance(stmt.value, ast.Constant) and isinstance(stmt.value.value, str):
                names[tgt] = stmt.value.value
            elif tgt == "ALL":
                if not isinstance(stmt.value, ast.Set):
                    raise TranslatorError("InternalEvents.ALL is not a set literal")
                all_names = []
                for e in stmt.value.elts:
                    if not (isinstance(e, ast.Name) and e.id in names):
                        raise TranslatorError("InternalEvents.ALL member is not a class constant")
                    all_names.append(names[e.id])
    if all_names is None:
        raise TranslatorError("InternalEvents.ALL not found")
    for req in ("START_FLOW", "FINISH_FLOW", "STOP_FLOW", "FLOW_STARTED", "FLOW_FINISHED", "FLOW_FAILED", "UNHANDLED_EVENT"):
        if req not in names:
            raise TranslatorError(f"InternalEvents.{req} not found")
    out["internal_names"] = names
    out["internal_all"] = all_names
    return out


def emit_matcher(c) -> str:
    f = c["factor"]
    sf = c["start_flow_factor"]
    n = c["internal_names"]
    lines = [
        "(* --- matcher (statemachine.py::_compute_arguments_dict_matching_score) --- *)",
        f"Definition argument_filter : list string := {coq_str_list(c['argument_filter'])}.",
        f"Definition factor : Q := {f.numerator} # {f.denominator}.",
        f"Definition start_flow_factor : Q := {sf.numerator} # {sf.denominator}.",
        f"Definition dict_length_guard : bool := {coq_bool(c['guards']['dict'])}.",
        f"Definition list_length_guard : bool := {coq_bool(c['guards']['list'])}.",
        f"Definition set_length_guard : bool := {coq_bool(c['guards']['set'])}.",
        "(* --- InternalEvents (flows.py) --- *)",
    ]
    for py, coq in (
        ("START_FLOW", "ev_start_flow"),
        ("FINISH_FLOW", "ev_finish_flow"),
        ("STOP_FLOW", "ev_stop_flow"),
        ("FLOW_STARTED", "ev_flow_started"),
        ("FLOW_FINISHED", "ev_flow_finished"),
        ("FLOW_FAILED", "ev_flow_failed"),
        ("UNHANDLED_EVENT", "ev_unhandled_event"),
    ):
        lines.append(f"Definition {coq} : string := {coq_str(n[py])}.")
    lines.append(f"Definition internal_events_all : list string := {coq_str_list(c['internal_all'])}.")
    return "\n".join(lines)


HEADER = """(* GENERATED on every run by /verif/translator from /repo's current working tree.
   Do not edit. *)
From Coq Require Import String List QArith ZArith.
Import ListNotations.
Open Scope string_scope.
"""
