"""C15 - Conversations served by one LLMRails instance do not influence each other.

Models: coq/theories/Svc/{HistKey,HistCache,Params}.v, executable instances Svc/HistRun.v and
Svc/Params.v (check_key, check_trace, check_ptrace); theorems: Props/C15.v.
Tie: (T) translator/gen_c15.py -> Gen/C15Consts.v (separator, role cases, whether a cache hit
is verified against the looked-up message list, shape of LLMParams.__enter__/__exit__);
(X) differential, evaluated inside Coq, of
  * the real get_history_cache_key on generated message lists,
  * the real _get_events_for_messages / generate_async on a real LLMRails (FakeLLM subclass
    whose answer is a function of the prompt): every sequential interleaving of the turns of
    <=3 conversations x <=3 turns, incl. adversarial sets built from the separator, role
    confusion, invisible roles and client-supplied histories, plus probe lookups,
  * the real LLMParams on generated LLM objects / manager interleavings,
  * asyncio.gather of generate_async calls with LLM latencies drawn from the schedule; the
    logged enter / call / exit steps are replayed in Svc.Params (trace inclusion).
Direct oracle on the implementation (independent restatement of the property text): shared
instance replies / LLM prompts / LLM parameters at call time equal those of each conversation
replayed alone on a fresh instance; whenever nothing is in flight the LLM parameters are the
configured ones.
"""
from __future__ import annotations

import hashlib
import itertools
import json
import os
import random
import sys

from harness import common as C

PID = "C15"
GEN = ["C15Consts"]

HIST_PRE = """From Coq Require Import List String Ascii Bool NArith.
From NG Require Import Svc.HistKey Svc.HistCache Svc.HistRun.
Import ListNotations.
Open Scope string_scope.
Open Scope N_scope.
"""
CTX_PRE = """From Coq Require Import List Bool Arith.
From NG Require Import Svc.Ctx Svc.CtxRun.
Import ListNotations.
"""
PAR_PRE = """From Coq Require Import List ZArith Bool.
From NG Require Import Svc.Params.
Import ListNotations.
Open Scope Z_scope.
"""

SIG_RACE = "llm-params-race:overlapping-llm_params-windows-on-shared-llm"
SIG_KWNONE = "llm-params-absent-model-kwarg-left-as-None"
SIG_PARAMS_SERIAL = "llm-params-wrong-without-overlap"
SIG_KEY = "history-cache-hit-for-different-messages"
SIG_CACHE = "history-cache-shared-instance-differs-from-fresh"
SIG_CTX = "request-context-leaks-between-requests"
SIG_PROMPT = "llm-prompt-contains-another-conversations-data"
SIG_G = "generation-depends-on-instance-state-beyond-the-events"

PARAM_NAMES = {"temperature": 0, "max_tokens": 1, "top_p": 2, "n": 3, "seed": 4}

# ---------------------------------------------------------------------------------------
# the implementation side

_NS = {}


def impl():
    """Import the real code once, patch the embedding model (offline), define the fake LLMs."""
    if _NS:
        return _NS
    import asyncio
    import contextvars
    import logging
    from typing import Any, Dict, List

    for p in (os.path.join(C.REPO, "tests"), C.REPO):
        if p not in sys.path:
            sys.path.insert(1, p)
    logging.disable(logging.CRITICAL)
    import nemoguardrails.embeddings.basic as EB

    class _FakeEmb:
        def encode(self, texts):
            out = []
            for t in texts:
                v = [0.0] * 8
                for i, ch in enumerate(t.encode()):
                    v[(ch + i) % 8] += 1.0
                out.append(v)
            return out

        async def encode_async(self, texts):
            return self.encode(texts)

    EB.init_embedding_model = lambda embedding_model, embedding_engine: _FakeEmb()
    from nemoguardrails import LLMRails, RailsConfig
    from nemoguardrails.llm import params as P
    from nemoguardrails.rails.llm.utils import get_history_cache_key
    from nemoguardrails import context as CTX
    from nemoguardrails.rails.llm.options import GenerationOptions
    from utils import FakeLLM

    TAG = contextvars.ContextVar("c15_tag", default=None)

    class Hooks:
        def __init__(self):
            self.calls = []      # {"tag", "prompt", "params"}
            self.steps = []      # (tag, kind, data, snapshot)   LLMParams enter/exit + LLM call
            self.lat = {}        # (tag, k) -> seconds
            self.ncall = {}
            self.ctx = []        # contextvar observations at call time

    def snapshot(llm):
        d = {"attrs": {k: getattr(llm, k) for k in ("temperature", "max_tokens") if hasattr(llm, k)}}
        d["kwargs"] = dict(llm.model_kwargs) if hasattr(llm, "model_kwargs") else None
        return d

    import re as _re

    def answer(prompt):
        """The fake LLM: a function of the prompt only."""
        hx = hashlib.sha1(prompt.encode()).hexdigest()
        if prompt.startswith("Check:"):
            text = prompt[len("Check: "):].rsplit("\nAnswer:", 1)[0]
            return "Yes" if (":R" in text or "bad" in text) else "No"
        last = prompt.rstrip().split("\n")[-1]
        if "\nuser " in prompt and "Assistant:" not in last:
            # dialog-rails tasks (prompts end with the Colang history)
            m = _re.match(r'user "(.*)"$', last)
            if m:                                   # generate_user_intent
                t = m.group(1)
                if t.startswith(("hello", "hi")):
                    return "  express greeting"
                return "  ask about topic" if "about" in t else "  ask something"
            if last.startswith("user "):            # generate_next_steps: the generated flow depends on the history
                return ["bot inform alpha", "bot inform beta", "bot inform gamma"][int(hx[:6], 16) % 3]
            if last.startswith("bot "):             # generate_bot_message
                return '  "M' + hx[:3] + '"'
        return "R" + hx[:3]

    class FnLLM(FakeLLM):
        """FakeLLM whose completion is a function of the prompt; logs what it is called with."""
        responses: List = []
        temperature: float = 0.5
        max_tokens: int = 100
        h: Any = None

        def _call(self, prompt, stop=None, run_manager=None, **kw):
            self.h.calls.append({"tag": TAG.get(), "prompt": prompt, "params": snapshot(self)})
            return answer(prompt)

        async def _acall(self, prompt, stop=None, run_manager=None, **kw):
            tag = TAG.get()
            h = self.h
            k = h.ncall.get(tag, 0)
            h.ncall[tag] = k + 1
            snap = snapshot(self)
            opts = CTX.generation_options_var.get()
            seen_opts = json.loads(json.dumps(opts.dict(), default=str)) if opts is not None else None
            h.calls.append({"tag": tag, "prompt": prompt, "params": snap,
                            "ctx": {"options": seen_opts, "raw": strip(json.loads(json.dumps(CTX.raw_llm_request.get(), default=str)))}})
            h.steps.append((tag, "call", None, snap))
            h.ctx.append((tag, opts.llm_params if opts is not None else None, CTX.raw_llm_request.get()))
            lat = h.lat.get((tag, k), 0)
            if lat:
                await asyncio.sleep(lat)
            return answer(prompt)

    class FnLLMKw(FnLLM):
        model_kwargs: Dict[str, Any] = {}

    # log the atomic steps of LLMParams (wrappers call the real methods)
    if not getattr(P.LLMParams, "_c15_wrapped", False):
        _en, _ex = P.LLMParams.__enter__, P.LLMParams.__exit__

        def en(self):
            r = _en(self)
            h = getattr(self.llm, "h", None)
            if isinstance(h, Hooks):
                h.steps.append((TAG.get(), "enter", dict(self.altered_params), snapshot(self.llm)))
            return r

        def ex(self, *a):
            r = _ex(self, *a)
            h = getattr(self.llm, "h", None)
            if isinstance(h, Hooks):
                h.steps.append((TAG.get(), "exit", None, snapshot(self.llm)))
            return r

        P.LLMParams.__enter__, P.LLMParams.__exit__ = en, ex
        P.LLMParams._c15_wrapped = True

    _NS.update(dict(asyncio=asyncio, LLMRails=LLMRails, RailsConfig=RailsConfig, P=P, TAG=TAG, Hooks=Hooks,
                    FnLLM=FnLLM, FnLLMKw=FnLLMKw, snapshot=snapshot, key=get_history_cache_key, CTX=CTX,
                    GenerationOptions=GenerationOptions))
    return _NS


YAML_GENERAL = "models: []\n"
YAML_SELFCHECK = """
models: []
enable_rails_exceptions: %s
rails:
  input:
    flows:
      - self check input
prompts:
  - task: self_check_input
    content: |-
      Check: {{ user_input }}
      Answer:
"""
COLANG_DIALOG = """
define user express greeting
  "hello"
  "hi"

define bot express greeting
  "Hi there"

define flow greeting
  user express greeting
  bot express greeting

define bot inform alpha
  "ALPHA"

define bot inform beta
  "BETA"
"""
# "dialog": dialog rails with multi-step generation - the LLM generates flows that the runtime
# registers on the instance (runtime.flow_configs), i.e. instance state beyond the history cache
CONFIGS = {"general": YAML_GENERAL, "selfcheck": YAML_SELFCHECK % "False", "exc": YAML_SELFCHECK % "True",
           "dialog": ("models: []\nenable_multi_step_generation: True\n", COLANG_DIALOG)}
# "ctxrail": per-conversation context variables reach (a) an action parameter of an input rail
# (`execute check_membership(user_id=$user_id)`) and (b) prompt templates through OPTIONAL template
# variables (relevant_chunks is passed by the general task only, both templates mention it)
CONFIGS["ctxrail"] = ("""
models:
  - type: main
    engine: fake
    model: fake
rails:
  input:
    flows:
      - check membership
      - self check input
prompts:
  - task: self_check_input
    content: |-
      Check: {{ user_input }}
      Answer:{% if relevant_chunks %} [context {{ relevant_chunks }}]{% endif %}
  - task: general
    content: |-
      {{ general_instructions }}{% if relevant_chunks %}
      Context: {{ relevant_chunks }}{% endif %}

      {{ history | user_assistant_sequence }}
      Assistant:
""", """
define bot refuse non member
  "Sorry, this service is for members only."

define subflow check membership
  $is_member = execute check_membership(user_id=$user_id)
  if not $is_member
    bot refuse non member
    stop
""")
WORDS_DIALOG = ["hello", "hi", "tell me about cats", "tell me about dogs", "what about x:y", "a:b", "q", "ok", "about:R"]
_CFG = {}


def mk_app(config, kw=False):
    ns = impl()
    if config not in _CFG:
        y = CONFIGS[config]
        y, co = y if isinstance(y, tuple) else (y, "")
        _CFG[config] = ns["RailsConfig"].from_content(colang_content=co, yaml_content=y)
    h = ns["Hooks"]()
    llm = ns["FnLLMKw"](h=h, model_kwargs={"top_p": 1.0}) if kw else ns["FnLLM"](h=h)
    import copy
    # every instance gets its OWN config object: a fresh instance must not share flow elements
    # (mutable dicts) with an instance that already served requests
    app = ns["LLMRails"](copy.deepcopy(_CFG[config]), llm=llm)
    if config == "ctxrail":
        app.register_action(_check_membership, "check_membership")
    return app, llm, h


async def _check_membership(user_id=None):
    return bool(user_id) and str(user_id).startswith("member-")


# ---- canonical renderings ----

_VOLATILE = {"uid", "event_created_at", "source_uid", "action_uid", "action_result_key"}


import re as _re_mod

_UUID = _re_mod.compile(r"[0-9a-f]{8}-[0-9a-f]{4}-[0-9a-f]{4}-[0-9a-f]{4}-[0-9a-f]{12}")


def strip(x):
    if isinstance(x, str):
        return _UUID.sub("<uuid>", x)
    if isinstance(x, dict):
        return {k: strip(v) for k, v in x.items() if k not in _VOLATILE and not k.endswith("_uid") and not k.endswith("_at")}
    if isinstance(x, (list, tuple)):
        return [strip(v) for v in x]
    return x


def token(e):
    """uid-free token of an event: [tag, text] for the shapes Svc/HistRun.v::conv1 produces, else ["X", hash]."""
    t = e.get("type")
    if t == "UtteranceUserActionFinished":
        return ["U", str(e.get("final_transcript"))]
    if t == "UserMessage":
        return ["M", str(e.get("text"))]
    if t == "StartUtteranceBotAction":
        return ["S", str(e.get("script"))]
    if t == "UtteranceBotActionFinished":
        return ["F", str(e.get("final_script"))]
    if "uid" not in e:
        if t == "ContextUpdate":
            return ["C", json.dumps(e.get("data"), default=str)]
        return ["E", json.dumps(e, default=str)]
    return ["X", int(hashlib.sha1((str(t) + json.dumps(strip(e), sort_keys=True, default=str)).encode()).hexdigest()[:12], 16)]


_INTERN = {}


def coq_tok(t):
    """X tokens are interned per trace (injective renaming; the model only copies and compares them)."""
    if t[0] == "X":
        return f"(TX {_INTERN.setdefault(t[1], len(_INTERN))})"
    return f"(t{t[0]} {C.coq_string(short(t[1]))})"


def _deep(v, depth, seen):
    """Canonical deep rendering (uuids canonicalised, entries under fresh-id keys dropped,
    nemoguardrails objects rendered through their attributes)."""
    if isinstance(v, (str, int, float, bool, type(None))):
        return _UUID.sub("<uuid>", v) if isinstance(v, str) else v
    if depth <= 0 or id(v) in seen:
        return "<...>"
    seen = seen | {id(v)}
    if isinstance(v, dict):
        return {_UUID.sub("<uuid>", str(k)): _deep(x, depth - 1, seen) for k, x in v.items() if not _UUID.search(str(k))}
    if isinstance(v, (list, tuple)):
        return [_deep(x, depth - 1, seen) for x in v]
    if isinstance(v, (set, frozenset)):
        return sorted(json.dumps(_deep(x, depth - 1, seen), sort_keys=True, default=str) for x in v)
    if (type(v).__module__ or "").startswith("nemoguardrails") and isinstance(getattr(v, "__dict__", None), dict):
        return {"<" + type(v).__name__ + ">": {k: _deep(x, depth - 1, seen) for k, x in v.__dict__.items()}}
    return "<" + type(v).__name__ + ">"


def _cv(v, d, deep=True):
    if isinstance(v, (str, int, float, bool, type(None))):
        return _UUID.sub("<uuid>", repr(v))[:120]
    if isinstance(v, dict):
        ks = [_UUID.sub("<uuid>", str(k))[:80] for k in v]
        det = sorted(k for k in ks if "<uuid>" not in k)
        out = {"keys": det, "fresh_id_keys": len(ks) - len(det)}
        if deep:    # the VALUES too (flow configs: elements incl. action parameters, ...)
            out["deep"] = hashlib.sha1(json.dumps(_deep(v, 9, frozenset()), sort_keys=True, default=str).encode()).hexdigest()[:16]
        return out
    if isinstance(v, (list, tuple, set, frozenset)):
        out = {"len": len(v), "items": [_cv(x, d - 1, False) for x in list(v)[:60]] if d > 0 else None}
        if deep:
            out["deep"] = hashlib.sha1(json.dumps(_deep(v, 9, frozenset()), sort_keys=True, default=str).encode()).hexdigest()[:16]
        return out
    return "<" + type(v).__name__ + ">"


def instance_state(app):
    """Fingerprint of the mutable attributes of the LLMRails object and of the nemoguardrails
    objects it owns (runtime, action dispatcher, generation actions, task manager, ...), uuids
    canonicalised; path -> (deterministic part, number of fresh-id keys)."""
    out, seen = {}, set()

    def walk(obj, path, depth):
        if id(obj) in seen:
            return
        seen.add(id(obj))
        d = getattr(obj, "__dict__", None)
        if not isinstance(d, dict):
            return
        for k, v in d.items():
            p = path + "." + k
            if (type(v).__module__ or "").startswith("nemoguardrails") and depth > 0:
                walk(v, p, depth - 1)
            else:
                c = _cv(v, 1, deep=not any(p == q or p.startswith(q + ".") for q in STATE_ALLOWED))
                fresh = c.pop("fresh_id_keys", 0) if isinstance(c, dict) else 0
                out[p] = (json.dumps(c, sort_keys=True, default=str), fresh)

    walk(app, "app", 4)
    return out


# instance attributes that are allowed to change while serving, and why
STATE_ALLOWED = {
    "app.events_history_cache": "the history cache: modelled (Svc.HistCache), hits verified against the message list",
    "app.explain_info": "debug information about the latest request (explain()); not read by generation",
    "app.llm_generation_actions.flows_index._items": "_search_flows_index replaces an index item's text by the item's own meta['flow'] on first use: idempotent, independent of the conversation",
}


def state_changes(s0, s1):
    """(deterministic changes outside the allow-list, all changed paths, paths that only gained fresh-id keys)"""
    bad, changed, fresh = [], [], []
    for p in sorted(set(s0) | set(s1)):
        a, b = s0.get(p), s1.get(p)
        if a == b:
            continue
        changed.append(p)
        if a is not None and b is not None and a[0] == b[0]:
            fresh.append(p)
            continue
        if not any(p == q or p.startswith(q + ".") for q in STATE_ALLOWED):
            bad.append((p, (a or ("<absent>", 0))[0][:200], (b or ("<absent>", 0))[0][:200]))
    return bad, changed, fresh


ROLE_COQ = {"user": "RUser", "assistant": "RAssistant", "context": "RContext", "event": "REvent",
            "exception": "(ROther 0%nat)", "system": "(ROther 1%nat)", "tool": "(ROther 2%nat)"}


def smsg(m):
    """(Coq role, body) of a message dict: body = what the key function appends / identity of the message."""
    r = m["role"]
    if r in ("user", "assistant"):
        b = m["content"]
    elif r == "context":
        b = json.dumps(m["content"])
    elif r == "event":
        b = json.dumps(m["event"])
    else:
        b = m.get("content")
        # identity of the message only (the key function ignores these roles)
        b = b if isinstance(b, str) else "#" + hashlib.sha1(json.dumps(b, sort_keys=True, default=str).encode()).hexdigest()[:16]
    if r not in ROLE_COQ:
        raise ValueError("role " + r)
    return ROLE_COQ[r], b


_SHORT = [False]


def short(t):
    """In trace terms a long text (the generation-options context message) is replaced, in the
    message bodies AND in the event tokens alike, by a digest: an injective renaming of texts as far
    as the trace check is concerned (the key differential always uses the full texts)."""
    if _SHORT[0] and len(t) > 100:
        return "#L" + hashlib.sha1(t.encode()).hexdigest()[:20]
    return t


def coq_smsg(m):
    r, b = smsg(m)
    return f"({r}, {C.coq_string(short(b))})"


def coq_msgs(ms):
    return C.coq_list([coq_smsg(m) for m in ms])


def coq_toks(ts):
    return C.coq_list([coq_tok(t) for t in ts])


def canon_reply(m):
    return [m.get("role"), strip(m.get("content"))]


# ---- running conversations on a real instance ----


def norm_options(o):
    """What generation_options_var must hold for a request made with options `o`."""
    if o is None:
        return None
    return json.loads(json.dumps(impl()["GenerationOptions"](**o).dict(), default=str))


def run_schedule(config, convs, sched, probes=(), opts=None, mode="tasks"):
    """Serve the turns of `convs` (list of list of turns; a turn = list of client messages) on ONE
    fresh LLMRails instance in the order `sched` (list of conversation indices).
    opts[c] = generation options every request of conversation c is made with (None = none).
    mode "tasks": every request in its own task/context (sync generate());
    mode "coroutine": ONE coroutine awaits generate_async for all requests (a worker loop).
    Returns (records, probe_records, final_params)."""
    ns = impl()
    app, llm, h = mk_app(config)
    opts = opts or [None] * len(convs)
    seen = {}
    orig_get = app._get_events_for_messages

    def get_events(messages, state):
        ev = orig_get(messages, state)
        seen["req"] = json.loads(json.dumps(messages, default=str))
        seen["events"] = [token(e) for e in ev]
        return ev

    app._get_events_for_messages = get_events
    orig_gen = app.runtime.generate_events

    async def gen_events(events, processing_log=None):
        r = await orig_gen(events, processing_log=processing_log)
        seen["new"] = [token(e) for e in r]
        return r

    app.runtime.generate_events = gen_events
    st0 = instance_state(app)
    hist = [[] for _ in convs]
    done = [0] * len(convs)
    recs = []
    plan = []
    for c in sched:
        if done[c] < len(convs[c]):
            plan.append((c, done[c]))
            done[c] += 1

    def before(c, k):
        msgs = hist[c] + json.loads(json.dumps(convs[c][k]))
        ns["TAG"].set((c, k))
        seen.clear()
        return msgs, len(h.calls)

    def after(c, k, msgs, n0, res, err):
        if err is not None:
            reply = {"role": "error", "content": err[:200]}
        else:
            reply = res if isinstance(res, dict) else res.response[0]
        hist[c] = msgs + [reply]
        recs.append({"c": c, "k": k, "req": seen.get("req", msgs), "events": seen.get("events", []),
                     "new": seen.get("new", []), "reply": reply, "err": err,
                     "prompts": [x["prompt"] for x in h.calls[n0:]],
                     "call_params": [x["params"] for x in h.calls[n0:]],
                     "call_ctx": [x["ctx"] for x in h.calls[n0:]],
                     "after_params": ns["snapshot"](llm)})

    if mode == "tasks":
        for c, k in plan:
            msgs, n0 = before(c, k)
            try:
                res, err = app.generate(messages=json.loads(json.dumps(msgs)), options=json.loads(json.dumps(opts[c]))), None
            except Exception as e:  # not predicted by the model: reported as a finding by the caller
                res, err = None, type(e).__name__ + ": " + str(e)
            after(c, k, msgs, n0, res, err)
    else:
        async def worker():
            for c, k in plan:
                msgs, n0 = before(c, k)
                try:
                    res, err = await app.generate_async(messages=json.loads(json.dumps(msgs)), options=json.loads(json.dumps(opts[c]))), None
                except Exception as e:
                    res, err = None, type(e).__name__ + ": " + str(e)
                after(c, k, msgs, n0, res, err)

        ns["asyncio"].run(worker())
    precs = []
    st1 = instance_state(app)
    app._get_events_for_messages = orig_get
    app.runtime.generate_events = orig_gen
    for pr in probes:
        ev = app._get_events_for_messages(json.loads(json.dumps(pr)), None)
        precs.append({"req": pr, "events": [token(e) for e in ev]})
    final = ns["snapshot"](llm)
    final["_state"] = state_changes(st0, st1)
    return recs, precs, final


def interleavings(lens, cap, rng):
    """All (or `cap` sampled) interleavings of sequences with the given lengths."""
    total = 1
    n = sum(lens)
    from math import factorial
    total = factorial(n)
    for x in lens:
        total //= factorial(x)
    base = [c for c, x in enumerate(lens) for _ in range(x)]
    if total <= cap:
        return sorted(set(itertools.permutations(base))), total
    out = set()
    out.add(tuple(base))
    out.add(tuple(reversed(base)))
    # round robin
    rr = []
    left = list(lens)
    while any(left):
        for c in range(len(lens)):
            if left[c]:
                rr.append(c)
                left[c] -= 1
    out.add(tuple(rr))
    while len(out) < cap:
        b = base[:]
        rng.shuffle(b)
        out.add(tuple(b))
    return sorted(out), total


# ---- generation of conversation sets ----

WORDS = ["a", "b", "hi", "x:y", "q", ":", "a:", ":b", "ok", "R", "no bad", "u"]


def u(t):
    return {"role": "user", "content": t}


_WORDS_NOW = [None]


def rand_text(rng):
    w = _WORDS_NOW[0] or WORDS
    return rng.choice(w) if rng.random() < 0.7 else rng.choice(w) + rng.choice(["", ":", " "]) + rng.choice(w)


def rand_turn(rng):
    r = rng.random()
    if r < 0.6:
        return [u(rand_text(rng))]
    if r < 0.75:
        return [u(rand_text(rng)), u(rand_text(rng))]
    if r < 0.85:
        return [{"role": "context", "content": {"k": rng.choice([1, "v", "a:b"])}}, u(rand_text(rng))]
    if r < 0.93:
        return [{"role": "event", "event": {"type": "Ping", "n": rng.randint(0, 2)}}, u(rand_text(rng))]
    return [{"role": "system", "content": rand_text(rng)}, u(rand_text(rng))]


def rand_conv(rng, maxturns=3):
    return [rand_turn(rng) for _ in range(rng.randint(1, maxturns))]


def isolated(config, conv, opt=None, mode="tasks"):
    recs, _, _ = run_schedule(config, [conv], [0] * len(conv), opts=[opt], mode=mode)
    return recs


OPTIONS = [
    {"llm_params": {"temperature": 0.2}},
    {"llm_params": {"temperature": 0.9, "max_tokens": 7}},
    {"llm_params": {"max_tokens": 11}, "log": {"llm_calls": True}},
    {"llm_params": {"temperature": 0.1}, "rails": {"output": False}},
    {"log": {"activated_rails": True}},
]


def rand_serving(rng, n, first_plain=False):
    """Per-conversation generation options (None = request made without options) and the way the
    requests are served: one task per request, or all of them by one coroutine."""
    opts = [None if rng.random() < 0.5 else rng.choice(OPTIONS) for _ in range(n)]
    if first_plain:
        opts[0] = None
    if rng.random() < 0.5 and n >= 2:
        i, j = rng.sample(range(n), 2)      # make sure option-carrying and option-less requests mix
        opts[i], opts[j] = (None if first_plain and i == 0 else rng.choice(OPTIONS)), None
        if first_plain and i == 0:
            opts[j] = rng.choice(OPTIONS)
    return opts, rng.choice(["tasks", "coroutine", "coroutine"])


def key_of(ms):
    return impl()["key"](ms)


def adversaries(config, base, rng):
    """Conversations crafted from the SERVED history of `base` (its isolated replay): their
    requests contain prefixes whose key equals a key `base` stores under."""
    recs = isolated(config, base)
    out = []
    for r in recs:
        stored = r["req"] + [r["reply"]]          # the list base's entry is stored for
        k = key_of(stored)
        q = u(rng.choice(["q", "zz", "next"]))
        items = [m for m in stored if m["role"] in ("user", "assistant", "context", "event")]
        # 1. separator not escaped: one user message carrying the whole key
        out.append(("sep-joined", [[u(k), q]]))
        # 2. roles ignored: same items, every one sent as a user message
        if any(m["role"] != "user" for m in items):
            out.append(("roles-as-user", [[u(smsg(m)[1]) for m in items] + [q]]))
        # 3. a different split of the key into two user messages
        if ":" in k:
            i = rng.choice([j for j, ch in enumerate(k) if ch == ":"])
            out.append(("resplit", [[u(k[:i]), u(k[i + 1:]), q]]))
            # 4. client-supplied history with a fabricated assistant message (not honest)
            out.append(("fabricated-assistant", [[u(k[:i]), {"role": "assistant", "content": k[i + 1:]}, q]]))
        # 5. the same key stored by another conversation (entry overwritten / evicted), then base goes on
        out.append(("same-key-store", [[u(k)]]))
        # 6. invisible roles: the request without the reply when the reply is an exception
        if r["reply"].get("role") == "exception":
            out.append(("exception-invisible", [r["req"] + [q]]))
        # 7. the served history itself, supplied by another client (identical continuation: out of scope of the oracle)
        out.append(("same-history", [stored + [q]]))
    return out


def add_ctx(conv, idx, rng):
    """ctxrail: the conversation starts with a context message carrying ITS user id (member or
    guest) and, sometimes, retrieved chunks; both contain a marker unique to the conversation."""
    mk = "mk%dz%04x" % (idx, rng.randrange(1 << 16))
    content = {"user_id": rng.choice(["member-", "member-", "guest-"]) + mk}
    if rng.random() < 0.6:
        content["relevant_chunks"] = "chunk " + mk
    conv = json.loads(json.dumps(conv))
    conv[0] = [{"role": "context", "content": content}] + conv[0]
    return conv


def gen_sets(config, rng, n_random, n_adv):
    sets = []
    _WORDS_NOW[0] = WORDS_DIALOG if config == "dialog" else WORDS
    ctx = (lambda c, i: add_ctx(c, i, rng)) if config == "ctxrail" else (lambda c, i: c)
    for _ in range(n_random):
        n = rng.choice([2, 2, 3])
        convs = [ctx(rand_conv(rng), i) for i in range(n)]
        if rng.random() < 0.3:
            convs[-1] = json.loads(json.dumps(convs[0]))      # identical twins
        opts, mode = rand_serving(rng, n)
        sets.append({"config": config, "kind": "random", "convs": convs, "opts": opts, "mode": mode})
    for _ in range(n_adv):
        base = rand_conv(rng)
        if config != "general" and rng.random() < 0.5:
            base = [[u(rng.choice(["no bad", "x:Rq", "bad"]))]] + base[:2]   # a blocked first turn
        if rng.random() < 0.5:
            base = base + [[u("more")]]
            base = base[:3]
        base = ctx(base, 0)
        advs = adversaries(config, base, rng)
        rng.shuffle(advs)
        for kind, conv in advs[:3]:
            extra = [ctx(rand_conv(rng, 2), 2)] if rng.random() < 0.3 else []
            # the adversary may also continue for a turn
            conv = conv + ([[u("then")]] if rng.random() < 0.4 else [])
            if config == "ctxrail" and rng.random() < 0.5:
                conv = ctx(conv, 1)
            opts, mode = rand_serving(rng, 2 + len(extra), first_plain=True)
            sets.append({"config": config, "kind": kind, "convs": [base, conv] + extra, "opts": opts, "mode": mode})
    _WORDS_NOW[0] = None
    return sets


def honest_conv(conv):
    return all(len(t) > 0 and all(m["role"] not in ("assistant", "exception") for m in t) for t in conv)


def probes_for(iso_recs):
    """Probe requests: for every served list L = request+reply of every conversation: L+[q] (exact),
    request+[q] (never stored), the key of L as one user message +[q], L with every contributing
    role sent as user +[q]."""
    out = []
    q = u("zz")
    for recs in iso_recs:
        for r in recs:
            stored = r["req"] + [r["reply"]]
            if any(m["role"] == "error" for m in stored):
                continue
            out.append(stored + [q])
            out.append(r["req"] + [q])                     # the request without its reply was never stored
            out.append([u(key_of(stored)), q])
            items = [m for m in stored if m["role"] in ("user", "assistant", "context", "event")]
            out.append([u(smsg(m)[1]) for m in items] + [q])
    return out[:12]


# ---- one set: isolated replays, all interleavings, oracle, Coq case terms ----


def lists_equal(a, b):
    return json.dumps(a, sort_keys=True, default=str) == json.dumps(b, sort_keys=True, default=str)


def prep_set(args):
    """Isolated replays of every conversation of the set, probe requests, schedules."""
    s, cap, seed = args
    rng = random.Random(seed)
    opts = s.get("opts") or [None] * len(s["convs"])
    iso = [isolated(s["config"], c, o, s.get("mode", "tasks")) for c, o in zip(s["convs"], opts)]
    scheds, total = interleavings([len(c) for c in s["convs"]], cap, rng)
    if s.get("sched"):
        scheds = [tuple(s["sched"])] + ([] if s.get("only_sched") else [x for x in scheds if list(x) != list(s["sched"])])
    return {"iso": iso, "probes": probes_for(iso), "scheds": scheds, "total": total}


def work_set(args):
    s, prep, scheds = args
    config, convs = s["config"], s["convs"]
    iso, probes = prep["iso"], prep["probes"]
    served_iso = [(ci, json.dumps([smsg(m) for m in r["req"] + [r["reply"]]])) for ci, recs in enumerate(iso) for r in recs]
    fresh_app = mk_app(config)[0]
    res = {"terms": [], "meta": [], "findings": [], "n_sched": len(scheds),
           "turns": 0, "honest": all(honest_conv(c) for c in convs), "kind": s["kind"], "probe_n": 0,
           "skipped_same_history": 0, "hits_cross": 0}
    configured = {"attrs": {"temperature": 0.5, "max_tokens": 100}, "kwargs": None}
    opts = s.get("opts") or [None] * len(convs)
    mode = s.get("mode", "tasks")
    own = [norm_options(o) for o in opts]
    res["ctx_terms"] = []
    res["ctx_meta"] = []
    res["state_changed"], res["state_fresh_ids"], res["state_bad"] = {}, {}, []
    markers = [set(_re_mod.findall(r"mk\d+z[0-9a-f]{4}", json.dumps(c))) for c in convs]
    gtable = {}
    for ci, recs0 in enumerate(iso):
        for r in recs0:
            if not r["err"]:
                gtable.setdefault(json.dumps([r["events"], own[ci]]),
                                  (json.dumps([r["new"], canon_reply(r["reply"])]), "conversation %d turn %d alone on a fresh instance" % (ci, r["k"])))
    for sched in scheds:
        recs, precs, final = run_schedule(config, convs, list(sched), probes, opts=opts, mode=mode)
        bad_state, changed, fresh_only = final["_state"]
        for p in changed:
            res["state_changed"][p] = res["state_changed"].get(p, 0) + 1
        for p in fresh_only:
            res["state_fresh_ids"][p] = res["state_fresh_ids"].get(p, 0) + 1
        for p, a, b in bad_state[:3]:
            res["state_bad"].append({"path": p, "before": a, "after": b, "config": config, "convs": convs, "opts": opts, "mode": mode, "sched": list(sched)})
        # generation must be a function of the event list (the abstraction G of Svc.HistCache):
        # the same events, on whatever instance / after whatever other conversations, give the same new events
        for r in recs:
            if r["err"]:
                continue
            gk = json.dumps([r["events"], own[r["c"]]])
            gv = json.dumps([r["new"], canon_reply(r["reply"])])
            if gk in gtable and gtable[gk][0] != gv:
                res["findings"].append((SIG_G, "the same event list was answered differently: generation depends on instance state other than the events "
                                        "(conversation %d turn %d, schedule %s, vs %s)" % (r["c"], r["k"], list(sched), gtable[gk][1]),
                                        {"kind": "cache", "config": config, "convs": convs, "opts": opts, "mode": mode, "sched": list(sched),
                                         "conversation": r["c"], "turn": r["k"], "events": r["events"],
                                         "this_run": json.loads(gv), "other_run": json.loads(gtable[gk][0]), "other": gtable[gk][1]}))
            gtable.setdefault(gk, (gv, "conversation %d turn %d in schedule %s" % (r["c"], r["k"], list(sched))))
        # the request context as a trace of Svc.Ctx: contexts, own options, options seen at the LLM calls
        codes = {}

        def code(o):
            return "None" if o is None else "(Some %d)" % codes.setdefault(json.dumps(o, sort_keys=True), len(codes))

        clog = ["LFork 0 1"] if mode == "coroutine" else []
        for i, r in enumerate(recs):
            k = 1 if mode == "coroutine" else i + 1
            if mode != "coroutine":
                clog.append("LFork 0 %d" % k)
            for cx in r["call_ctx"]:
                clog.append("LReq %d %s %s" % (k, code(own[r["c"]]), code(cx["options"])))
        res["ctx_terms"].append(C.coq_list(["(" + x + ")" for x in clog]))
        res["ctx_meta"].append({"set": s, "sched": list(sched)})
        _INTERN.clear()
        _SHORT[0] = True
        try:
            ops = ["Serve {} {} {} {}".format(coq_msgs(r["req"]), coq_toks(r["events"]), coq_smsg(r["reply"]), coq_toks(r["new"]))
                   for r in recs]
            ops += ["Probe {} {}".format(coq_msgs(p["req"]), coq_toks(p["events"])) for p in precs]
        except ValueError:      # a reply the model has no role for (generate raised): reported below
            ops = None
        _SHORT[0] = False
        if ops is not None and not any(r["err"] for r in recs):
            res["terms"].append(C.coq_list(["(" + o + ")" for o in ops]))
            res["meta"].append({"set": s, "sched": list(sched)})
        res["turns"] += len(recs)
        res["probe_n"] += len(precs)
        # ---- direct oracle: shared vs alone ----
        for r in recs:
            ir = iso[r["c"]][r["k"]]
            payload = {"kind": "cache", "config": config, "convs": convs, "opts": opts, "mode": mode, "sched": list(sched),
                       "conversation": r["c"], "turn": r["k"]}
            if r["err"]:
                res["findings"].append(("generate-raises", "generate raised " + r["err"], payload))
                continue
            # a client-supplied history that IS a history served to another conversation is the same
            # conversation as far as a stateless API can tell: not compared
            first = convs[r["c"]][0]
            fabricated = False
            for p in range(1, len(first)):
                if first[p - 1]["role"] in ("assistant", "exception"):
                    pre = json.dumps([smsg(m) for m in first[:p]])
                    if any(pre == x and ci != r["c"] for ci, x in served_iso):
                        fabricated = True
            if fabricated:
                res["skipped_same_history"] += 1
                continue
            foreign = set().union(*[mks for ci, mks in enumerate(markers) if ci != r["c"]]) - markers[r["c"]] if len(markers) > 1 else set()
            for prm in r["prompts"]:
                leak = sorted(m for m in foreign if m in prm)
                if leak:
                    res["findings"].append((SIG_PROMPT, "a prompt sent to the LLM for conversation %d turn %d contains %s, which only occurs in another conversation's messages"
                                            % (r["c"], r["k"], leak), dict(payload, prompt=prm, markers=leak)))
                    break
            diffs = []
            if canon_reply(r["reply"]) != canon_reply(ir["reply"]):
                diffs.append("reply")
            if r["prompts"] != ir["prompts"]:
                diffs.append("llm-prompts")
            if r["call_params"] != ir["call_params"]:
                diffs.append("llm-parameters-at-call")
            if honest_conv(convs[r["c"]]) and r["events"] != ir["events"]:
                diffs.append("events")
            if r["call_ctx"] != ir["call_ctx"]:
                diffs.append("request-context-at-call")
            if diffs:
                only_ctx = set(diffs) <= {"llm-parameters-at-call", "request-context-at-call"}
                res["findings"].append((SIG_CTX if only_ctx else SIG_CACHE,
                                        "conversation %d turn %d on the shared instance (%s) differs from the fresh-instance replay in: %s"
                                        % (r["c"], r["k"], "one coroutine serves all requests" if mode == "coroutine" else "one task per request", ",".join(diffs)),
                                        dict(payload, shared={"reply": canon_reply(r["reply"]), "prompts": r["prompts"], "events": r["events"],
                                                              "call_params": r["call_params"], "options_seen": [c["options"] for c in r["call_ctx"]]},
                                             alone={"reply": canon_reply(ir["reply"]), "prompts": ir["prompts"], "events": ir["events"],
                                                    "call_params": ir["call_params"], "options_seen": [c["options"] for c in ir["call_ctx"]]})))
            if r["after_params"] != configured:
                res["findings"].append((SIG_PARAMS_SERIAL, "LLM parameters after a sequential request are %s, configured %s" % (r["after_params"], configured),
                                        dict(payload, after=r["after_params"])))
            lp = (opts[r["c"]] or {}).get("llm_params") or {}
            for cp, prm, cx in zip(r["call_params"], r["prompts"], r["call_ctx"]):
                if config == "dialog":
                    break           # dialog tasks set their own temperatures: compared with the isolated replay only
                if prm.startswith("Check:"):
                    want = {"temperature": 0.001, "max_tokens": 3}
                else:
                    want = dict(configured["attrs"], **{k: v for k, v in lp.items() if k in configured["attrs"]})
                if cp["attrs"] != want:
                    res["findings"].append((SIG_CTX if cx["options"] != own[r["c"]] else SIG_PARAMS_SERIAL,
                                            "sequential LLM call ran with %s, its own parameters are %s" % (cp["attrs"], want), dict(payload, call=cp)))
            for cx in r["call_ctx"]:
                if cx["options"] != own[r["c"]]:
                    res["findings"].append((SIG_CTX, "the LLM call of a request made with options %s saw the generation options %s" % (opts[r["c"]], cx["options"]),
                                            dict(payload, options_seen=cx["options"])))
        # probes: a lookup whose prefixes were never served must be the plain conversion
        served_now = set()
        for r in recs:
            served_now.add(json.dumps([smsg(m) for m in r["req"] + [r["reply"]]]))
        for p in precs:
            pre = [json.dumps([smsg(m) for m in p["req"][:i]]) for i in range(1, len(p["req"]))]
            if any(x in served_now for x in pre):
                res["hits_cross"] += 1
                continue
            plain = [token(e) for e in fresh_app._get_events_for_messages(json.loads(json.dumps(p["req"])), None)]
            if p["events"] != plain:
                res["findings"].append((SIG_KEY, "a request none of whose prefixes was ever served got cached events of another message list",
                                        {"kind": "cache", "config": config, "convs": convs, "sched": list(sched), "probe": p["req"],
                                         "shared": p["events"], "fresh": plain}))
    return res


# ---------------------------------------------------------------------------------------
# key differential


def gen_key_cases(rng, n):
    out = []
    for _ in range(n):
        ms = []
        for _ in range(rng.randint(0, 5)):
            r = rng.random()
            if r < 0.4:
                ms.append(u(rand_text(rng)))
            elif r < 0.65:
                ms.append({"role": "assistant", "content": rand_text(rng)})
            elif r < 0.78:
                ms.append({"role": "context", "content": rng.choice([{"k": 1}, {"user_name": "J:o"}, {}, {"a": [1, "x:y"]}])})
            elif r < 0.88:
                ms.append({"role": "event", "event": {"type": rng.choice(["Ping", "A:B"]), "n": rng.randint(0, 3)}})
            else:
                ms.append({"role": rng.choice(["exception", "system", "tool"]), "content": rand_text(rng)})
        out.append(ms)
    return out


# ---------------------------------------------------------------------------------------
# LLMParams: pure differential


def coq_pval(v):
    if v is None:
        return "PNone"
    return f"(PVal {C.coq_Z(int(round(v * 1000)))})"


def coq_pmap(d):
    return C.coq_list([f"({PARAM_NAMES[k]}%nat, {coq_pval(v)})" for k, v in d.items()])


def coq_llm(snap):
    kw = "None" if snap["kwargs"] is None else f"(Some {coq_pmap(snap['kwargs'])})"
    return f"(Llm {coq_pmap(snap['attrs'])} {kw})"


class _Obj:
    pass


def gen_params_spec(rng):
    """A small LLM-like object, a few managers, an arbitrary interleaving of their enter/call/exit."""
    names = ["temperature", "max_tokens", "top_p", "n", "seed"]
    vals = [None, 0.0, 0.2, 0.5, 0.9, 1.0, 3.0, 100.0]
    attrs = {a: rng.choice(vals) for a in rng.sample(names, rng.randint(0, 3))}
    kwargs = None
    if rng.random() < 0.6:
        kwargs = {k: rng.choice(vals) for k in rng.sample([n for n in names if n not in attrs], rng.randint(0, 2))}
    nm = rng.randint(1, 3)
    mans = [{k: rng.choice(vals) for k in rng.sample(names, rng.randint(0, 3))} for _ in range(nm)]
    ops = []
    if rng.random() < 0.4:
        for i in range(nm):
            ops += [[i, "enter"], [i, "call"], [i, "exit"]]
    else:
        pend = {i: ["enter", "call", "exit"] for i in range(nm)}
        while pend:
            i = rng.choice(list(pend))
            ops.append([i, pend[i].pop(0)])
            if not pend[i]:
                del pend[i]
    return {"attrs": attrs, "kwargs": kwargs, "mans": mans, "ops": ops}


def run_params_spec(spec):
    ns = impl()
    o = _Obj()
    attrs = list(spec["attrs"])
    for a, v in spec["attrs"].items():
        setattr(o, a, v)
    has_kw = spec["kwargs"] is not None
    if has_kw:
        o.model_kwargs = dict(spec["kwargs"])

    def snap():
        return {"attrs": {a: getattr(o, a) for a in attrs}, "kwargs": dict(o.model_kwargs) if has_kw else None}

    l0 = snap()
    mans = [ns["P"].LLMParams(o, **m) for m in spec["mans"]]
    log = []
    open_now = set()
    overlapped = False
    anomalies, call_anomalies = [], []
    before = {}
    for i, op in spec["ops"]:
        if op == "enter":
            if open_now:
                overlapped = True
            before[i] = snap() if not open_now else None
            open_now.add(i)
            type(mans[i]).__enter__(mans[i])
            log.append((i, "OEnter " + coq_pmap(mans[i].altered_params), snap()))
        elif op == "call":
            s = snap()
            log.append((i, "OCall", s))
            if before.get(i) is not None and open_now == {i}:
                # no other manager open since this one was entered: the call must see the object as
                # it was before, with exactly its own parameters applied
                want = json.loads(json.dumps(before[i]))
                for k, v in spec["mans"][i].items():
                    if k in want["attrs"]:
                        want["attrs"][k] = v
                    elif want["kwargs"] is not None:
                        want["kwargs"][k] = v
                if s != want:
                    call_anomalies.append({"call": s, "own": want})
        else:
            type(mans[i]).__exit__(mans[i], None, None, None)
            open_now.discard(i)
            s = snap()
            log.append((i, "OExit", s))
            if open_now:
                before = {k: None for k in before}
            if not open_now and s != l0:
                anomalies.append(s)
    return {"l0": l0, "log": log, "overlapped": overlapped, "anomalies": anomalies,
            "call_anomalies": call_anomalies, "spec": spec}


def only_none_residue(l0, s):
    """s differs from l0 only by model_kwargs entries that were absent and are now None."""
    if s["attrs"] != l0["attrs"] or (s["kwargs"] is None) != (l0["kwargs"] is None):
        return False
    if s["kwargs"] is None:
        return True
    for k, v in s["kwargs"].items():
        if k in l0["kwargs"]:
            if l0["kwargs"][k] != v:
                return False
        elif v is not None:
            return False
    return all(k in s["kwargs"] for k in l0["kwargs"])


# ---------------------------------------------------------------------------------------
# concurrency: asyncio.gather of generate_async on one instance


def run_concurrent(config, kw, workers, lats, starts):
    """workers: list of worker loops; a worker = list of (messages, llm_params or None) served one after
    the other by ONE task; the workers run concurrently (asyncio.gather).
    lats[((w, j), k)] = latency of the k-th LLM call of request j of worker w."""
    ns = impl()
    asyncio = ns["asyncio"]
    app, llm, h = mk_app(config, kw=kw)
    h.lat = dict(lats)
    configured = ns["snapshot"](llm)
    replies = {}
    idle = []

    async def one(w):
        if starts[w]:
            await asyncio.sleep(starts[w])
        for j, (msgs, lp) in enumerate(workers[w]):
            ns["TAG"].set((w, j))
            opts = {"llm_params": lp} if lp is not None else None
            try:
                r = await app.generate_async(messages=json.loads(json.dumps(msgs)), options=opts)
                replies[(w, j)] = canon_reply(r) if isinstance(r, dict) else [canon_reply(m) for m in r.response]
            except Exception as e:
                replies[(w, j)] = ["error", repr(e)[:200]]

    async def main():
        return await asyncio.gather(*[one(w) for w in range(len(workers))])

    asyncio.run(main())
    return {"steps": list(h.steps), "calls": list(h.calls), "replies": replies,
            "configured": configured, "final": ns["snapshot"](llm)}


def work_conc(args):
    config, kw, workers, lats, starts = args
    shared = run_concurrent(config, kw, workers, lats, starts)
    alone = {(w, j): run_concurrent(config, kw, [[req]], {}, [0]) for w, wk in enumerate(workers) for j, req in enumerate(wk)}
    res = {"findings": [], "term": None, "overlap": False, "anomaly": False, "ctx_term": None,
           "multi": any(len(wk) > 1 for wk in workers)}
    cfgd = shared["configured"]
    # trace for Svc.Params: the task of the model is the worker
    log = []
    for tag, kind, data, snap in shared["steps"]:
        op = {"enter": "OEnter " + coq_pmap({k: v for k, v in (data or {}).items()}) if kind == "enter" else None, "call": "OCall", "exit": "OExit"}[kind]
        log.append(f"({tag[0]}%nat, {op}, {coq_llm(snap)})")
    res["term"] = f"({coq_llm(cfgd)}, {C.coq_list(log)})"
    # trace for Svc.Ctx: one context per worker, forked from the root before anything runs
    codes = {}

    def code(o):
        return "None" if o is None else "(Some %d)" % codes.setdefault(json.dumps(o, sort_keys=True), len(codes))

    clog = ["LFork 0 %d" % (w + 1) for w in range(len(workers))]
    for c in shared["calls"]:
        w, j = c["tag"]
        lp = workers[w][j][1]
        clog.append("LReq %d %s %s" % (w + 1, code(norm_options({"llm_params": lp}) if lp is not None else None), code(c["ctx"]["options"])))
    res["ctx_term"] = C.coq_list(["(" + x + ")" for x in clog])
    # overlap: another worker's step inside a window
    open_by = {}
    for tag, kind, data, snap in shared["steps"]:
        t = tag[0]
        if kind == "enter":
            if any(x != t for x in open_by):
                res["overlap"] = True
            open_by[t] = open_by.get(t, 0) + 1
        elif kind == "exit":
            open_by[t] -= 1
            if not open_by[t]:
                del open_by[t]
        elif any(x != t for x in open_by):
            res["overlap"] = True
    payload = {"kind": "concurrent", "config": config, "model_kwargs": kw, "workers": workers,
               "latencies": [[[list(k[0]), k[1]], v] for k, v in lats.items()], "starts": starts}
    bad = []
    for (w, j), al in alone.items():
        sc = [c for c in shared["calls"] if c["tag"] == (w, j)]
        ac = al["calls"]
        who = "worker %d request %d" % (w, j)
        if [c["prompt"] for c in sc] != [c["prompt"] for c in ac]:
            res["findings"].append((SIG_CACHE, who + ": LLM prompts under concurrency differ from the run alone", dict(payload, task=[w, j])))
        if shared["replies"].get((w, j)) != al["replies"].get((0, 0)):
            res["findings"].append((SIG_CACHE, who + ": reply under concurrency differs from the run alone",
                                    dict(payload, task=[w, j], shared=shared["replies"].get((w, j)), alone=al["replies"].get((0, 0)))))
        lp = workers[w][j][1]
        want = norm_options({"llm_params": lp}) if lp is not None else None
        for a, b in zip(sc, ac):
            # the per-request context at call time must be the request's own, whatever the interleaving
            if a["ctx"] != b["ctx"] or a["ctx"]["options"] != want:
                res["findings"].append((SIG_CTX, who + " (options %s): its LLM call saw generation options %s / raw request %s"
                                        % (lp, a["ctx"]["options"], a["ctx"]["raw"]), dict(payload, task=[w, j], seen=a["ctx"], alone=b["ctx"])))
            elif a["params"] != b["params"]:
                bad.append(who + " ran an LLM call with %s; alone it runs with %s" % (a["params"], b["params"]))
    if shared["final"] != cfgd:
        bad.append("after all tasks finished the LLM parameters are %s, configured %s" % (shared["final"], cfgd))
    if bad:
        res["anomaly"] = True
        if res["overlap"]:
            res["findings"].append((SIG_RACE, bad[0], dict(payload, observed=bad, steps=[[list(t), k, d, s] for t, k, d, s in shared["steps"]])))
        elif only_none_residue(cfgd, shared["final"]) and all("after all tasks" in b for b in bad):
            res["findings"].append((SIG_KWNONE, bad[0], dict(payload, observed=bad)))
        else:
            res["findings"].append((SIG_PARAMS_SERIAL, bad[0], dict(payload, observed=bad)))
    return res


def gen_conc(rng, n):
    out = []
    for _ in range(n):
        config = rng.choice(["general", "general", "selfcheck"])
        kw = rng.random() < 0.3
        nw = rng.choice([1, 2, 2, 3])
        workers = []
        for w in range(nw):
            wk = []
            for j in range(rng.choice([1, 1, 2, 3]) if nw > 1 else rng.choice([2, 3])):
                lp = rng.choice([None, None, {"temperature": rng.choice([0.2, 0.9])}, {"temperature": 0.9, "max_tokens": 7}])
                if kw and rng.random() < 0.5:
                    lp = dict(lp or {}, top_p=rng.choice([0.1, 0.7]))
                wk.append(([u(rng.choice(["x", "y", "hello", "a:b"]) + "%d%d" % (w, j))], lp))
            workers.append(wk)
        serial = rng.random() < 0.3
        lats = {((w, j), k): (0 if serial else rng.choice([0, 0.004, 0.008, 0.016]))
                for w, wk in enumerate(workers) for j in range(len(wk)) for k in range(3)}
        starts = [w * 0.35 if serial else rng.choice([0, 0, 0.004, 0.008]) for w in range(nw)]
        out.append((config, kw, workers, lats, starts))
    return out


def conc_job_of(r):
    """A stored concurrent case (current `workers` format, or the older one-request-per-task format)."""
    if "workers" in r:
        workers = [[(m, lp) for m, lp in wk] for wk in r["workers"]]
        lats = {((k[0][0], k[0][1]), k[1]): v for k, v in r["latencies"]}
    else:
        workers = [[(m, lp)] for m, lp in r["requests"]]
        lats = {((k[0], 0), k[1]): v for k, v in r["latencies"]}
    return (r["config"], r["model_kwargs"], workers, lats, r["starts"])


# ---------------------------------------------------------------------------------------


def _pool_map(fn, jobs):
    if not jobs:
        return []
    import multiprocessing as mp
    impl()  # import before forking
    n = min(C.NPROC, len(jobs))
    if n <= 1:
        return [fn(j) for j in jobs]
    with mp.get_context("fork").Pool(n) as pool:
        return pool.map(fn, jobs, chunksize=1)


def load_corpus():
    d = os.path.join(C.VERIF, "corpus", PID)
    out = []
    if os.path.isdir(d):
        for fn in sorted(os.listdir(d)):
            if fn.endswith(".json"):
                x = json.load(open(os.path.join(d, fn)))
                out.append(x.get("replay", x))
    return out


def _t(out, label):
    import time
    now = time.time()
    out.notes.append("t+%.1fs %s" % (now - out.t0, label))
    if os.environ.get("C15_TIMING"):
        sys.stderr.write("[c15] t+%.1fs %s\n" % (now - out.t0, label))


def run(tier, seed, replay=None):
    out = C.Outcome(PID, tier, seed)
    rng = random.Random(seed * 1000003 + 15)
    b = C.build_and_audit(PID, GEN)
    C.proof_coverage(out, b, "make theories/Props/C15.vo && coqc Props/C15.v (Print Assumptions)")
    for br in b["broken"]:
        out.add_broken(br, b["log"])
    with C.BuildLock():
        okm, logm = C.coq_make(["theories/Svc/HistRun.vo", "theories/Svc/Params.vo", "theories/Svc/CtxRun.vo"])
    if not okm:
        out.add_broken("coq:theories/Svc/HistRun.v|Params.v", logm)
    thorough = tier == "thorough"
    impl()

    sc = float(os.environ.get("C15_SCALE", "1"))        # development knob (mutation experiments); 1 in normal use
    n_key = 0 if replay else int((3000 if thorough else 600) * sc)
    n_rand = 0 if replay else max(1, int((10 if thorough else 3) * sc))
    n_adv = 0 if replay else max(1, int((8 if thorough else 2) * sc))
    cap = 200 if thorough else max(8, int(30 * sc))
    n_par = 0 if replay else int((6000 if thorough else 1200) * sc)
    n_conc = 0 if replay else int((400 if thorough else 64) * sc)
    if sc != 1:
        out.notes.append(f"C15_SCALE={sc}")

    sets, conc_jobs = [], []
    replays_and_corpus = load_corpus()
    if replay:
        d = json.load(open(replay))
        replays_and_corpus = [d.get("replay", d)]          # a replay run looks at that case only
    replays_and_corpus = [r for r in replays_and_corpus if r]
    for r in replays_and_corpus:
        if r.get("kind") == "cache":
            sets.append({"config": r["config"], "kind": "corpus", "convs": r["convs"], "sched": r.get("sched"),
                         "opts": r.get("opts"), "mode": r.get("mode", "tasks"),
                         "only_sched": bool(replay) and bool(r.get("sched"))})
        elif r.get("kind") == "concurrent":
            conc_jobs.append(conc_job_of(r))
    n_corpus = len(sets) + len(conc_jobs)

    _t(out, 'build+audit done')
    # ---- (1) key differential
    key_cases = gen_key_cases(rng, n_key)
    key_terms, key_kept = [], []
    for ms in key_cases:
        try:
            k = key_of(ms)
            key_terms.append(f"({coq_msgs(ms)}, {C.coq_string(k)})")
            key_kept.append((ms, k))
        except Exception as e:
            out.findings.append(C.Finding("history-key-raises", f"get_history_cache_key raised {e!r}", {"kind": "key", "messages": ms}))
    if okm and key_terms:
        bools, err = C.run_cases(PID + "_key", HIST_PRE, key_terms, "check_key")
        if err:
            out.add_broken("correspondence:C15-key(coqc)", err)
        else:
            bad = [c for ok, c in zip(bools, key_kept) if not ok]
            if bad:
                ms, k = min(bad, key=lambda c: len(json.dumps(c[0])))
                model = C.eval_term(PID + "_key", HIST_PRE, f"string_of_list_ascii (key_now (map mk {coq_msgs(ms)}))")
                out.add_broken("correspondence:C15-key", f"{len(bad)} disagreements; smallest: messages={ms} impl={k!r} model={model}")

    _t(out, 'key differential done')
    # ---- (2) conversations on shared vs fresh instances
    for cfg in ("general", "selfcheck", "exc", "dialog", "ctxrail"):
        sets += gen_sets(cfg, rng, n_rand, n_adv)
        if thorough and not replay and cfg == "exc":
            # one full 3 conversations x 3 turns set (richest config): all 1680 interleavings
            base = [[u("a")], [u("x:y")], [u("q")]]
            r0 = isolated(cfg, base)[0]
            k0 = key_of(r0["req"] + [r0["reply"]])
            sets.append({"config": cfg, "kind": "exhaustive-3x3", "exhaustive": True,
                         "convs": [base, [[u(k0), u("q")], [u("then")], [u("more")]], json.loads(json.dumps(base))]})
    for cfg in CONFIGS:
        mk_app(cfg)                      # parse the configs before forking
    preps = _pool_map(prep_set, [(s, 1680 if s.get("exhaustive") else cap, rng.randrange(1 << 30)) for s in sets])
    _t(out, 'isolated replays done')
    jobs, owner = [], []
    for si, (s, pr) in enumerate(zip(sets, preps)):
        for i in range(0, len(pr["scheds"]), 6):
            jobs.append((s, pr, pr["scheds"][i:i + 6]))
            owner.append(si)
    _t(out, 'sets generated')
    chunks = _pool_map(work_set, jobs)
    _t(out, 'sets run on the implementation')
    results = []
    for si, s in enumerate(sets):
        mine = [c for c, o in zip(chunks, owner) if o == si]
        r = {"terms": [], "meta": [], "findings": [], "ctx_terms": [], "ctx_meta": [], "state_bad": [], "state_changed": {}, "state_fresh_ids": {}, "n_sched": 0, "turns": 0, "probe_n": 0, "skipped_same_history": 0,
             "hits_cross": 0, "honest": all(honest_conv(c) for c in s["convs"]), "kind": s["kind"]}
        for c in mine:
            for k in ("terms", "meta", "findings", "ctx_terms", "ctx_meta", "state_bad"):
                r[k] += c[k]
            for k in ("state_changed", "state_fresh_ids"):
                for pth, n in c[k].items():
                    r[k][pth] = r[k].get(pth, 0) + n
            for k in ("n_sched", "turns", "probe_n", "skipped_same_history", "hits_cross"):
                r[k] += c[k]
        results.append(r)
    terms, metas = [], []
    ctx_terms, ctx_metas = [], []
    state_changed, state_fresh, state_bad = {}, {}, []
    kinds = {}
    serving = {"one-task-per-request": 0, "one-coroutine": 0, "sets_mixing_options_and_none": 0}
    n_turns = n_probe = n_sched = n_honest = skipped = 0
    for s, r in zip(sets, results):
        terms += r["terms"]
        metas += r["meta"]
        ctx_terms += r["ctx_terms"]
        ctx_metas += r["ctx_meta"]
        state_bad += r["state_bad"]
        for pth, n in r["state_changed"].items():
            state_changed[pth] = state_changed.get(pth, 0) + n
        for pth, n in r["state_fresh_ids"].items():
            state_fresh[pth] = state_fresh.get(pth, 0) + n
        serving["one-coroutine" if s.get("mode") == "coroutine" else "one-task-per-request"] += r["n_sched"]
        so = s.get("opts") or []
        if any(o is None for o in so) and any(o is not None for o in so):
            serving["sets_mixing_options_and_none"] += 1
        kinds[r["kind"]] = kinds.get(r["kind"], 0) + 1
        n_turns += r["turns"]
        n_probe += r["probe_n"]
        n_sched += r["n_sched"]
        n_honest += 1 if r["honest"] else 0
        skipped += r["skipped_same_history"]
        for sig, what, payload in r["findings"][:40]:
            out.findings.append(C.Finding(sig, what, payload))
    if state_bad:
        b0 = min(state_bad, key=lambda x: len(json.dumps(x)))
        out.add_broken("assumption:generation-is-a-function-of-the-events",
                       "%d runs changed instance attributes outside the modelled / allow-listed state (Svc.HistCache abstracts generation to a function G of "
                       "the event list, so nothing else on the LLMRails/runtime objects may carry information from one request to the next): "
                       "paths=%s; smallest: %s" % (len(state_bad), sorted({x["path"] for x in state_bad}), json.dumps(b0)[:1500]))
    distinct = len({C.canon_hash(t) for t in terms})
    if okm and terms:
        bools, err = C.run_cases(PID + "_trace", HIST_PRE, terms, "check_trace", shard=12)
        if err:
            out.add_broken("correspondence:C15-cache(coqc)", err)
        else:
            bad = [(t, m) for ok, t, m in zip(bools, terms, metas) if not ok]
            if bad:
                t, m = min(bad, key=lambda c: len(c[0]))
                model = C.eval_term(PID + "_trace", HIST_PRE, f"model_answer {t}")
                out.add_broken("correspondence:C15-cache",
                               f"{len(bad)} traces of the real LLMRails are not traces of Svc.HistCache (lookup as translated from the source); smallest: set={json.dumps(m['set'])[:1500]} sched={m['sched']} first disagreeing operation / model events: {model[-1500:]}")

    if okm and ctx_terms:
        bools, err = C.run_cases(PID + "_ctx", CTX_PRE, ctx_terms, "check_ctx", shard=400)
        if err:
            out.add_broken("correspondence:C15-request-context(coqc)", err)
        else:
            bad = [(t, m) for ok, t, m in zip(bools, ctx_terms, ctx_metas) if not ok]
            if bad:
                t, m = min(bad, key=lambda c: len(c[0]))
                out.add_broken("correspondence:C15-request-context",
                               f"{len(bad)} runs: the generation options seen at the LLM calls are not the ones Svc.Ctx predicts (entry code as translated from the source); smallest: convs={json.dumps(m['set']['convs'])[:600]} opts={m['set'].get('opts')} mode={m['set'].get('mode')} sched={m['sched']} trace={t[:600]}")
    _t(out, 'cache traces checked in Coq')
    # ---- (3) LLMParams pure differential
    par_terms, par_kept = [], []
    par_stats = {"serial": 0, "overlapped": 0, "anomalies": 0}
    par_specs = [r for r in replays_and_corpus if r.get("kind") == "params"]
    par_specs = [r["spec"] for r in par_specs] + [gen_params_spec(rng) for _ in range(n_par)]
    for spec in par_specs:
        c = run_params_spec(spec)
        par_stats["overlapped" if c["overlapped"] else "serial"] += 1
        log = C.coq_list([f"({i}%nat, {op}, {coq_llm(s)})" for i, op, s in c["log"]])
        par_terms.append(f"({coq_llm(c['l0'])}, {log})")
        par_kept.append(c)
        if c["anomalies"] or c["call_anomalies"]:
            par_stats["anomalies"] += 1
            payload = {"kind": "params", "spec": spec, "quiescent_states": c["anomalies"], "calls": c["call_anomalies"]}
            if c["overlapped"]:
                sig = SIG_RACE
            elif not c["call_anomalies"] and all(only_none_residue(c["l0"], s) for s in c["anomalies"]):
                sig = SIG_KWNONE
            else:
                sig = SIG_PARAMS_SERIAL
            what = ("with no manager open the object is %s, configured %s" % (c["anomalies"][0], c["l0"])) if c["anomalies"] else \
                   ("a call without any overlap saw %s" % c["call_anomalies"][0])
            out.findings.append(C.Finding(sig, what, payload))
    if okm and par_terms:
        bools, err = C.run_cases(PID + "_params", PAR_PRE, par_terms, "check_ptrace")
        if err:
            out.add_broken("correspondence:C15-params(coqc)", err)
        else:
            bad = [c for ok, c in zip(bools, par_kept) if not ok]
            if bad:
                c = min(bad, key=lambda c: len(json.dumps(c["log"], default=str)))
                out.add_broken("correspondence:C15-params",
                               f"{len(bad)} LLMParams traces are not traces of Svc.Params; smallest: spec={c['spec']} observed={[s for _, _, s in c['log']]}")

    _t(out, 'params differential done')
    # ---- (4) concurrency
    conc_jobs += gen_conc(rng, n_conc)
    cres = _pool_map(work_conc, conc_jobs)
    _t(out, 'concurrent runs done')
    conc_terms = [r["term"] for r in cres]
    conc_ctx_terms = [r["ctx_term"] for r in cres]
    conc_stats = {"runs": len(cres), "overlapping": sum(1 for r in cres if r["overlap"]), "with_anomaly": sum(1 for r in cres if r["anomaly"]),
                  "with_worker_loops": sum(1 for r in cres if r["multi"])}
    for r in cres:
        for sig, what, payload in r["findings"][:10]:
            out.findings.append(C.Finding(sig, what, payload))
    if okm and conc_terms:
        bools, err = C.run_cases(PID + "_conc", PAR_PRE, conc_terms, "check_ptrace", shard=100)
        if err:
            out.add_broken("correspondence:C15-concurrent(coqc)", err)
        else:
            bad = [(t, j) for ok, t, j in zip(bools, conc_terms, conc_jobs) if not ok]
            if bad:
                t, j = min(bad, key=lambda c: len(c[0]))
                out.add_broken("correspondence:C15-concurrent",
                               f"{len(bad)} logged enter/call/exit traces of concurrent generate_async are not traces of Svc.Params; smallest: workers={j[2]} latencies={sorted(j[3].items())} starts={j[4]} trace={t[:1500]}")
    if okm and conc_ctx_terms:
        bools, err = C.run_cases(PID + "_concctx", CTX_PRE, conc_ctx_terms, "check_ctx", shard=400)
        if err:
            out.add_broken("correspondence:C15-request-context-concurrent(coqc)", err)
        else:
            bad = [(t, j) for ok, t, j in zip(bools, conc_ctx_terms, conc_jobs) if not ok]
            if bad:
                t, j = min(bad, key=lambda c: len(c[0]))
                out.add_broken("correspondence:C15-request-context-concurrent",
                               f"{len(bad)} concurrent runs: generation options seen at the LLM calls are not the ones Svc.Ctx predicts; smallest: workers={j[2]} trace={t[:800]}")

    _t(out, 'concurrent traces checked in Coq')
    out.coverage.update({
        "evaluations": len(key_terms) + len(terms) + len(ctx_terms) + len(par_terms) + len(conc_terms),
        "distinct_nontrivial": distinct + sum(1 for c in par_kept if c["overlapped"]) + conc_stats["overlapping"],
        "rule": "cache: one case = one sequential interleaving of the turns of a conversation set served on ONE real LLMRails instance (request, events returned by _get_events_for_messages, reply, new events, then probe lookups), distinct by hash of the Coq term; every such case has >=2 conversations, so all are non-trivial; params: non-trivial = manager windows overlap; concurrent: non-trivial = the logged windows of different tasks overlap",
        "samples": [{"set_kind": m["set"]["kind"], "config": m["set"]["config"], "convs": m["set"]["convs"], "sched": m["sched"]} for m in metas[:2]]
                   + ([{"key_case": key_kept[0][0], "key": key_kept[0][1]}] if key_kept else []),
        "input_distribution": {"conversation_sets": len(sets), "set_kinds": kinds, "honest_sets": n_honest,
                               "interleavings_run": n_sched, "serving": serving,
                               "instance_attributes_changed_while_serving": state_changed,
                               "instance_attributes_that_only_gained_fresh_id_keys": state_fresh,
                               "instance_attributes_allowed_to_change": STATE_ALLOWED, "turns_served": n_turns, "probe_lookups": n_probe,
                               "turns_not_compared_same_history": skipped, "key_cases": len(key_terms),
                               "params_cases": par_stats, "concurrent": conc_stats, "corpus_cases": n_corpus},
        "traces_validated_against_impl": len(terms) + len(ctx_terms) + len(par_terms) + len(conc_terms),
    })
    out.assumptions += [
        "generation (runtime.generate_events, the LLM, actions) is an arbitrary deterministic function G of the event list (and the request's own options); uuids/timestamps abstracted; the fake LLM answers as a function of the prompt. Checked on every run by two oracles: equal event lists are answered equally across all shared and fresh runs of a set, and no attribute of the LLMRails / runtime / generation-actions objects outside the allow-list changes deterministically while serving (coverage.input_distribution.instance_attributes_*)",
        "json.dumps of context/event payloads is an oracle (message body = the dumped string); message identity = (role, content, event)",
        "isolation theorem: clients are honest (requests = own earlier requests and replies + new messages whose role is not assistant/exception); client-supplied histories are covered by the differential only",
        "asyncio: atomic steps Enter | Call | Exit per LLM call, arbitrary interleaving; real scheduling fairness, threads not modelled",
        "contextvars are task-local by construction (checked at LLM-call time by the harness, not modelled)",
    ]
    if thorough and b["ok"]:
        ok, log = C.coqchk(PID, b["files"])
        out.coverage["coqchk"] = "ok" if ok else "FAILED"
        if not ok:
            out.add_broken("coqchk", log)
    return C.finish(out)
