(* V2/Life_examples.v - the hypotheses of the C06 theorems are inhabited by non-trivial
   states (a 3-level hierarchy with a shared action, an activated flow with two activators),
   and the witness that WITHOUT the release at a scope end the property is false. *)
From Coq Require Import ZArith NArith List Bool Lia.
From NG Require Import V2.Life V2.Life_proofs V2.Life_scope V2.Life_fuel.
Import ListNotations.
Open Scope N_scope.

Definition ranked_b (rk : uid -> nat) (s : st) : bool :=
  forallb (fun xi : uid * inst => forallb (fun c => Nat.ltb (rk c) (rk (fst xi))) (i_children (snd xi)))
          (flows s).

Lemma ranked_b_sound : forall rk s, ranked_b rk s = true -> ranked rk s.
Proof.
  unfold ranked_b, ranked, getf; intros rk s. induction (flows s) as [|[k v] m IH]; simpl; intros H x i c E Hin.
  - discriminate.
  - apply andb_prop in H. destruct H as (H1 & H2).
    destruct (N.eqb x k) eqn:Ek.
    + apply N.eqb_eq in Ek; subst. inversion E; subst.
      rewrite forallb_forall in H1. specialize (H1 _ Hin). apply Nat.ltb_lt in H1. auto.
    + eapply IH; eauto.
Qed.

(* main(1) -> p(2) -> c(3); action 10 owned by p, action 11 SHARED by p and c (count 2),
   action 12 of c already finished *)
Definition ex_rk (x : uid) : nat := match x with 1 => 3%nat | 2 => 2%nat | 3 => 1%nat | _ => 0%nat end.

Example ex_ranked : ranked ex_rk ex_state.
Proof. apply ranked_b_sound. vm_compute. reflexivity. Qed.

Example ex_started_by : started_by ex_state 1 3.
Proof.
  eapply sb_trans with (c := 2) (ci := ex_i 1 FStarted (Some 1) [3] [10; 11] 0%Z).
  - eapply sb_child with (i := ex_i 0 FStarted None [2] [] 1%Z); [reflexivity|simpl; auto|].
    intros i E. vm_compute in E. inversion E; subst. reflexivity.
  - reflexivity.
  - reflexivity.
  - simpl; auto.
  - intros i E. vm_compute in E. inversion E; subst. reflexivity.
Qed.

(* hypotheses of abort_children_stop / abort_stop_once / abort_frame at ex_state, f = p *)
Example ex_hyps_abort_p :
  exists s', abort 3 ex_state 2 false = Ok s' /\ proceeds ex_state 2 false = true /\ lv ex_state 2 = true /\
             lst s' 3 = false /\ nstops 10 (out s') = 1%nat /\ nstops 11 (out s') = 1%nat /\ nstops 12 (out s') = 0%nat.
Proof. eexists. split; [apply ex_abort_p|]. vm_compute. repeat split. Qed.

(* the child alone ends: the shared action 11 gives up one share (2 -> 1) and gets NO Stop;
   then the parent ends: exactly one Stop for 11 *)
Example ex_shared_two_steps :
  exists s1 s2, abort 3 ex_state 3 false = Ok s1 /\ nstops 11 (out s1) = 0%nat /\
                geta s1 11 = Some (mkAct AStarting 1%Z) /\
                abort 3 s1 2 false = Ok s2 /\ nstops 11 (out s2) = 1%nat /\
                geta s2 11 = Some (mkAct AStopping 0%Z).
Proof. eexists. eexists. split; [apply ex_abort_c_only|]. vm_compute. repeat split. Qed.

Example ex_fuel_enough : abort 4 ex_state 1 false <> Err EFuel.
Proof. apply (abort_nofuel ex_rk); [apply ex_ranked|simpl; lia]. Qed.

(* an activated flow a(5) (flow id 3), activated by p1(2) and p2(3): reference count 2 *)
Definition act_state : st :=
  mkSt [ (1, ex_i 0 FStarted None [2; 3] [] 1%Z);
         (2, ex_i 1 FStarted (Some 1) [5] [] 0%Z);
         (3, ex_i 2 FStarted (Some 1) [5] [] 0%Z);
         (5, ex_i 3 FStarted (Some 2) [] [20] 2%Z) ]
       [ (20, mkAct AStarted 1%Z) ] [].
Definition act_rk (x : uid) : nat := match x with 1 => 3%nat | 2 => 2%nat | 3 => 2%nat | 5 => 1%nat | _ => 0%nat end.

Example act_ranked : ranked act_rk act_state.
Proof. apply ranked_b_sound. vm_compute. reflexivity. Qed.

(* the activated instance ends by itself: FlowFinished, then the restart (source = itself,
   marker = its count); its action is stopped *)
Example act_finish_restarts :
  exists s', finish 3 act_state 5 false = Ok s' /\
             out s' = [EStop 20; EFinished 5; ERestart 5 5 2%Z] /\
             lst s' 5 = false /\ (exists i, getf s' 5 = Some i /\ i_nis i = true /\ i_activated i = 2%Z).
Proof. eexists. split; [vm_compute; reflexivity|]. vm_compute. repeat split. eexists; repeat split. Qed.

(* the first activator ends: count 2 -> 1, the instance keeps running; the second activator ends:
   count 0, the instance is stopped, no restart *)
Example act_two_activators :
  exists s1 s2, abort 3 act_state 2 false = Ok s1 /\ lst s1 5 = true /\
                (exists i, getf s1 5 = Some i /\ i_activated i = 1%Z) /\ nstops 20 (out s1) = 0%nat /\
                abort 3 s1 3 false = Ok s2 /\ lst s2 5 = false /\
                (exists i, getf s2 5 = Some i /\ i_activated i = 0%Z) /\ nstops 20 (out s2) = 1%nat /\
                out s2 = [EFailed 2; EStop 20; EFailed 5; EFailed 3].
Proof.
  eexists. eexists. split; [vm_compute; reflexivity|].
  vm_compute. repeat split; try (eexists; split; reflexivity).
Qed.

(* The scenario of the defect repaired in _release_shared_action: f1(2) and f2(3) share action
   10 (count 2); f1 started it inside a `when` scope (7).  Scope end, then f1 finishes. *)
Definition scope_state : st :=
  mkSt [ (1, ex_i 0 FStarted None [2; 3] [] 1%Z);
         (2, mkInst 1 FStarted (Some 1) [] [10] [(7, ([], [10]))] 0%Z false);
         (3, ex_i 2 FStarted (Some 1) [] [10] 0%Z) ]
       [ (10, mkAct AStarting 2%Z) ] [].
Definition scope_ops : list lop := [LEndScope 2 7; LFinish 2 false].

(* with the release (current source): no Stop, f2 keeps its action *)
Example scope_with_release :
  exists s', lrun true 3 scope_ops scope_state = Ok s' /\ nstops 10 (out s') = 0%nat /\
             geta s' 10 = Some (mkAct AStarting 1%Z) /\ lst s' 3 = true /\ lst s' 2 = false.
Proof. eexists. split; [vm_compute; reflexivity|]. vm_compute. repeat split. Qed.

(* a Stop is sent for an action that a still-running flow holds and never released *)
Definition stop_while_shared (rel : bool) : Prop :=
  exists s ops s' a q qi,
    out s = [] /\ Forall allowed ops /\ lrun rel 3 ops s = Ok s' /\
    nstops a (out s') = 1%nat /\
    getf s' q = Some qi /\ listening (i_status qi) = true /\ In a (i_actions qi) /\
    (forall o, In o ops -> o <> LAbort q true /\ o <> LAbort q false /\ o <> LFinish q true /\
                           o <> LFinish q false /\ forall n, o <> LEndScope q n).

(* WITHOUT the release the property is false (regression documentation) *)
Theorem release_missing_witness : stop_while_shared false.
Proof.
  exists scope_state, scope_ops. eexists. exists 10, 3. eexists.
  split; [reflexivity|]. split; [repeat constructor|].
  split; [vm_compute; reflexivity|].
  split; [vm_compute; reflexivity|].
  split; [vm_compute; reflexivity|].
  split; [reflexivity|]. split; [simpl; auto|].
  intros o [<-|[<-|[]]]; repeat split; try discriminate; intros; discriminate.
Qed.

(* ------------------------------------------------------------------------------------ *)
(* A late ActionStarted after the Stop.  `LEvent KStarted a` is an ALLOWED operation of the trace
   theorem (only a second Start is excluded): process_event puts the action back to STARTED and
   leaves flow_scope_count at 0.  The guard `flow_scope_count == 0` then protects the action: every
   later release decrements 0 -> -1 -> ... and never sees 0 again. *)

Lemma stop_action_below_zero : forall s a c s',
  geta s a = Some c -> (a_count c <= 0)%Z -> stop_action s a = Ok s' ->
  out s' = out s /\
  exists c', geta s' a = Some c' /\ (a_count c' <= 0)%Z /\
             (active (a_status c) = true -> a_count c' = (a_count c - 1)%Z /\ a_status c' = a_status c).
Proof.
  unfold stop_action; intros s a c s' Hc Hle H. rewrite Hc in H.
  destruct (active (a_status c)) eqn:Ea.
  - destruct (a_count c - 1 =? 0)%Z eqn:Ez; [apply Z.eqb_eq in Ez; lia|].
    inversion H; subst. split; auto.
    exists (mkAct (a_status c) (a_count c - 1)%Z). rewrite (geta_seta_same _ _ _ _ Hc). simpl.
    repeat split; auto; lia.
  - inversion H; subst. split; auto. exists c. repeat split; auto. discriminate.
Qed.

(* f(2) started action 10 inside scope 7; the scope ends (Stop), the ActionStarted arrives late,
   then f finishes *)
Definition late_state : st :=
  mkSt [ (1, ex_i 0 FStarted None [2] [] 1%Z);
         (2, mkInst 1 FStarted (Some 1) [] [10] [(7, ([], [10]))] 0%Z false) ]
       [ (10, mkAct AStarting 1%Z) ] [].
Definition late_ops : list lop := [LEndScope 2 7; LEvent KStarted 10; LFinish 2 false].

Example late_started_one_stop :
  Forall allowed late_ops /\
  exists s', lrun true 3 late_ops late_state = Ok s' /\ out s' = [EStop 10; EFinished 2] /\
             geta s' 10 = Some (mkAct AStarted (-1)%Z).
Proof. split; [repeat constructor|]. eexists. split; [vm_compute; reflexivity|]. vm_compute. auto. Qed.

(* the variant of the guard with `flow_scope_count <= 0` *)
Definition stop_action_le (s : st) (a : uid) : res st :=
  match geta s a with
  | None => Err EKeyAction
  | Some c =>
    if active (a_status c) then
      let n := (a_count c - 1)%Z in
      if (n <=? 0)%Z then Ok (emit1 (seta s a (mkAct AStopping n)) (EStop a))
      else Ok (seta s a (mkAct (a_status c) n))
    else Ok s
  end.

(* the two guards agree as long as the count is positive ... *)
Lemma stop_action_le_agrees : forall s a c, geta s a = Some c -> (0 < a_count c)%Z ->
  stop_action_le s a = stop_action s a.
Proof.
  unfold stop_action_le, stop_action; intros s a c Hc Hp. rewrite Hc.
  destruct (active (a_status c)); auto.
  destruct (a_count c - 1 =? 0)%Z eqn:E1, (a_count c - 1 <=? 0)%Z eqn:E2; auto.
  - apply Z.eqb_eq in E1. apply Z.leb_gt in E2. lia.
  - apply Z.eqb_neq in E1. apply Z.leb_le in E2. lia.
Qed.

(* ... but with `<= 0` the release at the scope end, the late Started and the release at the end of
   the flow send TWO Stops for the same action: `== 0` is what makes the second one impossible *)
Definition stop_guard_le_two_stops : Prop :=
  exists s a s1 s3,
    stop_action_le s a = Ok s1 /\ nstops a (out s1) = 1%nat /\
    stop_action_le (action_event KStarted a s1) a = Ok s3 /\ nstops a (out s3) = 2%nat.

Theorem stop_guard_le_witness : stop_guard_le_two_stops.
Proof.
  exists late_state, 10. eexists. eexists.
  split; [vm_compute; reflexivity|]. split; [reflexivity|].
  split; [vm_compute; reflexivity|]. reflexivity.
Qed.

(* the same three steps with the real guard: one Stop, count -1 *)
Example stop_guard_eq_one_stop :
  exists s1 s3, stop_action late_state 10 = Ok s1 /\
                stop_action (action_event KStarted 10 s1) 10 = Ok s3 /\
                nstops 10 (out s3) = 1%nat /\ geta s3 10 = Some (mkAct AStarted (-1)%Z).
Proof. eexists. eexists. split; [vm_compute; reflexivity|]. split; [vm_compute; reflexivity|]. vm_compute. auto. Qed.
