"""C02 - Output rails gate every LLM-generated bot message, in every turn.

Models / ties as for C01 (harness/c01.py) with the persistent flags explicit: Colang 1.0
`$skip_output_rails`, Colang 2.x `$output_rails_in_progress`.  Theorems: Props/C02.v
(C02_all_checked, C02_reject_hidden, C02_rewrite_returned, C02_flag_invariant, C02_later_turns;
Colang 2: C02_v2_flag_refuted on the shipped guardrails.co, the main theorems for the model of the
CURRENT file under the (T) obligation C02_T_v2_flag_reset_on_failure).
The oracle demands, per turn, the output-rail calls a FRESH conversation would make on the
LLM-generated message (so every turn may be the blocked one and every later turn is still
checked), that a blocked text is absent from the reply, and that the persistent flag is clear at
every turn boundary.
"""
from __future__ import annotations

import re

from harness import pipe_driver as D

PID = "C02"
GEN = ["C01Flows"]

LLM_MSG = re.compile(r"L[0-9]+x[0-9]+(?:y[0-9a-f]+)?z")


def llm_message_of(case, turn, ob):
    """The LLM-/action-generated bot message of the turn (None when the turn has none): the text the
    scripted custom action returned (`$answer = execute rag` / `bot $answer`), or the scripted
    completion that carries an L-marker - provided the implementation made that call."""
    for o in ob["obs"]:
        if o[0] == "A":
            return o[2], ob["obs"].index(o)
    n_calls = sum(1 for o in ob["obs"] if o[0] == "L")
    for i, comp in enumerate(turn.get("llm", [])):
        m = LLM_MSG.search(comp)
        if m and i < n_calls:
            return m.group(0), max(j for j, o in enumerate(ob["obs"]) if o[0] == "L")
    return None, None


def oracle(case, observed):
    ver = case["ver"]
    out = []
    flag_was_set = False
    for t, (turn, ob) in enumerate(zip(case["turns"], observed)):
        if "error" in ob:
            out.append((f"{ver}-generate-raised", f"turn {t}: generate raised {ob['error']}", t))
            break
        obs = ob["obs"]
        reply = ob["reply"]
        m, produced_at = llm_message_of(case, turn, ob)
        if m is not None:
            # calls on the message: those after the LLM / action call that produced it
            ocalls_m = [(o[1], o[2]) for o in obs[produced_at + 1:] if o[0] == "O"]
            if (turn.get("opt") or {}).get("output", True):
                exp, final, rej = D.expected_rail_calls(turn["ov"], m, rewriting=(ver == "v1"))
            else:
                exp, final, rej = [], m, None     # the caller switched the output rails off for THIS call only
            if ocalls_m != exp:
                if ver == "v2" and flag_was_set:
                    sig = "v2-output-rails-flag-stuck-after-block"
                elif len(ocalls_m) < len(exp) and ocalls_m == exp[:len(ocalls_m)]:
                    sig = f"{ver}-llm-message-not-checked-by-all-output-rails"
                elif [k for k, _ in ocalls_m] != [k for k, _ in exp]:
                    sig = f"{ver}-output-rail-order"
                else:
                    sig = f"{ver}-output-rail-shown-wrong-text"
                out.append((sig, f"turn {t}: LLM message {m}: output-rail calls {ocalls_m}, a fresh conversation requires {exp}; reply {reply}", t))
            content = reply[1] if reply[0] == "msg" else ""
            if rej is not None:
                shown = {x for _, x in exp} | {m}
                leaked = [x for x in shown if x and x in (content or "")]
                # event level: no utterance event may carry a text an output rail rejected
                leaked_ev = [x for x in shown if x and any(x in (u or "") for u in ob.get("utter", []))]
                if leaked_ev and not leaked:
                    sig = ("v2-output-rails-flag-stuck-after-block" if ver == "v2" and flag_was_set
                           else f"{ver}-blocked-text-uttered-in-returned-events")
                    out.append((sig, f"turn {t}: output rail {rej} rejected, returned utterance events {ob.get('utter')} contain {leaked_ev}", t))
                if leaked:
                    sig = ("v2-output-rails-flag-stuck-after-block" if ver == "v2" and flag_was_set
                           else f"{ver}-blocked-text-in-reply")
                    out.append((sig, f"turn {t}: output rail {rej} rejected, reply {reply} contains {leaked}", t))
                if case["exc"]:
                    ok = reply[0] == "exc" and D.parse_exc(reply) == ("O", rej)
                else:
                    ok = reply == ["msg", D.REFUSAL if ver == "v1" else D.REFUSAL_OUT]
                if not ok and not leaked:
                    out.append((f"{ver}-reply-after-output-reject", f"turn {t}: output rail {rej} rejected {m}, reply {reply}", t))
            elif ocalls_m == exp:
                if reply != ["msg", final]:
                    out.append((f"{ver}-reply-is-not-the-checked-text", f"turn {t}: rails passed {m} as {final}, reply {reply}", t))
        # the persistent flag at the turn boundary
        if ob.get("flag"):
            sig = "v2-output-rails-flag-stuck-after-block" if ver == "v2" else "v1-skip-output-rails-stuck"
            out.append((sig, f"turn {t}: persistent flag is True at the turn boundary (reply {reply})", t))
            flag_was_set = True
    return out


def run(tier, seed, replay=None):
    return D.run_check(
        PID, GEN, "out", oracle, tier, seed, replay,
        "make theories/Props/C02.vo && coqc Props/C02.v (Print Assumptions); coqc build/cases/C02_*/Cases_*.v",
        "a conversation = configuration (Colang 1.0 general|passthrough|dialog x enable_rails_exceptions, Colang 2.x guardrails) x "
        "rail counts x per-turn verdict vectors x scripted LLM completions (dialog turns: predefined message | flow + LLM "
        "message | next-step + LLM message); every output verdict vector over {accept,reject,rewrite} (2.x: {accept,reject}) at "
        "every position of 4-turn conversations (<=2 output rails), other turns seeded-random; thorough adds <=4 rails, 4-5 "
        "turns, salted texts. non-trivial = >=2 rails, >=2 turns and at least one reject/rewrite verdict; distinct by hash",
        D.COMMON_ASSUMPTIONS, D.OBSERVATIONS, library=True)
