(* V1.Interp - transcription of nemoguardrails/colang/v1_0/runtime/flows.py:
   _is_actionable, _is_match, _record_next_step, _call_subflow, _slide_with_subflows,
   compute_next_state (all phases), _step_to_event, compute_next_steps.

   Conventions
     - Python exceptions (KeyError on an unknown flow id, IndexError, TypeError on a None head,
       expression errors, the failed assert of hide_prev_turn) are the result Exc; running out
       of the explicit fuel is the distinguished result Fuel.
     - new_uuid() is a counter (st_uid): uids are only ever compared for equality.
     - FlowState objects are mutable and aliased between the old and the new State in Python;
       the old State is dropped after each event, so value semantics is faithful.  Where
       Python mutates a FlowState that already sits in new_state.flow_states (phase 2, the
       resume loop) the model writes the value back at its index.  Lists that grow while they
       are iterated (`for fs in new_state.flow_states` + append in _call_subflow) are iterated
       by index, like CPython does.
     - context["event"], context["config"], last_user_message, last_bot_message are not
       modelled (no expression of the fragment may read them; the translator enforces it).
     - next_step_comment / "instructions" are not modelled. *)
From Coq Require Import ZArith QArith List String Ascii Bool.
From NG Require Import Gen.C14Consts V1.Expr V1.Elems V1.Slide.
Import ListNotations.
Open Scope string_scope.
Open Scope Z_scope.

Inductive status := Active | Interrupted | Aborted | Completed.

Definition status_eqb (a b : status) : bool :=
  match a, b with
  | Active, Active | Interrupted, Interrupted | Aborted, Aborted | Completed, Completed => true
  | _, _ => false
  end.

Record fstate := {
  f_uid : N;
  f_flow : string;
  f_head : Z;
  f_status : status;
  f_intby : option N;
}.

Definition fs_head (fs : fstate) (h : Z) : fstate :=
  {| f_uid := f_uid fs; f_flow := f_flow fs; f_head := h; f_status := f_status fs; f_intby := f_intby fs |}.
Definition fs_status (fs : fstate) (s : status) : fstate :=
  {| f_uid := f_uid fs; f_flow := f_flow fs; f_head := f_head fs; f_status := s; f_intby := f_intby fs |}.
Definition fs_intby (fs : fstate) (i : option N) : fstate :=
  {| f_uid := f_uid fs; f_flow := f_flow fs; f_head := f_head fs; f_status := f_status fs; f_intby := i |}.

Record state := {
  st_ctx : ctx;                 (* State.context *)
  st_fss : list fstate;         (* State.flow_states *)
  st_next : option elem;        (* State.next_step *)
  st_by : option N;             (* State.next_step_by_flow_uid *)
  st_prio : Q;                  (* State.next_step_priority *)
  st_upd : ctx;                 (* State.context_updates *)
  st_uid : N;                   (* supply for new_uuid() *)
}.

Definition st_set_ctx (s : state) (c u : ctx) : state :=
  {| st_ctx := c; st_fss := st_fss s; st_next := st_next s; st_by := st_by s; st_prio := st_prio s;
     st_upd := u; st_uid := st_uid s |}.
Definition st_set_fss (s : state) (l : list fstate) : state :=
  {| st_ctx := st_ctx s; st_fss := l; st_next := st_next s; st_by := st_by s; st_prio := st_prio s;
     st_upd := st_upd s; st_uid := st_uid s |}.
Definition st_push (s : state) (fs : fstate) : state := st_set_fss s (st_fss s ++ [fs]).
Definition st_set_next (s : state) (n : option elem) (by_ : option N) (p : Q) : state :=
  {| st_ctx := st_ctx s; st_fss := st_fss s; st_next := n; st_by := by_; st_prio := p;
     st_upd := st_upd s; st_uid := st_uid s |}.
Definition st_bump_uid (s : state) : state :=
  {| st_ctx := st_ctx s; st_fss := st_fss s; st_next := st_next s; st_by := st_by s; st_prio := st_prio s;
     st_upd := st_upd s; st_uid := N.succ (st_uid s) |}.

Inductive res (A : Type) :=
| Ok (a : A)
| Exc            (* a Python exception leaves compute_next_steps *)
| Fuel.          (* the model ran out of fuel *)
Arguments Ok {A} a.
Arguments Exc {A}.
Arguments Fuel {A}.

Definition bind {A B} (r : res A) (f : A -> res B) : res B :=
  match r with Ok a => f a | Exc => Exc | Fuel => Fuel end.
Notation "'do' x <- r ; k" := (bind r (fun x => k)) (at level 200, x pattern, r at level 100, k at level 200).

Definition of_opt {A} (o : option A) : res A := match o with Some a => Ok a | None => Exc end.

(* Two facts about the current source that the pinned snapshot gets wrong (both are read from
   flows.py by translator/gen_c14.py into Gen/C14Consts.v; Props/C14.v needs both to be true):
     o_mark  - a flow that runs to its end in the very event that starts it is marked COMPLETED
               (phase 1 does this for running flows; the snapshot's start loop does not: the
               finished instance stays ACTIVE with a negative head and swallows the next
               matching event);
     o_guard - _call_subflow proposes the called subflow's head as next step only while that
               subflow is ACTIVE (the snapshot also does it when the subflow is itself waiting
               for a deeper subflow: the statement AFTER its own `do` is then proposed). *)
Record opts := { o_mark : bool; o_guard : bool }.

(* ---------------------------------------------------------------- _is_actionable / _is_match *)

Definition is_actionable (el : elem) : bool :=
  match el with
  | LRun name value _ _ => negb (String.eqb name "utter" && String.eqb value "...")
  | _ => false
  end.

Definition starts_with_underscore (k : string) : bool :=
  match k with String c _ => Ascii.eqb c "_"%char | EmptyString => false end.

Definition props_match (eprops evprops : list (string * value)) : bool :=
  forallb (fun kv =>
             let '(k, v) := kv in
             if starts_with_underscore k then true
             else if veq v (VStr "...") then true
             else match lookup k evprops with
                  | Some v' => veq v' v
                  | None => veq VNone v
                  end) eprops.

Definition is_match (el : elem) (ev : event) : bool :=
  match ev with
  | EvUser i =>
      match el with
      | LUser n => String.eqb n "..." || String.eqb n i
      | _ => false
      end
  | EvBot i =>
      match el with
      | LRun name v _ _ => String.eqb name "utter" && (String.eqb v "..." || String.eqb v i)
      | _ => false
      end
  | EvActFin name ok =>
      if negb ok then false
      else match el with
           | LRun n _ _ _ => String.eqb n name
           | _ => false
           end
  | EvOther t props =>
      if String.eqb t "UtteranceUserActionFinished" || String.eqb t "StartUtteranceBotAction" then false
      else match el with
           | LEvent t' eprops => String.eqb t t' && props_match eprops props
           | _ => false
           end
  | _ => false
  end.

(* ---------------------------------------------------------------- _record_next_step *)

Definition Qltb (a b : Q) : bool := negb (Qle_bool b a).

Definition record_next_step (s : state) (fs : fstate) (cfg : flow_config) (modifier : Q) : res state :=
  if match st_next s with None => true | Some _ => false end || Qltb (st_prio s) (fc_priority cfg) then
    do el <- of_opt (pyidx (fc_elems cfg) (f_head fs));
    if is_actionable el
    then Ok (st_set_next s (Some el) (Some (f_uid fs)) (Qred (fc_priority cfg * modifier)))
    else Ok s
  else Ok s.

(* ---------------------------------------------------------------- _slide_with_subflows + _call_subflow *)

Definition new_fstate (uid : N) (flow : string) (head : Z) : fstate :=
  {| f_uid := uid; f_flow := flow; f_head := head; f_status := Active; f_intby := None |}.

Fixpoint sws (o : opts) (fuel : nat) (cs : configs) (s : state) (fs : fstate) : res (state * fstate) :=
  match fuel with
  | O => Fuel
  | S f =>
      do cfg <- of_opt (find_config cs (f_flow fs));
      match slide f (fc_elems cfg) (f_head fs) (st_ctx s) (st_upd s) with
      | SFuel => Fuel
      | SErr => Exc
      | SNone => Exc                                   (* `None >= 0` : TypeError *)
      | SOk h c u =>
          let s1 := st_set_ctx s c u in
          let fs1 := fs_head fs h in
          if h >=? 0 then
            do el <- of_opt (pyidx (fc_elems cfg) h);
            match el with
            | LFlow name =>
                (* _call_subflow *)
                let sub := new_fstate (st_uid s1) name 0 in
                let s2 := st_bump_uid s1 in
                let fs2 := fs_head fs1 (h + 1) in
                do r <- sws o f cs s2 sub;
                let '(s3, sub') := r in
                if f_head sub' <? 0 then sws o f cs s3 fs2            (* finished at once: keep sliding *)
                else
                  let fs3 := fs_intby (fs_status fs2 Interrupted) (Some (f_uid sub')) in
                  let s4 := st_push s3 sub' in
                  do scfg <- of_opt (find_config cs (f_flow sub'));
                  do s5 <- (if o_guard o && negb (status_eqb (f_status sub') Active) then Ok s4
                            else record_next_step s4 sub' scfg 1);
                  Ok (s5, fs3)
            | _ =>
                do s2 <- record_next_step s1 fs1 cfg 1;
                Ok (s2, fs1)
            end
          else Ok (s1, fs1)
      end
  end.

(* ---------------------------------------------------------------- compute_next_state *)

Definition has_flow (l : list fstate) (id : string) : bool :=
  existsb (fun fs => String.eqb (f_flow fs) id) l.

(* `for branch_head in branch_heads: if _is_match(elements[head + bh], event): matching_head = ...` *)
Fixpoint branch_match (els : list elem) (head : Z) (ev : event) (heads : list Z) (acc : option Z)
  : res (option Z) :=
  match heads with
  | [] => Ok acc
  | bh :: rest =>
      do el <- of_opt (pyidx els (head + bh));
      branch_match els head ev rest (if is_match el ev then Some (head + bh + 1) else acc)
  end.

(* priority modifier of flows not triggered by the event type, as read from the current source *)
Definition q09 : Q := nontrigger_modifier.

(* phase 1: advance the existing flows.  Returns the new state and extension_flow_completed *)
Fixpoint phase1 (o : opts) (fuel : nat) (cs : configs) (ev : event) (old : list fstate) (s : state) (ext : bool)
  : res (state * bool) :=
  match old with
  | [] => Ok (s, ext)
  | fs :: rest =>
      match f_status fs with
      | Completed | Aborted => phase1 o fuel cs ev rest s ext
      | Interrupted => phase1 o fuel cs ev rest (st_push s fs) ext
      | Active =>
          do cfg <- of_opt (find_config cs (f_flow fs));
          do hel <- of_opt (pyidx (fc_elems cfg) (f_head fs));
          if negb (string_in (event_type ev) (fc_triggers cfg)) then
            do s1 <- record_next_step (st_push s fs) fs cfg q09;
            phase1 o fuel cs ev rest s1 ext
          else
            do mh <- match hel with
                     | LBranch heads => branch_match (fc_elems cfg) (f_head fs) ev heads None
                     | _ => Ok (if is_match hel ev then Some (f_head fs + 1) else None)
                     end;
            match (match mh with Some m => if m =? 0 then None else Some m | None => None end) with
            | Some m =>
                do r <- sws o fuel cs s (fs_head fs m);
                let '(s1, fs1) := r in
                if f_head fs1 <? 0
                then phase1 o fuel cs ev rest (st_push s1 (fs_status fs1 Completed)) (ext || fc_extension cfg)
                else phase1 o fuel cs ev rest (st_push s1 fs1) ext
            | None =>
                do el <- of_opt (pyidx (fc_elems cfg) (f_head fs));
                if is_actionable el || negb (fc_interruptible cfg)
                then phase1 o fuel cs ev rest (st_push s (fs_status fs Aborted)) ext
                else phase1 o fuel cs ev rest (st_push s (fs_status fs Interrupted)) ext
            end
      end
  end.

Fixpoint list_set {A} (l : list A) (i : nat) (a : A) : list A :=
  match l, i with
  | [], _ => []
  | _ :: t, O => a :: t
  | x :: t, S i' => x :: list_set t i' a
  end.

(* phase 2: try to start new flows (o_mark: see `opts`) *)
Fixpoint phase2 (o : opts) (fuel : nat) (cs : configs) (ev : event) (todo : configs) (s : state) : res state :=
  match todo with
  | [] => Ok s
  | cfg :: rest =>
      if fc_subflow cfg then phase2 o fuel cs ev rest s
      else if negb (fc_multiple cfg) && has_flow (st_fss s) (fc_id cfg) then phase2 o fuel cs ev rest s
      else
        match slide fuel (fc_elems cfg) 0 (st_ctx s) (st_upd s) with
        | SFuel => Fuel
        | SErr => Exc
        | SNone => Exc                                 (* elements[None] : TypeError *)
        | SOk sh c u =>
            let s1 := st_set_ctx s c u in
            do el <- of_opt (pyidx (fc_elems cfg) sh);
            if is_match el ev then
              let fs := new_fstate (st_uid s1) (fc_id cfg) (sh + 1) in
              let i := List.length (st_fss s1) in
              let s2 := st_push (st_bump_uid s1) fs in
              do r <- sws o fuel cs s2 fs;
              let '(s3, fs') := r in
              let fs'' := if o_mark o && (f_head fs' <? 0) then fs_status fs' Completed else fs' in
              phase2 o fuel cs ev rest (st_set_fss s3 (list_set (st_fss s3) i fs''))
            else phase2 o fuel cs ev rest s1
        end
  end.

(* re-activate aborted flows after an extension flow completed *)
Fixpoint reactivate (cs : configs) (s : state) (i : nat) (n : nat) : res state :=
  match n with
  | O => Ok s
  | S n' =>
      match nth_error (st_fss s) i with
      | None => Ok s
      | Some fs =>
          if status_eqb (f_status fs) Aborted then
            let fs' := fs_status fs Active in
            let s1 := st_set_fss s (list_set (st_fss s) i fs') in
            do cfg <- of_opt (find_config cs (f_flow fs'));
            do s2 <- record_next_step s1 fs' cfg 1;
            reactivate cs s2 (S i) n'
          else reactivate cs s (S i) n'
      end
  end.

Definition assign_intby (s : state) : state :=
  st_set_fss s (map (fun fs =>
                       if status_eqb (f_status fs) Interrupted && match f_intby fs with None => true | _ => false end
                       then fs_intby fs (st_by s) else fs) (st_fss s)).

Definition opt_N_eqb (a b : option N) : bool :=
  match a, b with
  | Some x, Some y => N.eqb x y
  | None, None => true
  | _, _ => false
  end.

(* the last flow state whose uid is next_step_by_flow_uid *)
Definition decision_flow (s : state) : option fstate :=
  match st_by s with
  | None => None
  | Some u => fold_left (fun acc fs => if N.eqb (f_uid fs) u then Some fs else acc) (st_fss s) None
  end.

Fixpoint ext_interrupt (cs : configs) (by_ : option N) (l : list fstate) : res (list fstate) :=
  match l with
  | [] => Ok []
  | fs :: rest =>
      do fs' <- (if status_eqb (f_status fs) Aborted then
                   do cfg <- of_opt (find_config cs (f_flow fs));
                   Ok (if fc_interruptible cfg then fs_intby (fs_status fs Interrupted) by_ else fs)
                 else Ok fs);
      do rest' <- ext_interrupt cs by_ rest;
      Ok (fs' :: rest')
  end.

Definition find_uid (l : list fstate) (u : N) : option fstate :=
  find (fun fs => N.eqb (f_uid fs) u) l.

(* one `for flow_state in new_state.flow_states` pass of the resume loop, by index *)
Fixpoint resume_pass (o : opts) (fuel : nat) (cs : configs) (s : state) (i : nat) (changes : bool) : res (state * bool) :=
  match fuel with
  | O => Fuel
  | S f =>
      match nth_error (st_fss s) i with
      | None => Ok (s, changes)
      | Some fs =>
          if status_eqb (f_status fs) Interrupted then
            let '(should_resume, should_abort) :=
              match f_intby fs with
              | None => (true, false)
              | Some u =>
                  match find_uid (st_fss s) u with
                  | Some g => (status_eqb (f_status g) Completed, status_eqb (f_status g) Aborted)
                  | None => (false, false)
                  end
              end in
            if should_resume then
              let fs1 := fs_intby (fs_status fs Active) None in
              let s1 := st_set_fss s (list_set (st_fss s) i fs1) in
              do r <- sws o f cs s1 fs1;
              let '(s2, fs2) := r in
              let fs3 := if f_head fs2 <? 0 then fs_status fs2 Completed else fs2 in
              resume_pass o f cs (st_set_fss s2 (list_set (st_fss s2) i fs3)) (S i) true
            else if should_abort then
              let fs1 := fs_intby (fs_status fs Aborted) None in
              resume_pass o f cs (st_set_fss s (list_set (st_fss s) i fs1)) (S i) true
            else resume_pass o f cs s (S i) changes
          else resume_pass o f cs s (S i) changes
      end
  end.

Fixpoint resume_loop (o : opts) (fuel : nat) (cs : configs) (s : state) : res state :=
  match fuel with
  | O => Fuel
  | S f =>
      do r <- resume_pass o fuel cs s 0 false;
      let '(s1, changes) := r in
      if changes then resume_loop o f cs s1 else Ok s1
  end.

Definition compute_next_state (o : opts) (fuel : nat) (cs : configs) (s : state) (ev : event) : res state :=
  match ev with
  | EvStartAct => Ok s
  | EvCtx data =>
      Ok {| st_ctx := assoc_update (st_ctx s) data; st_fss := st_fss s; st_next := None; st_by := st_by s;
            st_prio := st_prio s; st_upd := []; st_uid := st_uid s |}
  | _ =>
      let ns := {| st_ctx := st_ctx s; st_fss := []; st_next := None; st_by := None; st_prio := 0;
                   st_upd := []; st_uid := st_uid s |} in
      do r <- phase1 o fuel cs ev (st_fss s) ns false;
      let '(s1, ext) := r in
      do s2 <- phase2 o fuel cs ev cs s1;
      do s3 <- (if ext then reactivate cs s2 0 (List.length (st_fss s2)) else Ok s2);
      let s4 := assign_intby s3 in
      do s5 <- match decision_flow s4 with
               | None => Ok s4
               | Some dfs =>
                   do dcfg <- of_opt (find_config cs (f_flow dfs));
                   if fc_extension dcfg && (1 <? f_head dfs) then
                     do l <- ext_interrupt cs (st_by s4) (st_fss s4);
                     Ok (st_set_fss s4 l)
                   else Ok s4
               end;
      resume_loop o fuel cs s5
  end.

(* ---------------------------------------------------------------- compute_next_steps *)

Definition is_uuaf (e : event) : bool := String.eqb (event_type e) "UtteranceUserActionFinished".

(* index of the last UtteranceUserActionFinished, if any *)
Fixpoint last_uuaf (l : list event) (i : nat) (acc : option nat) : option nat :=
  match l with
  | [] => acc
  | e :: rest => last_uuaf rest (S i) (if is_uuaf e then Some i else acc)
  end.

Fixpoint preprocess (hist : list event) (actual : list event) : res (list event) :=
  match hist with
  | [] => Ok actual
  | EvHide :: rest =>
      match last_uuaf actual 0 None with
      | None => Exc                             (* IndexError on [] / failed assert *)
      | Some end_ => preprocess rest (firstn end_ actual)
      end
  | e :: rest => preprocess rest (actual ++ [e])
  end.

Definition is_bot_stop (e : event) : bool :=
  match e with EvBot i => String.eqb i "stop" | _ => false end.

Definition init_state : state :=
  {| st_ctx := []; st_fss := []; st_next := None; st_by := None; st_prio := 0; st_upd := []; st_uid := 0%N |}.

Fixpoint run_events (o : opts) (fuel : nat) (cs : configs) (s : state) (l : list event) : res state :=
  match l with
  | [] => Ok s
  | e :: rest =>
      do s1 <- compute_next_state o fuel cs s e;
      run_events o fuel cs (if is_bot_stop e then st_set_fss s1 [] else s1) rest
  end.

Definition step_to_event (el : elem) : res out_event :=
  match el with
  | LRun name v params key => Ok (if String.eqb name "utter" then OBot v else OAct name params key)
  | _ => Exc                                     (* ValueError("Unknown next step type") *)
  end.

Definition final_steps (s : state) (actual : list event) : res (list out_event) :=
  let upd := match st_upd s with [] => [] | u => [OCtx u] end in
  do st <- match st_next s with
           | None => Ok []
           | Some el => do e <- step_to_event el; Ok [e]
           end;
  match last actual EvHide with
  | e => if match actual with [] => false | _ => is_bot_stop e end then Ok [] else Ok (upd ++ st)%list
  end.

Definition compute_next_steps (o : opts) (fuel : nat) (cs : configs) (hist : list event) : res (list out_event) :=
  do actual <- preprocess hist [];
  do s <- run_events o fuel cs init_state actual;
  final_steps s actual.

(* the state after a history, for the proofs *)
Definition state_after (o : opts) (fuel : nat) (cs : configs) (hist : list event) : res state :=
  do actual <- preprocess hist [];
  run_events o fuel cs init_state actual.
