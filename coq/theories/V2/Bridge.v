(* C11 - bridge between the two models: the abstraction of a State object graph (V2/Serial.v)
   to the abstract interpreter state of V2/Cleanup.v, and its invariance under the
   bisimulation of the round-trip theorem.  Consequence: cleaning up a restored state and
   cleaning up the live state give the same abstract state. *)
From Coq Require Import ZArith List String Bool Lia.
From NG Require Import V2.Serial V2.Serial_proofs V2.State_proofs V2.Cleanup V2.BridgeDef.
Import ListNotations.
Open Scope string_scope.
Open Scope Z_scope.

Section AlphaInv.
  Variable ts : string -> Z.
  Local Notation datetime_of := (BridgeDef.datetime_of ts).
  Local Notation inst_abs := (BridgeDef.inst_abs ts).
  Local Notation flow_entry := (BridgeDef.flow_entry ts).
  Local Notation alpha := (BridgeDef.alpha ts).

  (* ---- invariance under a bisimulation.  The relation is abstract: it is instantiated with the
     relation of the graph round trip (vrel true) and with the one of the State round trip
     (vrel2, callbacks related to callbacks). *)
  Variables (h h' : heap).
  Variable VR : val -> val -> Prop.
  Hypothesis H_prim : forall p v', VR (VP p) v' -> v' = VP p.
  Hypothesis H_obj : forall i v' nd, VR (VO i) v' -> lookup h i = Some nd -> (forall fn, hd nd <> HPartial fn) ->
    exists i' nd', v' = VO i' /\ lookup h' i' = Some nd' /\ hd nd' = hd nd /\ Forall2 VR (kids nd) (kids nd').

  Lemma prim_tr {A} (g : val -> option A) :
    (forall i, g (VO i) = None) -> forall v v' x, VR v v' -> g v = Some x -> g v' = Some x.
  Proof.
    intros Hg v v' x Hv Hx. destruct v as [p|i]; [|rewrite Hg in Hx; discriminate].
    apply H_prim in Hv. now subst.
  Qed.

  Lemma get_str_tr v v' x : VR v v' -> get_str v = Some x -> get_str v' = Some x.
  Proof. apply prim_tr. reflexivity. Qed.
  Lemma get_opt_str_tr v v' x : VR v v' -> get_opt_str v = Some x -> get_opt_str v' = Some x.
  Proof. apply prim_tr. reflexivity. Qed.
  Lemma get_int_tr v v' x : VR v v' -> get_int v = Some x -> get_int v' = Some x.
  Proof. apply prim_tr. reflexivity. Qed.
  Lemma get_num_tr v v' x : VR v v' -> get_num v = Some x -> get_num v' = Some x.
  Proof. apply prim_tr. reflexivity. Qed.

  Lemma obj_tr v v' i nd : VR v v' -> v = VO i -> lookup h i = Some nd ->
    (forall fn, hd nd <> HPartial fn) ->
    exists i' nd', v' = VO i' /\ lookup h' i' = Some nd' /\ hd nd' = hd nd /\ Forall2 VR (kids nd) (kids nd').
  Proof. intros Hv -> Hl Hnp. eapply H_obj; eauto. Qed.

  Lemma nth_F2 l l' : Forall2 VR l l' -> forall k x, nth_error l k = Some x -> exists y, nth_error l' k = Some y /\ VR x y.
  Proof.
    induction 1 as [|a b l l' Hab _ IH]; intros [|k] x Hx; simpl in *; try discriminate.
    - inversion Hx; subst. eauto.
    - eauto.
  Qed.

  Lemma field_tr' v v' f x : VR v v' -> field h v f = Some x -> exists x', field h' v' f = Some x' /\ VR x x'.
  Proof.
    intros Hv H. unfold field in H. destruct v as [|i]; [discriminate|].
    destruct (lookup h i) as [[hn kk]|] eqn:El; [|discriminate]. destruct hn; try discriminate.
    destruct (obj_tr _ _ i _ Hv eq_refl El) as (i' & [hn' kk'] & -> & Hl' & Hh & HF); [simpl; discriminate|].
    simpl in *. subst hn'. unfold field. rewrite Hl'. destruct (index_of f fs) as [k|]; [|discriminate].
    eapply nth_F2; eauto.
  Qed.

  Lemma map_opt_tr {A B} (f f' : A -> option B) (R : A -> A -> Prop) :
    (forall a a' y, R a a' -> f a = Some y -> f' a' = Some y) ->
    forall l l' ys, Forall2 R l l' -> map_opt f l = Some ys -> map_opt f' l' = Some ys.
  Proof.
    intros Hf l l' ys HF. revert ys. induction HF as [|a a' l l' Ha _ IH]; intros ys H; simpl in *; [exact H|].
    destruct (f a) as [y|] eqn:E; [|discriminate]. destruct (map_opt f l) as [ys'|] eqn:E2; [|discriminate].
    rewrite (Hf _ _ _ Ha E), (IH _ eq_refl). exact H.
  Qed.

  Lemma list_vals_tr v v' ks : VR v v' -> list_vals h v = Some ks -> exists ks', list_vals h' v' = Some ks' /\ Forall2 VR ks ks'.
  Proof.
    intros Hv H. unfold list_vals in H. destruct v as [|i]; [discriminate|].
    destruct (lookup h i) as [[hn kk]|] eqn:El; [|discriminate]. destruct hn; try discriminate. inversion H; subst kk.
    destruct (obj_tr _ _ i _ Hv eq_refl El) as (i' & [hn' kk'] & -> & Hl' & Hh & HF); [simpl; discriminate|].
    simpl in *. subst hn'. unfold list_vals. rewrite Hl'. eauto.
  Qed.

  Lemma tuple_vals_tr v v' ks : VR v v' -> tuple_vals h v = Some ks -> exists ks', tuple_vals h' v' = Some ks' /\ Forall2 VR ks ks'.
  Proof.
    intros Hv H. unfold tuple_vals in H. destruct v as [|i]; [discriminate|].
    destruct (lookup h i) as [[hn kk]|] eqn:El; [|discriminate]. destruct hn; try discriminate. inversion H; subst kk.
    destruct (obj_tr _ _ i _ Hv eq_refl El) as (i' & [hn' kk'] & -> & Hl' & Hh & HF); [simpl; discriminate|].
    simpl in *. subst hn'. unfold tuple_vals. rewrite Hl'. eauto.
  Qed.

  Lemma enum_member_tr v v' m : VR v v' -> enum_member h v = Some m -> enum_member h' v' = Some m.
  Proof.
    intros Hv H. unfold enum_member in H. destruct v as [|i]; [discriminate|].
    destruct (lookup h i) as [[hn kk]|] eqn:El; [|discriminate]. destruct hn; try discriminate. inversion H; subst.
    destruct (obj_tr _ _ i _ Hv eq_refl El) as (i' & [hn' kk'] & -> & Hl' & Hh & HF); [simpl; discriminate|].
    simpl in *. subst hn'. unfold enum_member. rewrite Hl'. reflexivity.
  Qed.

  Lemma datetime_of_tr v v' z : VR v v' -> datetime_of h v = Some z -> datetime_of h' v' = Some z.
  Proof.
    intros Hv H. unfold datetime_of in H. destruct v as [|i]; [discriminate|].
    destruct (lookup h i) as [[hn kk]|] eqn:El; [|discriminate]. destruct hn; try discriminate. inversion H; subst.
    destruct (obj_tr _ _ i _ Hv eq_refl El) as (i' & [hn' kk'] & -> & Hl' & Hh & HF); [simpl; discriminate|].
    simpl in *. subst hn'. unfold datetime_of. rewrite Hl'. reflexivity.
  Qed.

  Definition KVR (a b : string * val) : Prop := fst a = fst b /\ VR (snd a) (snd b).

  Lemma combine_kvr ss : forall vs vs', Forall2 VR vs vs' -> Forall2 KVR (combine ss vs) (combine ss vs').
  Proof.
    induction ss as [|s r IH]; intros vs vs' HF; simpl; [constructor|].
    inversion HF; subst; [constructor|]. constructor; [split; auto|apply IH; assumption].
  Qed.

  Lemma dict_items_tr v v' its : VR v v' -> dict_items h v = Some its ->
    exists its', dict_items h' v' = Some its' /\ Forall2 KVR its its'.
  Proof.
    intros Hv H. unfold dict_items in H. destruct v as [|i]; [discriminate|].
    destruct (lookup h i) as [[hn kk]|] eqn:El; [|discriminate]. destruct hn; try discriminate.
    destruct (map_opt key_str_only ks) as [ss|] eqn:Ek; [|discriminate]. simpl in H. inversion H; subst its.
    destruct (obj_tr _ _ i _ Hv eq_refl El) as (i' & [hn' kk'] & -> & Hl' & Hh & HF); [simpl; discriminate|].
    simpl in *. subst hn'. unfold dict_items. rewrite Hl', Ek. simpl. eexists. split; [reflexivity|]. now apply combine_kvr.
  Qed.

  Lemma str_list_tr v v' l : VR v v' -> str_list h v = Some l -> str_list h' v' = Some l.
  Proof.
    intros Hv H. unfold str_list in *. destruct (list_vals h v) as [ks|] eqn:E; [|discriminate]. simpl in H.
    destruct (list_vals_tr _ _ _ Hv E) as (ks' & -> & HF). simpl.
    eapply (map_opt_tr get_str get_str VR); eauto. intros; eapply get_str_tr; eauto.
  Qed.

  Lemma num_list_tr v v' l : VR v v' -> num_list h v = Some l -> num_list h' v' = Some l.
  Proof.
    intros Hv H. unfold num_list in *. destruct (list_vals h v) as [ks|] eqn:E; [|discriminate]. simpl in H.
    destruct (list_vals_tr _ _ _ Hv E) as (ks' & -> & HF). simpl.
    eapply (map_opt_tr get_num get_num VR); eauto. intros; eapply get_num_tr; eauto.
  Qed.

  (* obind (field ..) g transfers when g does *)
  Lemma field_then_tr {A} (g g' : val -> option A) v v' f y :
    (forall x x' z, VR x x' -> g x = Some z -> g' x' = Some z) ->
    VR v v' -> obind (field h v f) g = Some y -> obind (field h' v' f) g' = Some y.
  Proof.
    intros Hg Hv H. destruct (field h v f) as [x|] eqn:E; [|discriminate]. simpl in H.
    destruct (field_tr' _ _ _ _ Hv E) as (x' & -> & Hx). simpl. eauto.
  Qed.

  Lemma head_abs_tr a a' y : KVR a a' -> head_abs h a = Some y -> head_abs h' a' = Some y.
  Proof.
    intros [Hk Hv] H. unfold head_abs in *.
    destruct (field h (snd a) "matching_scores") as [ms|] eqn:E; [|discriminate]. simpl in H.
    destruct (field_tr' _ _ _ _ Hv E) as (ms' & -> & Hms). simpl.
    destruct (num_list h ms) as [sc|] eqn:E2; [|discriminate]. simpl in H.
    rewrite (num_list_tr _ _ _ Hms E2). simpl. now rewrite <- Hk.
  Qed.

  Lemma scope_abs_tr a a' y : KVR a a' -> scope_abs h a = Some y -> scope_abs h' a' = Some y.
  Proof.
    intros [Hk Hv] H. unfold scope_abs in *.
    destruct (tuple_vals h (snd a)) as [tv|] eqn:E; [|discriminate]. simpl in H.
    destruct (tuple_vals_tr _ _ _ Hv E) as (tv' & -> & HF). simpl.
    destruct tv as [|fl [|al [|]]]; try discriminate.
    inversion HF as [|? fl' ? r' Hfl HF2]; subst. inversion HF2 as [|? al' ? r'' _ HF3]; subst. inversion HF3; subst.
    destruct (str_list h fl) as [l|] eqn:E2; [|discriminate]. simpl in H.
    rewrite (str_list_tr _ _ _ Hfl E2). simpl. now rewrite <- Hk.
  Qed.

  Lemma items_then_tr {B} (g g' : string * val -> option B) v v' ys :
    (forall a a' y, KVR a a' -> g a = Some y -> g' a' = Some y) ->
    VR v v' -> obind (dict_items h v) (map_opt g) = Some ys -> obind (dict_items h' v') (map_opt g') = Some ys.
  Proof.
    intros Hg Hv H. destruct (dict_items h v) as [its|] eqn:E; [|discriminate]. simpl in H.
    destruct (dict_items_tr _ _ _ Hv E) as (its' & -> & HF). simpl. eapply map_opt_tr; eauto.
  Qed.

  Lemma inst_abs_tr v v' i : VR v v' -> inst_abs h v = Some i -> inst_abs h' v' = Some i.
  Proof.
    intros Hv H. unfold inst_abs in *.
    destruct (obind (field h v "flow_id") get_str) as [fid|] eqn:E1; [|discriminate]. simpl in H.
    rewrite (field_then_tr get_str get_str _ _ _ _ get_str_tr Hv E1). simpl.
    destruct (obind (field h v "_status") (enum_member h)) as [st|] eqn:E2; [|discriminate]. simpl in H.
    rewrite (field_then_tr (enum_member h) (enum_member h') _ _ _ _ enum_member_tr Hv E2). simpl.
    destruct (obind (field h v "status_updated") (datetime_of h)) as [upd|] eqn:E3; [|discriminate]. simpl in H.
    rewrite (field_then_tr (datetime_of h) (datetime_of h') _ _ _ _ datetime_of_tr Hv E3). simpl.
    destruct (obind (field h v "activated") get_int) as [act|] eqn:E4; [|discriminate]. simpl in H.
    rewrite (field_then_tr get_int get_int _ _ _ _ get_int_tr Hv E4). simpl.
    destruct (obind (field h v "parent_uid") get_opt_str) as [par|] eqn:E5; [|discriminate]. simpl in H.
    rewrite (field_then_tr get_opt_str get_opt_str _ _ _ _ get_opt_str_tr Hv E5). simpl.
    destruct (obind (field h v "child_flow_uids") (str_list h)) as [ch|] eqn:E6; [|discriminate]. simpl in H.
    rewrite (field_then_tr (str_list h) (str_list h') _ _ _ _ str_list_tr Hv E6). simpl.
    destruct (obind (field h v "action_uids") (str_list h)) as [acts|] eqn:E7; [|discriminate]. simpl in H.
    rewrite (field_then_tr (str_list h) (str_list h') _ _ _ _ str_list_tr Hv E7). simpl.
    destruct (obind (obind (field h v "heads") (dict_items h)) (map_opt (head_abs h))) as [hs|] eqn:E8; [|discriminate]. simpl in H.
    assert (E8' : obind (obind (field h' v' "heads") (dict_items h')) (map_opt (head_abs h')) = Some hs).
    { destruct (field h v "heads") as [x|] eqn:Ef; [|discriminate]. simpl in E8.
      destruct (field_tr' _ _ _ _ Hv Ef) as (x' & -> & Hx). simpl.
      eapply (items_then_tr (head_abs h) (head_abs h')); eauto. intros; eapply head_abs_tr; eauto. }
    rewrite E8'. simpl.
    destruct (obind (obind (field h v "scopes") (dict_items h)) (map_opt (scope_abs h))) as [sc|] eqn:E9; [|discriminate]. simpl in H.
    assert (E9' : obind (obind (field h' v' "scopes") (dict_items h')) (map_opt (scope_abs h')) = Some sc).
    { destruct (field h v "scopes") as [x|] eqn:Ef; [|discriminate]. simpl in E9.
      destruct (field_tr' _ _ _ _ Hv Ef) as (x' & -> & Hx). simpl.
      eapply (items_then_tr (scope_abs h) (scope_abs h')); eauto. intros; eapply scope_abs_tr; eauto. }
    rewrite E9'. simpl. exact H.
  Qed.

  Lemma flow_entry_tr a a' y : KVR a a' -> flow_entry h a = Some y -> flow_entry h' a' = Some y.
  Proof.
    intros [Hk Hv] H. unfold flow_entry in *. destruct (inst_abs h (snd a)) as [i|] eqn:E; [|discriminate]. simpl in H.
    rewrite (inst_abs_tr _ _ _ Hv E). simpl. now rewrite <- Hk.
  Qed.

  Lemma by_flow_entry_tr a a' y : KVR a a' -> by_flow_entry h a = Some y -> by_flow_entry h' a' = Some y.
  Proof.
    intros [Hk Hv] H. unfold by_flow_entry in *. destruct (list_vals h (snd a)) as [l|] eqn:E; [|discriminate]. simpl in H.
    destruct (list_vals_tr _ _ _ Hv E) as (l' & -> & HF). simpl.
    destruct (map_opt (fun f => obind (field h f "uid") get_str) l) as [us|] eqn:E2; [|discriminate]. simpl in H.
    rewrite (map_opt_tr (fun f => obind (field h f "uid") get_str) (fun f => obind (field h' f "uid") get_str) VR
               (fun x x' z Hx Hz => field_then_tr get_str get_str x x' "uid" z get_str_tr Hx Hz) _ _ _ HF E2).
    simpl. now rewrite <- Hk.
  Qed.

  Theorem alpha_invariant r r' a : VR r r' -> alpha h r = Some a -> alpha h' r' = Some a.
  Proof.
    intros Hv H. unfold alpha in *.
    destruct (obind (obind (field h r "flow_states") (dict_items h)) (map_opt (flow_entry h))) as [fl|] eqn:E1; [|discriminate]. simpl in H.
    assert (E1' : obind (obind (field h' r' "flow_states") (dict_items h')) (map_opt (flow_entry h')) = Some fl).
    { destruct (field h r "flow_states") as [x|] eqn:Ef; [|discriminate]. simpl in E1.
      destruct (field_tr' _ _ _ _ Hv Ef) as (x' & -> & Hx). simpl.
      eapply (items_then_tr (flow_entry h) (flow_entry h')); eauto. intros; eapply flow_entry_tr; eauto. }
    rewrite E1'. simpl.
    destruct (obind (obind (field h r "flow_id_states") (dict_items h)) (map_opt (by_flow_entry h))) as [bf|] eqn:E2; [|discriminate]. simpl in H.
    assert (E2' : obind (obind (field h' r' "flow_id_states") (dict_items h')) (map_opt (by_flow_entry h')) = Some bf).
    { destruct (field h r "flow_id_states") as [x|] eqn:Ef; [|discriminate]. simpl in E2.
      destruct (field_tr' _ _ _ _ Hv Ef) as (x' & -> & Hx). simpl.
      eapply (items_then_tr (by_flow_entry h) (by_flow_entry h')); eauto. intros; eapply by_flow_entry_tr; eauto. }
    rewrite E2'. simpl.
    destruct (obind (field h r "actions") (dict_items h)) as [ai|] eqn:E3; [|discriminate]. simpl in H.
    destruct (field h r "actions") as [x|] eqn:Ef; [|discriminate]. simpl in E3.
    destruct (field_tr' _ _ _ _ Hv Ef) as (x' & -> & Hx). simpl.
    destruct (dict_items_tr _ _ _ Hx E3) as (ai' & -> & HF). simpl.
    inversion H; subst a. f_equal. f_equal.
    clear -HF. induction HF as [|p q l l' [Hk _] _ IH]; simpl; [reflexivity|]. now rewrite Hk, IH.
  Qed.
End AlphaInv.

(* ---------------------------------------------------------------------------------- *)
(* consequences *)

Lemma vrel2_prim h h2 M p v' : vrel2 h h2 M (VP p) v' -> v' = VP p.
Proof. intro H. inversion H. reflexivity. Qed.

Lemma vrel2_obj h r h2 r2 M : bisim2 h r h2 r2 M ->
  forall i v' nd, vrel2 h h2 M (VO i) v' -> lookup h i = Some nd -> (forall fn, hd nd <> HPartial fn) ->
  exists i' nd', v' = VO i' /\ lookup h2 i' = Some nd' /\ hd nd' = hd nd /\ Forall2 (vrel2 h h2 M) (kids nd) (kids nd').
Proof.
  intros [_ Bs] i v' nd Hv Hl Hnp. inversion Hv as [|j j' Hin|j j' fn ks ks' Hl1 Hl2 _]; subst.
  - destruct (Bs _ _ Hin) as (n & n' & H1 & H2 & H3 & H4). rewrite Hl in H1. inversion H1; subst n.
    exists j', n'. repeat split; auto.
  - rewrite Hl in Hl1. inversion Hl1; subst nd. exfalso. exact (Hnp fn eq_refl).
Qed.

Lemma vrel_true_prim h M p v' : vrel true h M (VP p) v' -> v' = VP p.
Proof. intro H. inversion H. reflexivity. Qed.

Lemma vrel_true_obj h r h' r' M : bisim true h r h' r' M ->
  forall i v' nd, vrel true h M (VO i) v' -> lookup h i = Some nd -> (forall fn, hd nd <> HPartial fn) ->
  exists i' nd', v' = VO i' /\ lookup h' i' = Some nd' /\ hd nd' = hd nd /\ Forall2 (vrel true h M) (kids nd) (kids nd').
Proof.
  intros [_ Bs] i v' nd Hv Hl Hnp. inversion Hv as [|j j' Hin|j n fn _ Hl2 Hp]; subst.
  - destruct (Bs _ _ Hin) as (n & n' & H1 & H2 & H3 & H4). rewrite Hl in H1. inversion H1; subst n.
    exists j', n'. repeat split; auto.
  - rewrite Hl in Hl2. inversion Hl2; subst n. exfalso. exact (Hnp fn Hp).
Qed.

(* the abstract interpreter state read off a State object is the same before and after
   save/restore; hence the clean-up of the restored state = the clean-up of the live state *)
Theorem alpha_restored ts fl C h rk limit s a :
  fx_action fl = true -> late_tags_free C ->
  supported fl C h (VO s) = true -> acyclic h rk -> (rank_of rk (VO s) < limit)%nat ->
  state_hyps h s = true ->
  alpha ts h (VO s) = Some a ->
  exists j h2 s',
    encode fl limit h (VO s) = Some j /\ json_to_state fl C limit j = Some (h2, VO s') /\
    alpha ts h2 (VO s') = Some a /\
    forall c now, option_map (cleanup c now) (alpha ts h2 (VO s')) = option_map (cleanup c now) (alpha ts h (VO s)).
Proof.
  intros Ha Hl Hs Hac Hr Hh Hal.
  destruct (state_roundtrip_b fl C h rk limit s Ha Hl Hs Hac Hr Hh) as (j & h2 & s' & M & W0 & He & Hj & Hb & _).
  assert (Hal2 : alpha ts h2 (VO s') = Some a).
  { eapply (alpha_invariant ts h h2 (vrel2 h h2 M)); [apply vrel2_prim|eapply vrel2_obj; eauto|apply Hb|exact Hal]. }
  exists j, h2, s'. split; [exact He|]. split; [exact Hj|]. split; [exact Hal2|].
  intros c now. now rewrite Hal2, Hal.
Qed.

(* the same for the plain graph round trip (decode_from_dict o encode_to_dict) *)
Theorem alpha_decoded ts fl C h rk limit r a :
  fx_action fl = true -> late_tags_free C ->
  supported fl C h r = true -> acyclic h rk -> (rank_of rk r < limit)%nat ->
  alpha ts h r = Some a ->
  exists j h' r', encode fl limit h r = Some j /\ decode fl C limit j = Some (h', r') /\ alpha ts h' r' = Some a.
Proof.
  intros Ha Hl Hs Hac Hr Hal.
  destruct (roundtrip_graph fl C h r rk limit Ha Hl Hs Hac Hr) as (j & h' & r' & M & He & Hd & Hb & _).
  exists j, h', r'. split; [exact He|]. split; [exact Hd|].
  eapply (alpha_invariant ts h h' (vrel true h M)); [apply vrel_true_prim|eapply vrel_true_obj; eauto|apply Hb|exact Hal].
Qed.
