(* C07 - non-vacuity: the hypotheses of the property theorems are inhabited by non-trivial
   groups and event sequences (nested and/or, an atom shared by two alternatives, an
   irrelevant event 9 and repeated events). *)
From Coq Require Import List Bool Arith Permutation.
From NG Require Import V2.Dnf V2.Dnf_proofs V2.Groups V2.Groups_proofs.
Import ListNotations.

(* (0 or 1) and (2 or (3 and 4)) : four alternatives after normalisation *)
Definition ex_f : formula nat := And [Or [Atom 0; Atom 1]; Or [Atom 2; And [Atom 3; Atom 4]]].

Example ex_dnf :
  normalize ex_f = Some (Or [And [Atom 0; Atom 2]; And [Atom 0; Atom 3; Atom 4];
                             And [Atom 1; Atom 2]; And [Atom 1; Atom 3; Atom 4]])
  /\ eval (fun a => Nat.eqb a 1 || Nat.eqb a 3 || Nat.eqb a 4) ex_f = true
  /\ eval (fun a => Nat.eqb a 1 || Nat.eqb a 3) ex_f = false.
Proof. repeat split. Qed.

(* hypothesis of the protocol theorems holds, and the run is non-trivial: irrelevant event 9,
   event 3 repeated, completion exactly when 4 arrives (received {3,1,4} satisfies 1 and (3 and 4)) *)
Example ex_first_moment :
  eval (fun _ => false) ex_f = false
  /\ run Nat.eqb SMatch ex_f [3; 9; 3; 1; 4; 0; 2] = OAt 5
  /\ first_sat Nat.eqb ex_f [3; 9; 3; 1; 4; 0; 2] = OAt 5
  /\ run Nat.eqb SMatch ex_f [3; 9; 3; 1] = ONever.
Proof. repeat split. Qed.

(* another arrival order of the same events completes as well (at another step) *)
Example ex_order :
  Permutation [3; 9; 3; 1; 4] [4; 1; 3; 3; 9]
  /\ run Nat.eqb SMatch ex_f [3; 9; 3; 1; 4] = OAt 5
  /\ run Nat.eqb SMatch ex_f [4; 1; 3; 3; 9] = OAt 3.
Proof.
  repeat split.
  apply Permutation_cons_app with (l1 := [4; 1]) (l2 := [3; 9]). simpl.
  apply Permutation_cons_app with (l1 := [4; 1; 3]) (l2 := []). simpl.
  apply Permutation_cons_app with (l1 := [4; 1]) (l2 := []). simpl.
  apply Permutation_cons_app with (l1 := [4]) (l2 := []). simpl.
  apply Permutation_refl.
Qed.

(* an ignored event: 9 matches no atom; the second 3 matches only an atom already received *)
Example ex_ignored :
  (forall a, In a (atoms ex_f) -> Nat.eqb a 9 = true -> received Nat.eqb [3] a = true)
  /\ (forall a, In a (atoms ex_f) -> Nat.eqb a 3 = true -> received Nat.eqb [3; 9] a = true)
  /\ run Nat.eqb SMatch ex_f ([3] ++ 9 :: [1; 4]) = shift_after 1 (run Nat.eqb SMatch ex_f ([3] ++ [1; 4])).
Proof.
  repeat split.
  - intros a Ha H9. simpl in Ha. repeat (destruct Ha as [<-|Ha]; [discriminate|]). contradiction.
  - intros a Ha H3. apply Nat.eqb_eq in H3. subst. reflexivity.
Qed.

(* await / when : atoms are flows, step e finishes the instances of flow e *)
Example ex_await_when :
  run Nat.eqb SAwait ex_f [2; 9; 2; 1; 0] = OAt 4
  /\ run Nat.eqb SWhen ex_f [2; 9; 2; 1; 0] = OAt 4
  /\ compile SWhen (And [Atom 0; Atom 1]) = Some (POr [BAnd [0; 1] 2])
  /\ compile SAwait (And [Atom 0; Atom 1]) = Some (PSingle (BAnd [0; 1] 2)).
Proof. repeat split. Qed.

(* ---------- failure side / several `when` cases ---------- *)
From NG Require Import V2.GroupsFail V2.GroupsFail_proofs.

(* when (f0 and f1) or f2 ... or when f2 and f3 : hypotheses of C07_cases_fail are inhabited,
   members fail and finish interleaved *)
Definition ex_cases : list (formula nat) := [Or [And [Atom 0; Atom 1]; Atom 2]; And [Atom 2; Atom 3]].

Example ex_cases_fail :
  stmt_ok nat SWhen ex_cases /\ ex_cases <> []
  /\ (forall f, In f ex_cases -> eval (fun _ => false) f = false)
  /\ (forall f, In f ex_cases -> eval (fun _ => true) f = true)
  (* f2 stopped, f0 finishes, f3 stopped (case 1 dead), f1 finishes -> case 0 *)
  /\ frun ex_mt ex_fl SWhen ex_cases [(2, false); (0, true); (3, false); (1, true)] = FoDone 4 [0]
  (* f2 stopped, f0 stopped -> every alternative of every case has a failed member *)
  /\ frun ex_mt ex_fl SWhen ex_cases [(2, false); (0, false); (1, true)] = FoFail 2
  (* f3 then f2 finish -> both cases hold in step 2 *)
  /\ frun ex_mt ex_fl SWhen ex_cases [(3, true); (2, true)] = FoDone 2 [0; 1].
Proof.
  split; [left; reflexivity|]. split; [discriminate|].
  split; [intros f [<-|[<-|[]]]; reflexivity|].
  split; [intros f [<-|[<-|[]]]; reflexivity|].
  repeat split.
Qed.
