(* C11 - theorems about _clean_up_state with the constants of the CURRENT source
   (cfg_now / cleanup_now are defined in V2/CleanupRun.v so that the model runs even if a proof breaks).

   The removal condition of the source is `rm cfg_now now s u i`: the instance is done, old
   enough, not activated (removable) AND its uid is not the parent_uid of a flow state that is
   still running or activated (needed_parents, computed from the state before the removal loop).
   The generic theorems of Cleanup_proofs / Cleanup_clock are about `cleanup_gen c P` for a removal
   condition P fixed before the loop; here they are instantiated with P := rm cfg_now now s. *)
From Coq Require Import ZArith List String Bool Lia.
From NG Require Import Gen.C11Consts V2.Cleanup V2.Cleanup_proofs V2.Cleanup_clock V2.CleanupRun.
Import ListNotations.
Open Scope string_scope.
Open Scope Z_scope.

Lemma cleanup_now_unfold now s : cleanup_now now s = cleanup_gen cfg_now (rm cfg_now now s) s.
Proof. reflexivity. Qed.

Lemma removable_core c now a b : core_eq a b -> removable c now a = removable c now b.
Proof. intros (_ & E2 & E3 & E4 & _). unfold removable, is_done, old_enough. now rewrite E2, E3, E4. Qed.

Lemma rm_core c now pre : core_pred (rm c now pre).
Proof. intros u a b H. unfold rm. now rewrite (removable_core c now a b H). Qed.

Lemma filter_ext_in' {A} (f g : A -> bool) (l : list A) : (forall x, f x = g x) -> filter f l = filter g l.
Proof. intro H. induction l as [|x r IH]; simpl; [reflexivity|]. rewrite H, IH. reflexivity. Qed.

Lemma cleanup_gen_ext c P P' s : (forall u i, P u i = P' u i) -> cleanup_gen c P s = cleanup_gen c P' s.
Proof.
  intro H. unfold cleanup_gen, to_remove_gen.
  rewrite (filter_ext_in' (fun kv => P (fst kv) (snd kv)) (fun kv => P' (fst kv) (snd kv))); [reflexivity|].
  intros [u i]. apply H.
Qed.

(* ---- needed_parent_uids *)
Lemma needed_spec c s u :
  smem u (needed_parents c s) = true <->
  exists v iv, In (v, iv) (flows s) /\ keeps_parent c iv = true /\ i_parent iv = Some u.
Proof.
  rewrite smem_in. unfold needed_parents. rewrite in_flat_map. split.
  - intros ([v iv] & Hin & Hx). simpl in Hx. destruct (keeps_parent c iv) eqn:E; [|contradiction].
    destruct (i_parent iv) as [p|] eqn:Ep; [|contradiction]. destruct Hx as [<-|[]]. exists v, iv. auto.
  - intros (v & iv & Hin & Hk & Hp). exists (v, iv). split; [exact Hin|]. simpl. rewrite Hk, Hp. now left.
Qed.

Lemma keeps_core c a b : core_eq a b -> keeps_parent c a = keeps_parent c b.
Proof. intros (_ & E2 & _ & E4 & _). unfold keeps_parent, is_done. now rewrite E2, E4. Qed.

(* an instance that keeps its parent alive is itself never removable: it is running or activated *)
Lemma keeps_not_removable c now i :
  needs_done c = true -> needs_not_activated c = true -> keeps_parent c i = true -> removable c now i = false.
Proof.
  intros Hd Ha Hk. unfold removable, keeps_parent in *. rewrite Hd, Ha.
  apply orb_true_iff in Hk as [Hk|Hk]; apply negb_true_iff in Hk; rewrite Hk; [reflexivity|].
  now rewrite andb_false_r.
Qed.

(* the needed parents are the same before and after a clean-up *)
Lemma needed_agree c P s s' :
  core_pred P -> NoDup (map fst (flows s)) -> cleanup_gen c P s = Some s' ->
  (forall v iv, keeps_parent c iv = true -> P v iv = false) ->
  forall u, smem u (needed_parents c s') = smem u (needed_parents c s).
Proof.
  intros HP Hn Hr Hkeep u.
  destruct (cleanup_frame c P HP s s' Hn Hr) as (_ & Fr & Fb & _).
  pose proof (cleanup_keys c P s s' Hn Hr) as Hn'.
  apply Bool.eq_iff_eq_true. rewrite !needed_spec. split.
  - intros (v & iv' & Hin & Hk & Hp). apply in_slook in Hin; [|exact Hn'].
    destruct (Fb v iv' Hin) as (iv & Hiv & Hnr). destruct (Fr v iv Hiv Hnr) as (iv2 & Hiv2 & Hf).
    rewrite Hin in Hiv2. inversion Hiv2; subst iv2. pose proof (frame_core_eq _ _ _ Hf) as Hc.
    exists v, iv. split; [now apply slook_in|]. split; [rewrite <- (keeps_core c _ _ Hc); exact Hk|].
    destruct Hc as (_ & _ & _ & _ & E5). congruence.
  - intros (v & iv & Hin & Hk & Hp). apply in_slook in Hin; [|exact Hn].
    destruct (Fr v iv Hin (Hkeep v iv Hk)) as (iv' & Hiv' & Hf). pose proof (frame_core_eq _ _ _ Hf) as Hc.
    exists v, iv'. split; [now apply slook_in|]. split; [rewrite (keeps_core c _ _ Hc); exact Hk|].
    destruct Hc as (_ & _ & _ & _ & E5). congruence.
Qed.

Lemma rm_keeps now s : forall v iv, keeps_parent cfg_now iv = true -> rm cfg_now now s v iv = false.
Proof.
  intros v iv Hk. unfold rm. rewrite (keeps_not_removable cfg_now now iv eq_refl eq_refl Hk). reflexivity.
Qed.

(* the removal condition computed from the cleaned state agrees with the one of the pre-state *)
Lemma rm_agree now now' s s' :
  NoDup (map fst (flows s)) -> cleanup_now now s = Some s' ->
  forall u i, rm cfg_now now' s' u i = rm cfg_now now' s u i.
Proof.
  intros Hn Hr u i. unfold rm.
  rewrite (needed_agree cfg_now (rm cfg_now now s) s s' (rm_core _ _ _) Hn Hr (rm_keeps now s) u). reflexivity.
Qed.

(* ---- what is removed *)
Lemma rm_meaning now s u i :
  rm cfg_now now s u i = true ->
  (i_status i = "FINISHED" \/ i_status i = "STOPPED") /\ i_activated i = 0 /\
  cleanup_age_s * 1000000 < now - i_updated i /\
  (forall v iv, In (v, iv) (flows s) -> i_parent iv = Some u ->
     (i_status iv = "FINISHED" \/ i_status iv = "STOPPED") /\ i_activated iv = 0).
Proof.
  unfold rm. intro H. apply andb_true_iff in H as [H1 H2].
  destruct (removable_meaning _ _ _ _ now i H1) as (A & B & C'). split; [exact A|]. split; [exact B|]. split; [exact C'|].
  intros v iv Hin Hp. change (needs_unneeded cfg_now) with cleanup_needs_unneeded in H2.
  assert (Hnn : smem u (needed_parents cfg_now s) = false).
  { revert H2. unfold cleanup_needs_unneeded. intro H2. now apply negb_true_iff in H2. }
  destruct (keeps_parent cfg_now iv) eqn:Ek.
  - exfalso. assert (smem u (needed_parents cfg_now s) = true) by (apply needed_spec; eauto). congruence.
  - unfold keeps_parent in Ek. apply orb_false_iff in Ek as [E1 E2].
    apply negb_false_iff in E1, E2. apply Z.eqb_eq in E2. split; [|exact E2].
    unfold is_done, smem in E1. simpl in E1.
    apply orb_true_iff in E1 as [E1|E1]; [left; now apply String.eqb_eq|].
    apply orb_true_iff in E1 as [E1|E1]; [right; now apply String.eqb_eq|discriminate].
Qed.

Lemma only_done_now now s s' :
  NoDup (map fst (flows s)) -> cleanup_now now s = Some s' ->
  (forall u i, slook (flows s) u = Some i -> slook (flows s') u = None ->
     (i_status i = "FINISHED" \/ i_status i = "STOPPED") /\ i_activated i = 0 /\
     cleanup_age_s * 1000000 < now - i_updated i /\
     (forall v iv, In (v, iv) (flows s) -> i_parent iv = Some u ->
        (i_status iv = "FINISHED" \/ i_status iv = "STOPPED") /\ i_activated iv = 0)) /\
  (forall a x, slook (actions s) a = Some x -> slook (actions s') a = None ->
     forall u i, In (u, i) (flows s') -> ~ In a (i_actions i)).
Proof.
  intros Hd Hr. destruct (cleanup_only_done cfg_now _ (rm_core _ now s) s s' Hd Hr) as [H1 H2]. split; [|exact H2].
  intros u i Hi Hn. exact (rm_meaning now s u i (H1 u i Hi Hn)).
Qed.

Lemma frame_now now s s' :
  NoDup (map fst (flows s)) -> cleanup_now now s = Some s' ->
  s_rest s' = s_rest s /\
  (forall u i, slook (flows s) u = Some i -> rm cfg_now now s u i = false ->
     exists i', slook (flows s') u = Some i' /\ frame_rel (fun x => slook (flows s') x = None) i i') /\
  (forall u i', slook (flows s') u = Some i' ->
     exists i, slook (flows s) u = Some i /\ rm cfg_now now s u i = false) /\
  (forall a x, slook (actions s') a = Some x -> slook (actions s) a = Some x) /\
  (forall u i a, In (u, i) (flows s') -> In a (i_actions i) -> slook (actions s') a <> None) /\
  (forall f l', slook (by_flow s') f = Some l' ->
     exists l, slook (by_flow s) f = Some l /\ (forall x, In x l' -> In x l) /\
               (forall x, In x l -> ~ In x l' -> slook (flows s') x = None)) /\
  (forall f l, slook (by_flow s) f = Some l -> exists l', slook (by_flow s') f = Some l').
Proof. intros Hd Hr. exact (cleanup_frame cfg_now _ (rm_core _ now s) s s' Hd Hr). Qed.

Lemma idempotent_now now s s' :
  NoDup (map fst (flows s)) -> cleanup_now now s = Some s' -> cleanup_now now s' = Some s'.
Proof.
  intros Hd Hr. rewrite cleanup_now_unfold.
  rewrite (cleanup_gen_ext cfg_now (rm cfg_now now s') (rm cfg_now now s) s' (rm_agree now now s s' Hd Hr)).
  exact (cleanup_idempotent cfg_now _ (rm_core _ now s) s s' Hd Hr).
Qed.

Lemma candidates_now now s s' (ix : index) :
  NoDup (map fst (flows s)) -> cleanup_now now s = Some s' ->
  (forall name es e, slook ix name = Some es -> In e es ->
     exists i, slook (flows s) (fst e) = Some i /\ is_done cfg_now i = false /\ slook (i_heads i) (snd e) <> None) ->
  forall name,
    Forall2 (fun a b => exists fu hu i i', a = Some (fu, hu, i) /\ b = Some (fu, hu, i') /\
                                           frame_rel (fun x => slook (flows s') x = None) i i')
            (candidates ix s name) (candidates ix s' name).
Proof.
  intros Hd Hr Hix. apply (cleanup_candidates cfg_now _ (rm_core _ now s) s s' Hd Hr ix).
  intros name es e He Hin. destruct (Hix name es e He Hin) as (i & Hi & Hdn & Hh). exists i. split; [exact Hi|]. split; [|exact Hh].
  unfold rm, removable. change (needs_done cfg_now) with cleanup_needs_done. unfold cleanup_needs_done. now rewrite Hdn.
Qed.

(* the reference closure (with the per-flow listing) is an invariant of the clean-up; on such
   states the clean-up never raises *)
Definition refs_ok (s : state) : Prop :=
  NoDup (map fst (flows s)) /\ closed_refs s /\ listed_by_flow s.

Lemma refs_okb_ok s : refs_okb s = true -> refs_ok s.
Proof. exact (refs_okb_sound s). Qed.

Example ex_state_refs_ok : refs_ok ex_state.
Proof. apply refs_okb_ok. vm_compute. reflexivity. Qed.

Lemma refs_ok_preserved now s s' : refs_ok s -> cleanup_now now s = Some s' -> refs_ok s'.
Proof.
  intros (Hn & Hc & Hl) Hr. split; [exact (cleanup_keys _ _ _ _ Hn Hr)|]. split.
  - exact (cleanup_preserves_closed cfg_now _ (rm_core _ now s) s s' Hn Hr eq_refl eq_refl Hc).
  - exact (cleanup_preserves_listed _ _ _ _ (rm_core _ now s) Hn Hr Hl).
Qed.

Lemma total_now now s : refs_ok s -> exists s', cleanup_now now s = Some s'.
Proof. intros (Hn & Hc & Hl). exact (cleanup_total cfg_now _ s Hn Hc Hl). Qed.

Lemma lookups_now now s s' :
  refs_ok s -> cleanup_now now s = Some s' ->
  forall u i i', slook (flows s) u = Some i -> slook (flows s') u = Some i' ->
    (forall x, In x (i_children i') ->
       exists ix ix', slook (flows s) x = Some ix /\ slook (flows s') x = Some ix' /\
                      frame_rel (fun y => slook (flows s') y = None) ix ix') /\
    (forall x, In x (i_children i) -> ~ In x (i_children i') ->
       exists ix, slook (flows s) x = Some ix /\ rm cfg_now now s x ix = true /\ slook (flows s') x = None) /\
    (forall k l' x, slook (i_scopes i') k = Some l' -> In x l' ->
       exists ix ix', slook (flows s) x = Some ix /\ slook (flows s') x = Some ix' /\
                      frame_rel (fun y => slook (flows s') y = None) ix ix') /\
    (forall a, In a (i_actions i') -> exists act, slook (actions s) a = Some act /\ slook (actions s') a = Some act).
Proof.
  intros (Hn & Hc & _) Hr. exact (cleanup_lookups cfg_now _ (rm_core _ now s) s s' Hn Hr eq_refl eq_refl Hc).
Qed.

Lemma rm_mono t1 t2 s u i : t1 <= t2 -> rm cfg_now t1 s u i = true -> rm cfg_now t2 s u i = true.
Proof.
  intros Ht H. unfold rm in *. apply andb_true_iff in H as [H1 H2]. rewrite H2.
  rewrite (removable_mono cfg_now t1 t2 i eq_refl Ht H1). reflexivity.
Qed.

Lemma later_clock_now t1 t2 s s1 s12 s2 :
  t1 <= t2 -> refs_ok s ->
  cleanup_now t1 s = Some s1 -> cleanup_now t2 s1 = Some s12 -> cleanup_now t2 s = Some s2 ->
  (forall u, slook (flows s12) u = None <-> slook (flows s2) u = None) /\
  (forall u i12 i2, slook (flows s12) u = Some i12 -> slook (flows s2) u = Some i2 ->
     (i_flow i12 = i_flow i2 /\ i_status i12 = i_status i2 /\ i_updated i12 = i_updated i2 /\
      i_activated i12 = i_activated i2 /\ i_parent i12 = i_parent i2 /\ i_actions i12 = i_actions i2 /\
      i_rest i12 = i_rest i2 /\ i_heads i12 = i_heads i2 /\ map fst (i_scopes i12) = map fst (i_scopes i2)) /\
     (forall x, In x (i_children i12) <-> In x (i_children i2)) /\
     (forall k l12 l2, slook (i_scopes i12) k = Some l12 -> slook (i_scopes i2) k = Some l2 ->
                       forall x, In x l12 <-> In x l2)) /\
  (forall a, slook (actions s12) a = slook (actions s2) a) /\
  (forall f l12 l2, slook (by_flow s12) f = Some l12 -> slook (by_flow s2) f = Some l2 -> forall x, In x l12 <-> In x l2) /\
  s_rest s12 = s_rest s2.
Proof.
  intros Ht (Hn & Hc & _) R1 R12 R2.
  (* the second clean-up computes its needed parents from s1: the same condition as from s *)
  rewrite cleanup_now_unfold in R12.
  rewrite (cleanup_gen_ext cfg_now (rm cfg_now t2 s1) (rm cfg_now t2 s) s1 (rm_agree t1 t2 s s1 Hn R1)) in R12.
  rewrite cleanup_now_unfold in R1, R2.
  pose proof (rm_core cfg_now t1 s) as HP1. pose proof (rm_core cfg_now t2 s) as HP2.
  pose proof (fun u i => rm_mono t1 t2 s u i Ht) as Hm.
  split; [|split; [|split; [|split]]].
  - intro u. exact (later_same_domain cfg_now _ _ HP1 HP2 Hm s s1 s12 s2 Hn R1 R12 R2 u).
  - intros u i12 i2 H1 H2. split.
    + exact (later_same_instance cfg_now _ _ HP1 HP2 s s1 s12 s2 Hn R1 R12 R2 u i12 i2 H1 H2).
    + exact (later_same_lists cfg_now _ _ HP1 HP2 Hm s s1 s12 s2 Hn R1 R12 R2 u i12 i2 eq_refl eq_refl Hc H1 H2).
  - intro a. exact (later_same_actions cfg_now _ _ HP1 HP2 Hm s s1 s12 s2 Hn R1 R12 R2 a).
  - exact (later_same_by_flow cfg_now _ _ s s1 s12 s2 HP1 HP2 Hm Hn R1 R12 R2 eq_refl eq_refl Hc).
  - exact (later_same_rest cfg_now _ _ HP1 HP2 s s1 s12 s2 Hn R1 R12 R2).
Qed.

(* the hypotheses are inhabited: the example of Cleanup.v under the constants of the source *)
Example cleanup_now_example :
  exists s', cleanup_now 10000000 ex_state = Some s' /\ slook (flows s') "a1" = None /\
             slook (flows s') "b1" <> None /\ slook (actions s') "act2" = None.
Proof. eexists. split; [vm_compute; reflexivity|]. repeat split; vm_compute; congruence. Qed.

(* an ended flow that is the parent of a running flow is kept, however old *)
Definition ex_parent_state : state :=
  mkState
    [ ("p", mkInst "p" "FINISHED" 0 0 None [] [] [] [] 0);
      ("c", mkInst "c" "STARTED" 0 0 (Some "p") [] [] [] [] 1);
      ("q", mkInst "q" "FINISHED" 0 0 None [] [] [] [] 2) ]
    [ ("p", ["p"]); ("c", ["c"]); ("q", ["q"]) ] [] 0.

Example needed_parent_kept :
  exists s', cleanup_now 100000000 ex_parent_state = Some s' /\
             slook (flows s') "p" <> None /\ slook (flows s') "q" = None.
Proof. eexists. split; [vm_compute; reflexivity|]. split; vm_compute; congruence. Qed.
