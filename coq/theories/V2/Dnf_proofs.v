(* C07 - proofs about the DNF normaliser (model in Dnf.v).
   Main results:
     normalize_nf      : normalize f = Some (dnf (nf f))        (never raises; exact result)
     nf_eval           : eval_dnf s (nf f) = eval s f
     normalize_equiv   : normalize f = Some d -> eval s d = eval s f
     normalize_shape   : normalize f = Some d -> d is an Or of Ands of Atoms *)
From Coq Require Import List Bool Lia.
From NG Require Import V2.Dnf.
Import ListNotations.

Section Proofs.
  Variable A : Type.
  Notation formula := (formula A).

  (* ---------- small list facts ---------- *)
  Lemma mapM_some {X Y} (k : X -> option Y) (g : X -> Y) l :
    Forall (fun x => k x = Some (g x)) l -> mapM k l = Some (map g l).
  Proof.
    induction 1 as [|x xs Hx _ IH]; simpl; [reflexivity|].
    rewrite Hx. simpl. rewrite IH. reflexivity.
  Qed.

  Lemma flat_map_map {X Y Z} (g : X -> Y) (h : Y -> list Z) l :
    flat_map h (map g l) = flat_map (fun x => h (g x)) l.
  Proof. induction l as [|x xs IH]; simpl; [reflexivity|]. now rewrite IH. Qed.

  Lemma map_flat_map {X Y Z} (g : Y -> Z) (h : X -> list Y) l :
    map g (flat_map h l) = flat_map (fun x => map g (h x)) l.
  Proof. induction l as [|x xs IH]; simpl; [reflexivity|]. now rewrite map_app, IH. Qed.

  Lemma flat_map_ext_Forall {X Y} (g h : X -> list Y) l :
    Forall (fun x => g x = h x) l -> flat_map g l = flat_map h l.
  Proof. induction 1 as [|x xs Hx _ IH]; simpl; [reflexivity|]. now rewrite Hx, IH. Qed.

  Lemma flat_map_singleton {X} (l : list X) : flat_map (fun x => [x]) l = l.
  Proof. induction l as [|x xs IH]; simpl; [reflexivity|]. now rewrite IH. Qed.

  Lemma concat_map_flat_map {X Y} (g : X -> list Y) l : concat (map g l) = flat_map g l.
  Proof. induction l as [|x xs IH]; simpl; [reflexivity|]. now rewrite IH. Qed.

  (* ---------- the Python-level operations on well-shaped data ---------- *)

  (* or-flattening leaves a list of and-groups unchanged *)
  Lemma flatten_conjs (alts : list (list A)) :
    flat_map (fun elem : formula => match elem with Or l' => l' | _ => [elem] end) (map conjf alts)
    = map conjf alts.
  Proof.
    induction alts as [|c cs IH]; simpl; [reflexivity|]. now rewrite IH.
  Qed.

  Lemma distribute_conjs (xs ys : list (list A)) :
    distribute (map conjf xs) (map conjf ys) = Some (map conjf (cross xs ys)).
  Proof.
    unfold distribute.
    rewrite (mapM_some _ (fun r : formula =>
                            match r with
                            | And re => map (fun y => And (re ++ map Atom y)) ys
                            | _ => []
                            end)).
    - simpl. f_equal. rewrite map_map, concat_map_flat_map. unfold cross.
      rewrite map_flat_map. apply flat_map_ext_Forall. apply Forall_forall. intros x _.
      unfold conjf. rewrite map_map. apply map_ext. intros y. now rewrite map_app.
    - apply Forall_forall. intros r Hr. apply in_map_iff in Hr. destruct Hr as [x [<- _]].
      unfold conjf at 2.
      rewrite (mapM_some _ (fun n : formula =>
                              match n with
                              | And ne => And (map Atom x ++ ne)
                              | _ => n
                              end)).
      + now rewrite map_map.
      + apply Forall_forall. intros n Hn. apply in_map_iff in Hn. destruct Hn as [y [<- _]].
        reflexivity.
  Qed.

  (* the loop of the spec_and branch, started from well-shaped results *)
  Lemma norm_and_fold (rec : formula -> option formula) (l : list formula) :
    Forall (fun e => match e with
                     | Atom _ => True
                     | _ => rec e = Some (dnf (nf e))
                     end) l ->
    forall acc,
      fold_left
        (fun (acc : option (list formula)) elem =>
           bind acc (fun results =>
           bind (match elem with
                 | Atom _ => Some (Or [And [elem]])
                 | _ => rec elem
                 end) (fun normalized =>
           bind (elements normalized) (fun norm_elems =>
           distribute results norm_elems))))
        l (Some (map conjf acc))
      = Some (map conjf (fold_left (fun acc e => cross acc (nf e)) l acc)).
  Proof.
    induction 1 as [|e es He _ IH]; intros acc; simpl; [reflexivity|].
    assert (Hn : match e with
                 | Atom _ => Some (Or [And [e]])
                 | _ => rec e
                 end = Some (dnf (nf e))).
    { destruct e; [reflexivity | exact He | exact He]. }
    rewrite Hn. simpl. rewrite distribute_conjs. apply IH.
  Qed.

  Lemma norm_and_nf (rec : formula -> option formula) (l : list formula) :
    Forall (fun e => match e with
                     | Atom _ => True
                     | _ => rec e = Some (dnf (nf e))
                     end) l ->
    norm_and rec l = Some (dnf (nf (And l))).
  Proof.
    intros H. unfold norm_and.
    change (Some [And (@nil formula)]) with (Some (map (@conjf A) [[]])).
    rewrite (norm_and_fold rec l H). simpl. unfold flatten_or. simpl.
    rewrite flatten_conjs. reflexivity.
  Qed.

  (* the normaliser never raises and computes exactly the DNF by distribution *)
  Theorem normalize_nf : forall f : formula, normalize f = Some (dnf (nf f)).
  Proof.
    induction f as [a | l IH | l IH] using formula_ind'.
    - reflexivity.
    - simpl. apply norm_and_nf. eapply Forall_impl; [|exact IH].
      intros e He. destruct e; auto.
    - simpl.
      rewrite (mapM_some _ (fun e : formula => match e with
                                               | Atom _ => And [e]
                                               | _ => dnf (nf e)
                                               end)).
      + simpl. unfold flatten_or. simpl. f_equal. unfold dnf. f_equal.
        rewrite flat_map_map, map_flat_map. apply flat_map_ext_Forall.
        apply Forall_forall. intros e _. destruct e; reflexivity.
      + eapply Forall_impl; [|exact IH]. intros e He. destruct e; auto.
  Qed.

  (* ---------- semantics ---------- *)
  Variable s : A -> bool.

  Lemma eval_conj (c : list A) : eval s (conjf c) = forallb s c.
  Proof. unfold conjf. simpl. induction c as [|a c IH]; simpl; [reflexivity|]. now rewrite IH. Qed.

  Lemma eval_dnf_ok (alts : list (list A)) : eval s (dnf alts) = eval_dnf s alts.
  Proof.
    unfold dnf, eval_dnf. cbn [eval]. induction alts as [|c cs IH]; cbn [map existsb]; [reflexivity|].
    now rewrite eval_conj, IH.
  Qed.

  Lemma eval_dnf_app (xs ys : list (list A)) :
    eval_dnf s (xs ++ ys) = eval_dnf s xs || eval_dnf s ys.
  Proof. unfold eval_dnf. apply existsb_app. Qed.

  Lemma eval_dnf_map_app (x : list A) (ys : list (list A)) :
    eval_dnf s (map (fun y => x ++ y) ys) = forallb s x && eval_dnf s ys.
  Proof.
    unfold eval_dnf. induction ys as [|y ys IHy]; simpl.
    - now rewrite andb_false_r.
    - rewrite IHy, forallb_app. now rewrite andb_orb_distrib_r.
  Qed.

  Lemma eval_dnf_cross (xs ys : list (list A)) :
    eval_dnf s (cross xs ys) = eval_dnf s xs && eval_dnf s ys.
  Proof.
    unfold cross. induction xs as [|x xs IH]; simpl; [reflexivity|].
    rewrite eval_dnf_app, IH, eval_dnf_map_app.
    change (eval_dnf s (x :: xs)) with (forallb s x || eval_dnf s xs).
    now rewrite andb_orb_distrib_l.
  Qed.

  Lemma nf_and_fold (l : list formula) :
    Forall (fun e => eval_dnf s (nf e) = eval s e) l ->
    forall acc,
      eval_dnf s (fold_left (fun acc e => cross acc (nf e)) l acc)
      = eval_dnf s acc && forallb (eval s) l.
  Proof.
    induction 1 as [|e es He _ IH]; intros acc; simpl.
    - now rewrite andb_true_r.
    - rewrite IH, eval_dnf_cross, He. now rewrite andb_assoc.
  Qed.

  Theorem nf_eval : forall f : formula, eval_dnf s (nf f) = eval s f.
  Proof.
    induction f as [a | l IH | l IH] using formula_ind'.
    - simpl. unfold eval_dnf. simpl. now rewrite andb_true_r, orb_false_r.
    - simpl. rewrite nf_and_fold by exact IH. reflexivity.
    - simpl. induction IH as [|e es He _ IHes]; simpl; [reflexivity|].
      rewrite eval_dnf_app, He, IHes. reflexivity.
  Qed.

  Theorem normalize_equiv : forall (f d : formula), normalize f = Some d -> eval s d = eval s f.
  Proof.
    intros f d H. rewrite normalize_nf in H. inversion H; subst.
    now rewrite eval_dnf_ok, nf_eval.
  Qed.

End Proofs.

(* stated with the assignment quantified last, as in Props/C07.v *)
Theorem normalize_equiv_all :
  forall (A : Type) (f : formula A) (s : A -> bool),
    exists d, normalize f = Some d /\ eval s d = eval s f.
Proof.
  intros A f s. exists (dnf (nf f)). split; [apply normalize_nf|].
  now rewrite eval_dnf_ok, nf_eval.
Qed.

Lemma mapM_atom_of (A : Type) (c : list A) : mapM atom_of (map Atom c) = Some c.
Proof. induction c as [|a c IHc]; simpl; [reflexivity|]. now rewrite IHc. Qed.

Lemma alts_of_dnf (A : Type) (alts : list (list A)) : alts_of (dnf alts) = Some alts.
Proof.
  unfold alts_of, dnf. cbn [elements bind].
  induction alts as [|c cs IH]; cbn [map mapM]; [reflexivity|].
  unfold conjf at 1. cbn [elements bind]. rewrite mapM_atom_of. cbn [bind].
  rewrite IH. reflexivity.
Qed.

(* the shape of the result: one spec_or whose elements are spec_and groups of Specs -
   exactly what _expand_match_element / _expand_await_element / _expand_when_stmt_element
   subscript:  normalized_group["elements"][i]["elements"][j] *)
Theorem normalize_shape :
  forall (A : Type) (f : formula A),
    exists alts : list (list A),
      normalize f = Some (Or (map (fun c => And (map Atom c)) alts))
      /\ alts_of (Or (map (fun c => And (map Atom c)) alts)) = Some alts.
Proof.
  intros A f. exists (nf f). split; [apply normalize_nf|]. apply alts_of_dnf.
Qed.

(* a formula that is false when nothing has been received has no empty alternative *)
Lemma nf_no_empty_alt (A : Type) (f : formula A) :
  eval (fun _ => false) f = false -> Forall (fun c => c <> []) (nf f).
Proof.
  intros H. rewrite <- nf_eval in H. unfold eval_dnf in H.
  apply Forall_forall. intros c Hc ->.
  assert (Ht : existsb (forallb (fun _ : A => false)) (nf f) = true).
  { apply existsb_exists. exists []. split; [exact Hc | reflexivity]. }
  congruence.
Qed.

(* groups with at least one element each (what the parser produces) are false on the empty set *)
Lemma wf_eval_empty (A : Type) (f : formula A) :
  wf f = true -> eval (fun _ => false) f = false.
Proof.
  induction f as [a | l IH | l IH] using formula_ind'; intros Hwf; simpl in *.
  - reflexivity.
  - destruct l as [|e es]; [discriminate|]. simpl in *.
    apply andb_true_iff in Hwf. destruct Hwf as [He _].
    inversion IH as [|? ? IHe _]; subst. now rewrite (IHe He).
  - apply andb_true_iff in Hwf. destruct Hwf as [_ Hall].
    induction IH as [|x xs Hx _ IHxs]; simpl in *; [reflexivity|].
    apply andb_true_iff in Hall. destruct Hall as [Hx' Hxs'].
    rewrite (Hx Hx'). simpl. apply IHxs. exact Hxs'.
Qed.

(* non-vacuity: a nested group whose DNF has four alternatives, and an assignment under
   which exactly the last alternative is satisfied *)
Example normalize_equiv_example :
  let f := And [Or [Atom 1; Atom 2]; Or [Atom 3; And [Atom 4; Atom 5]]] in
  let s := fun a => Nat.eqb a 2 || Nat.eqb a 4 || Nat.eqb a 5 in
  normalize f = Some (Or [And [Atom 1; Atom 3]; And [Atom 1; Atom 4; Atom 5];
                          And [Atom 2; Atom 3]; And [Atom 2; Atom 4; Atom 5]])
  /\ eval s f = true
  /\ eval (fun a => Nat.eqb a 2 || Nat.eqb a 4) f = false.
Proof. repeat split. Qed.
