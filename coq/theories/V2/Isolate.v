(* C10 part 3: error isolation in `_advance_head_front` (try/except around `slide`) and the retry
   loop of `RuntimeV2_x.process_events`.  Definitions only; proofs in Isolate_proofs.v.

   State: flow instances (uid = index in the list) with status, heads, parent, child list,
   activation count; the internal event queue.  Data (contexts, arguments, actions) is not
   modelled; `slide` is V2.Term.slide. *)
From Coq Require Import List Arith Bool Lia.
From NG Require Import V2.Term.
Import ListNotations.

Inductive fstatus := Waiting | Starting | Started | Stopping | Stopped | Finished.
Inductive hstatus := HActive | HInactive | HMerging.

Record head := { h_pos : nat; h_status : hstatus; h_catch : list label }.

Record inst := {
  i_flow : flowid;
  i_status : fstatus;
  i_heads : list head;
  i_parent : option nat;
  i_children : list nat;
  i_activated : nat;
  i_new_started : bool
}.

Inductive ievent :=
| EvColangError
| EvFlowStarted (uid : nat)
| EvFlowFinished (uid : nat)
| EvFlowFailed (uid : nat)
| EvStartFlow (f : flowid) (src : nat) (act : bool)
| EvOther (n : nat).

Record state := { insts : list inst; queue : list ievent }.

Definition listening (s : fstatus) : bool :=
  match s with Waiting | Started | Starting => true | _ => false end.
Definition is_stopping (s : fstatus) : bool := match s with Stopping => true | _ => false end.
Definition is_started (s : fstatus) : bool := match s with Started => true | _ => false end.

Definition get (st : state) (u : nat) : option inst := nth_error (insts st) u.

Fixpoint set_nth {A} (l : list A) (n : nat) (a : A) : list A :=
  match l, n with
  | [], _ => []
  | _ :: l', O => a :: l'
  | x :: l', S n' => x :: set_nth l' n' a
  end.

Definition set_inst (st : state) (u : nat) (i : inst) : state :=
  {| insts := set_nth (insts st) u i; queue := queue st |}.
Definition push (st : state) (e : ievent) : state := {| insts := insts st; queue := queue st ++ [e] |}.
Definition push_left (st : state) (e : ievent) : state := {| insts := insts st; queue := e :: queue st |}.

Definition with_status (i : inst) (s : fstatus) : inst :=
  {| i_flow := i_flow i; i_status := s; i_heads := i_heads i; i_parent := i_parent i;
     i_children := i_children i; i_activated := i_activated i; i_new_started := i_new_started i |}.
Definition with_heads (i : inst) (hs : list head) : inst :=
  {| i_flow := i_flow i; i_status := i_status i; i_heads := hs; i_parent := i_parent i;
     i_children := i_children i; i_activated := i_activated i; i_new_started := i_new_started i |}.
Definition with_children (i : inst) (cs : list nat) : inst :=
  {| i_flow := i_flow i; i_status := i_status i; i_heads := i_heads i; i_parent := i_parent i;
     i_children := cs; i_activated := i_activated i; i_new_started := i_new_started i |}.
Definition with_new_started (i : inst) (b : bool) : inst :=
  {| i_flow := i_flow i; i_status := i_status i; i_heads := i_heads i; i_parent := i_parent i;
     i_children := i_children i; i_activated := i_activated i; i_new_started := b |}.

Definition remove_nat (x : nat) (l : list nat) : list nat := filter (fun y => negb (Nat.eqb x y)) l.

(* _is_child_activated_flow *)
Definition child_activated (st : state) (c : inst) : bool :=
  Nat.ltb 0 (i_activated c) &&
  match i_parent c with
  | Some p => match get st p with Some pi => Nat.eqb (i_flow c) (i_flow pi) | None => false end
  | None => false
  end.

(* _abort_flow (the reference-count bookkeeping of `deactivate_flow` is reduced to "no restart") *)
Fixpoint abort (fuel : nat) (st : state) (u : nat) (deact restart : bool) {struct fuel} : option state :=
  match fuel with
  | O => None
  | S f =>
    match get st u with
    | None => Some st
    | Some i =>
      if negb (listening (i_status i)) && negb (is_stopping (i_status i)) then Some st
      else
        match (fix kids (ks : list nat) (s : state) {struct ks} : option state :=
                 match ks with
                 | [] => Some s
                 | c :: ks' =>
                     match get s c with
                     | None => kids ks' s
                     | Some ci =>
                         if child_activated s ci then kids ks' s
                         else match abort f s c true true with
                              | None => None
                              | Some s' => kids ks' s'
                              end
                     end
                 end) (i_children i) st with
        | None => None
        | Some s1 =>
          match get s1 u with
          | None => Some s1
          | Some i1 =>
            let s2 := set_inst s1 u (with_heads i1 []) in
            let s3 := if Nat.eqb (i_activated i1) 0 then
                        match i_parent i1 with
                        | Some p => match get s2 p with
                                    | Some pi => set_inst s2 p (with_children pi (remove_nat u (i_children pi)))
                                    | None => s2
                                    end
                        | None => s2
                        end
                      else s2 in
            match get s3 u with
            | None => Some s3
            | Some i3 =>
              let s4 := push (set_inst s3 u (with_status i3 Stopped)) (EvFlowFailed u) in
              if negb deact && restart && Nat.ltb 0 (i_activated i3) && negb (i_new_started i3) then
                match get s4 u with
                | None => Some s4
                | Some i4 =>
                  Some (set_inst (push_left s4 (EvStartFlow (i_flow i4) u true)) u (with_new_started i4 true))
                end
              else Some s4
            end
          end
        end
    end
  end.

Definition set_head (i : inst) (hidx : nat) (h : head) : inst := with_heads i (set_nth (i_heads i) hidx h).

(* the raising branch of `_advance_head_front` for head `hidx` of instance `u`:
     try: new_heads = slide(...)  except Exception: push ColangError; flow_aborted = True
     ...  _abort_flow(state, flow_state, head.matching_scores)
   `guard` = the repaired restart guard (fixes/C10-activated-abort-restart.patch): an activated
   flow that fails before it was STARTED is not restarted. *)
Definition advance (guard : bool) (prog : program) (st : state) (u hidx : nat) (orc : nat -> outcome)
  : option state :=
  match get st u with
  | None => Some st
  | Some i =>
    match nth_error (i_heads i) hidx, nth_error prog (i_flow i) with
    | Some hd, Some es =>
      if (match h_status hd with HInactive => true | _ => false end) || negb (listening (i_status i))
      then Some st
      else
        let was_started := is_started (i_status i) in
        let i_a := match i_status i with Waiting => with_status i Starting | _ => i end in
        let pos0 := match h_status hd with HActive => S (h_pos hd) | _ => h_pos hd end in
        let r := slide (length es + 1) es orc pos0 (h_catch hd) in
        let st_b := fold_left (fun s fa => push s (EvStartFlow (fst fa) u (snd fa))) (s_starts r)
                              (set_inst st u i_a) in
        match s_stop r with
        | Raised p =>
            let hd' := {| h_pos := p; h_status := h_status hd; h_catch := s_catch r |} in
            let st_c := push (set_inst st_b u (set_head i_a hidx hd')) EvColangError in
            abort (S (length (insts st))) st_c u false (if guard then was_started else true)
        | Aborted =>
            let hd' := {| h_pos := length es; h_status := h_status hd; h_catch := s_catch r |} in
            let st_c := set_inst st_b u (with_status (set_head i_a hidx hd') Stopping) in
            abort (S (length (insts st))) st_c u false (if guard then was_started else true)
        | Blocked p =>
            let hd' := {| h_pos := p; h_status := h_status hd; h_catch := s_catch r |} in
            Some (set_inst st_b u (set_head i_a hidx hd'))
        | Forked p ts =>
            let hd' := {| h_pos := p; h_status := HInactive; h_catch := s_catch r |} in
            let news := map (fun t => {| h_pos := t; h_status := HActive; h_catch := s_catch r |}) ts in
            Some (set_inst st_b u (with_heads (set_head i_a hidx hd') (i_heads (set_head i_a hidx hd') ++ news)))
        | Ended =>
            let hd' := {| h_pos := length es; h_status := HInactive; h_catch := s_catch r |} in
            Some (push (set_inst st_b u (with_status (set_head i_a hidx hd') Finished)) (EvFlowFinished u))
        | OutOfFuel => None
        end
    | _, _ => Some st
    end
  end.

(* what an instance contributes to event dispatch: its status and heads (positions, status) *)
Definition control (i : inst) := (i_flow i, i_status i, i_heads i, i_parent i, i_activated i, i_new_started i).

(* descendants in the child relation of a state *)
Inductive reach (st : state) (u : nat) : nat -> Prop :=
| reach_refl : reach st u u
| reach_step : forall x c i, reach st u x -> get st x = Some i -> In c (i_children i) -> reach st u c.

(* ------------------------------------------------------------------------------------------ *)
(* The retry loop of process_events:
      new_event = event
      while new_event is not None:
          try: run_to_completion(state, new_event); new_event = None
          except Exception as e: new_event = Event("ColangError", ...)                       *)
Section Retry.
  Variables (St Ev Exn : Type).
  Variable rtc : St -> Ev -> St * option Exn.
  Variable colang_error : Exn -> Ev.

  Fixpoint retry (fuel : nat) (st : St) (ev : Ev) : option St :=
    match fuel with
    | O => None
    | S f => match rtc st ev with
             | (st', None) => Some st'
             | (st', Some x) => retry f st' (colang_error x)
             end
    end.
End Retry.

(* a concrete run_to_completion abstraction for the retry loop: heads wait on event names, and
   evaluating the match statement of a head may raise (bad expression in the pattern).
   `catch = false`: the unchanged code - the exception leaves run_to_completion, nothing changes;
   `catch = true` : fixes/C10-match-error-isolation.patch - the faulty flow is aborted, a
                    ColangError is processed inside the same run. *)
Record mhead := { m_event : nat; m_raises : bool }.
Definition ev_colang_error : nat := 0.

Definition rtc_match (catch : bool) (hs : list mhead) (ev : nat) : list mhead * option unit :=
  let bad := existsb (fun h => Nat.eqb (m_event h) ev && m_raises h) hs in
  if bad then
    if catch then (filter (fun h => negb (Nat.eqb (m_event h) ev)) hs, None)   (* simplification: matched heads advance *)
    else (hs, Some tt)
  else (filter (fun h => negb (Nat.eqb (m_event h) ev)) hs, None).

Definition no_raising_error_handler (hs : list mhead) : Prop :=
  forall h, In h hs -> m_event h = ev_colang_error -> m_raises h = false.

(* a non-trivial state used by the Examples: main (0) activated flow 1, which has child 3; flow 2 is a
   bystander; instance 1 is about to execute `EStep; EStep` after its match *)
Definition mk_inst f s hs p cs a :=
  {| i_flow := f; i_status := s; i_heads := hs; i_parent := p; i_children := cs; i_activated := a; i_new_started := false |}.
Definition mk_head p := {| h_pos := p; h_status := HActive; h_catch := [] |}.
Definition ex_prog : program :=
  [ [EWaitInt true; EStart 1 true; EWaitInt false; EBlock BMatch];
    [EWaitInt true; EBlock BMatch; EStep; EStep; EBlock BMatch];
    [EWaitInt true; EBlock BMatch; EStep];
    [EWaitInt true; EBlock BMatch] ].
Definition ex_state : state :=
  {| insts := [ mk_inst 0 Started [mk_head 3] None [1; 2] 1;
                mk_inst 1 Started [mk_head 1] (Some 0) [3] 1;
                mk_inst 2 Started [mk_head 1] (Some 0) [] 0;
                mk_inst 3 Started [mk_head 1] (Some 1) [] 0 ];
     queue := [EvOther 7] |}.
Definition ex_orc : nat -> outcome := fun k => if Nat.eqb k 1 then ORaise else OTrue.

(* ------------------------------------------------------------------------------------------ *)
(* The matching phase of run_to_completion.  `head_candidates` is a SNAPSHOT of (instance, head)
   pairs taken before the loop; every candidate is looked up again (`flow_state.heads[head_uid]`)
   when its turn comes.  A match statement whose evaluation raises queues a ColangError and fails
   its flow - `immediate = false`: after the loop (the code of fix 3241a26), `immediate = true`:
   inside the loop (the tempting simplification).  `raises u h` = evaluating the match statement of
   head h of instance u raises. *)
Inductive mres := MOk (st : state) | MLookupError (u h : nat) | MFuel.

Fixpoint abort_all (fuel : nat) (us : list nat) (st : state) : option state :=
  match us with
  | [] => Some st
  | u :: us' =>
      match get st u with
      | Some i => if listening (i_status i)
                  then match abort fuel st u false (is_started (i_status i)) with
                       | Some st' => abort_all fuel us' st'
                       | None => None
                       end
                  else abort_all fuel us' st
      | None => abort_all fuel us' st
      end
  end.

Fixpoint match_phase (immediate : bool) (fuel : nat) (cands : list (nat * nat)) (raises : nat -> nat -> bool)
         (st : state) (errs : list nat) : mres :=
  match cands with
  | [] => match abort_all fuel (rev errs) st with Some st' => MOk st' | None => MFuel end
  | (u, h) :: cs =>
      match get st u with
      | None => MLookupError u h
      | Some i =>
          match nth_error (i_heads i) h with
          | None => MLookupError u h
          | Some _ =>
              if raises u h then
                let st1 := push st EvColangError in
                if immediate then
                  match abort fuel st1 u false (is_started (i_status i)) with
                  | Some st2 => match_phase immediate fuel cs raises st2 errs
                  | None => MFuel
                  end
                else match_phase immediate fuel cs raises st1 (u :: errs)
              else match_phase immediate fuel cs raises st errs
          end
      end
  end.

Definition cand_valid (st : state) (c : nat * nat) : Prop :=
  exists i hd, get st (fst c) = Some i /\ nth_error (i_heads i) (snd c) = Some hd.

(* an or-group: instance 1 waits with two heads for the same event *)
Definition ex_two_heads : state :=
  {| insts := [ mk_inst 0 Started [mk_head 3] None [1] 1;
                mk_inst 1 Started [mk_head 1; mk_head 1] (Some 0) [] 0;
                mk_inst 2 Started [mk_head 1] (Some 0) [] 0 ];
     queue := [] |}.

(* ------------------------------------------------------------------------------------------ *)
(* The outer loop of process_events: outgoing (non-action) events of one round are the input events
   of the next round, so flows can answer each other forever (`echo: match Ping(); send Pong()`,
   `back: match Pong(); send Ping()`) although every single run_to_completion ends.  What ends one
   processing cycle is the cap `max_events` on the events handled per process_events CALL:
       events_counter = 0
       while input_events: new = []
           for event in input_events:
               events_counter += 1
               if events_counter > max_events: return
               run_to_completion (with the retry loop); new += outgoing
           input_events = new
   `per_round = true` models the counter being reset in every round (a regression). *)
Section ProcessEvents.
  Variables (St Ev : Type).
  Variable rtc : St -> Ev -> St * list Ev.

  Fixpoint pe_round (max cnt : nat) (st : St) (inp out : list Ev) : St * nat * list Ev * bool :=
    match inp with
    | [] => (st, cnt, out, false)
    | e :: inp' =>
        if Nat.ltb max (S cnt) then (st, S cnt, out, true)
        else let '(st', o) := rtc st e in pe_round max (S cnt) st' inp' (out ++ o)
    end.

  Fixpoint pe (per_round : bool) (fuel max cnt : nat) (st : St) (inp : list Ev) : option St :=
    match fuel with
    | O => None
    | S f =>
        match inp with
        | [] => Some st
        | _ :: _ =>
            let '(st', cnt', out, stopped) := pe_round max (if per_round then 0 else cnt) st inp [] in
            if stopped then Some st' else pe per_round f max cnt' st' out
        end
    end.
End ProcessEvents.
