(* C11 - the bridge on the example State of V2/State_examples.v *)
From Coq Require Import ZArith List String Bool Lia.
From NG Require Import Gen.C11Consts V2.Serial V2.SerialRun V2.State_examples V2.Cleanup V2.BridgeDef V2.BridgeRun V2.CleanupRun.
Import ListNotations.
Open Scope string_scope.
Open Scope Z_scope.

Example st_alpha :
  alpha ts0 h_st (VO 0)
  = Some (mkState
            [ ("m", mkInst "main" "STARTED" 0 0 None ["a"] ["u"] [("h1", [])] [] 0);
              ("a", mkInst "a" "STARTED" 0 1 (Some "m") [] ["u"] [("h2", []); ("h3", [])] [] 0) ]
            [ ("main", ["m"]); ("a", ["a"]) ]
            [ ("u", 0) ]
            0).
Proof. vm_compute. reflexivity. Qed.

Example st_alpha_refs : check_alpha_refs (h_st, VO 0, ex_state) = true.
Proof. vm_compute. reflexivity. Qed.

(* the clean-up of the abstract state read off the restored graph (model's own save/restore) *)
Example st_alpha_restored_cleanup :
  match encode flags_fixed 50 h_st (VO 0) with
  | Some j =>
    match json_to_state flags_fixed classes_now 50 j with
    | Some (h2, r2) =>
      match alpha ts0 h2 r2, alpha ts0 h_st (VO 0) with
      | Some a2, Some a => oeqb state_eqb (cleanup_now 10000000 a2) (cleanup_now 10000000 a)
                           && match cleanup_now 10000000 a with Some _ => true | None => false end
      | _, _ => false
      end
    | None => false
    end
  | None => false
  end = true.
Proof. vm_compute. reflexivity. Qed.

Lemma bridge_inhabited :
  exists a, alpha ts0 h_st (VO 0) = Some a /\ refs_okb a = true /\ List.length (flows a) = 2%nat.
Proof. eexists. split; [exact st_alpha|]. split; vm_compute; reflexivity. Qed.
