(* C10 - termination of one `slide`, error isolation in `_advance_head_front`, the retry loop of
   `process_events`, and the activation/restart cascade of one `run_to_completion`.
   Focused models of nemoguardrails/colang/v2_x/runtime/statemachine.py (definitions only;
   proofs in Term_proofs.v / Cascade_proofs.v).

   Part 1: `slide` as a small-step function over the primitive element list of one flow,
           abstracted to what matters for termination and for where an exception can occur.
           Data (expression values, event arguments) is replaced by an oracle that says, for
           the k-th executed element, whether its expression is true / false / raises. *)
From Coq Require Import List Arith Bool Lia.
Import ListNotations.

Definition label := nat.
Definition flowid := nat.

Inductive elem : Type :=
| EBlock                          (* match on an external event, action send (actionable), MergeHeads: slide stops *)
| EWaitInt (started_making : bool) (* match on an internal event (FlowStarted/FlowFinished/...): slide stops;
                                      started_making = false for the expansion-internal matches (info["internal"]) *)
| EWaitHeads                      (* WaitForHeads: passes when enough heads arrived, else slide stops *)
| EJump (l : label) (cond : bool) (* Goto l; cond = false when the expression is the literal True *)
| ELabel (l : label) (new_inst : bool) (* Label; new_inst = the label `start_new_flow_instance` *)
| EStep                           (* Assignment / internal send / new action / Log / Print / Priority / Global /
                                     BeginScope / EndScope: falls through, may raise *)
| EStart (f : flowid) (act : bool)(* send StartFlow(flow_id = constant f, activated = act): falls through *)
| EFork (ls : list label)         (* ForkHead: this head becomes inactive, new heads at the labels *)
| EReturn
| EAbort
| ECatch (l : option label)       (* CatchPatternFailure: push (Some l) / pop (None) *)
| EBreak (l : option label).      (* Break / Continue *)

Inductive outcome := OTrue | OFalse | ORaise.

(* element_labels: built by last-wins update over the element list *)
Fixpoint label_pos_from (es : list elem) (i : nat) (l : label) (acc : option nat) : option nat :=
  match es with
  | [] => acc
  | ELabel l' _ :: es' => label_pos_from es' (S i) l (if Nat.eqb l l' then Some i else acc)
  | _ :: es' => label_pos_from es' (S i) l acc
  end.
Definition label_pos (es : list elem) (l : label) : option nat := label_pos_from es 0 l None.

Inductive stop : Type :=
| Blocked (pos : nat)                   (* head rests on a match / action / merge / unsatisfied WaitForHeads *)
| Forked (pos : nat) (targets : list nat)
| Ended                                 (* head.position >= len(elements): finished (or returned) *)
| Aborted                               (* `abort` without catch label: flow status STOPPING *)
| Raised (pos : nat)                    (* a Python exception left slide with the head at pos *)
| OutOfFuel.

Record sres := { s_stop : stop; s_steps : nat; s_catch : list label; s_starts : list (flowid * bool);
                 s_newinst : bool }.

Fixpoint all_some {A} (l : list (option A)) : option (list A) :=
  match l with
  | [] => Some []
  | None :: _ => None
  | Some a :: l' => match all_some l' with Some r => Some (a :: r) | None => None end
  end.

(* one executed element: either stop, or continue at a new position with a new catch stack *)
Inductive step1 : Type :=
| Cont (pos : nat) (cs : list label) (st : option (flowid * bool)) (ni : bool)
| Stop (s : stop).

Definition exec_elem (es : list elem) (o : outcome) (pos : nat) (cs : list label) (e : elem) : step1 :=
  match o with
  | ORaise => Stop (Raised pos)
  | _ =>
    match e with
    | EBlock => Stop (Blocked pos)
    | EWaitInt _ => Stop (Blocked pos)
    | EWaitHeads => match o with OTrue => Cont (S pos) cs None false | _ => Stop (Blocked pos) end
    | EJump l c =>
        let taken := if c then (match o with OTrue => true | _ => false end) else true in
        if taken then
          match label_pos es l with
          | Some i => Cont (S i) cs None false
          | None => Cont (S pos) cs None false        (* invalid label: warning, next element *)
          end
        else Cont (S pos) cs None false
    | ELabel _ ni => Cont (S pos) cs None ni
    | EStep => Cont (S pos) cs None false
    | EStart f a => Cont (S pos) cs (Some (f, a)) false
    | EFork ls =>
        match all_some (map (label_pos es) ls) with
        | Some ts => Stop (Forked pos ts)
        | None => Stop (Raised pos)                   (* KeyError on element_labels *)
        end
    | EReturn => Stop Ended
    | EAbort =>
        match cs with
        | [] => Stop Aborted
        | l :: _ => match label_pos es l with
                    | Some i => Cont (S i) cs None false
                    | None => Stop (Raised pos)
                    end
        end
    | ECatch (Some l) => Cont (S pos) (l :: cs) None false
    | ECatch None => match cs with
                     | [] => Stop (Raised pos)        (* pop from empty list *)
                     | _ :: cs' => Cont (S pos) cs' None false
                     end
    | EBreak None => Cont (S pos) cs None false
    | EBreak (Some l) => match label_pos es l with
                         | Some i => Cont (S i) cs None false
                         | None => Stop (Raised pos)
                         end
    end
  end.

(* `orc k` = outcome of the k-th executed element of this slide *)
Fixpoint slide_fuel (fuel : nat) (es : list elem) (orc : nat -> outcome) (k : nat) (pos : nat)
         (cs : list label) (starts : list (flowid * bool)) (ni : bool) : sres :=
  match fuel with
  | O => {| s_stop := OutOfFuel; s_steps := k; s_catch := cs; s_starts := starts; s_newinst := ni |}
  | S fuel' =>
    match nth_error es pos with
    | None => {| s_stop := Ended; s_steps := k; s_catch := cs; s_starts := starts; s_newinst := ni |}
    | Some e =>
      match exec_elem es (orc k) pos cs e with
      | Stop s => {| s_stop := s; s_steps := S k; s_catch := cs; s_starts := starts; s_newinst := ni |}
      | Cont pos' cs' st ni' =>
          slide_fuel fuel' es orc (S k) pos' cs'
                     (match st with Some x => starts ++ [x] | None => starts end) (ni || ni')
      end
    end
  end.

Definition slide (fuel : nat) (es : list elem) (orc : nat -> outcome) (pos : nat) (cs : list label) : sres :=
  slide_fuel fuel es orc 0 pos cs [] false.

(* ------------------------------------------------------------------------------------------ *)
(* The premise, intra-flow part: every cycle of the jump graph passes a blocking element.
   succs = static over-approximation of the positions at which the SAME slide may continue. *)

Fixpoint catch_labels (es : list elem) : list label :=
  match es with
  | [] => []
  | ECatch (Some l) :: es' => l :: catch_labels es'
  | _ :: es' => catch_labels es'
  end.

Definition target (es : list elem) (pos : nat) (l : label) : nat :=
  match label_pos es l with Some i => S i | None => S pos end.

Definition opt_targets (es : list elem) (ls : list label) : list nat :=
  flat_map (fun l => match label_pos es l with Some i => [S i] | None => [] end) ls.

(* `through_int`: are matches on internal events crossed (cascade view) or blocking (slide view)? *)
Definition succs_gen (through_int : bool) (es : list elem) (pos : nat) : list nat :=
  match nth_error es pos with
  | None => []
  | Some e =>
    match e with
    | EBlock => []
    | EWaitInt _ => if through_int then [S pos] else []
    | EWaitHeads => [S pos]
    | EJump l c => target es pos l :: (if c then [S pos] else [])
    | ELabel _ _ | EStep | EStart _ _ | ECatch _ | EBreak None => [S pos]
    | EFork ls => if through_int then opt_targets es ls else []
    | EReturn => []
    | EAbort => opt_targets es (catch_labels es)
    | EBreak (Some l) => opt_targets es [l]
    end
  end.
Definition succs := succs_gen false.

(* a ranking certificate: rank strictly decreases along every edge, ranks bounded by the length *)
Definition rank_at (r : list nat) (p : nat) : nat := nth p r 0.

Definition edge_ok (es : list elem) (r : list nat) (p q : nat) : bool :=
  Nat.ltb (rank_at r (Nat.min q (length es))) (rank_at r p).

Definition check_rank_gen (ti : bool) (es : list elem) (r : list nat) : bool :=
  Nat.eqb (length r) (S (length es)) &&
  forallb (fun p => Nat.leb (rank_at r p) (length es) &&
                    forallb (edge_ok es r p) (succs_gen ti es p)) (seq 0 (length es)).
Definition check_rank := check_rank_gen false.

(* computing a certificate: reverse Gauss-Seidel relaxation of "longest path to a sink", repeated *)
Definition lookup_rank (old acc : list nat) (p q len : nat) : nat :=
  let q := Nat.min q len in
  if Nat.ltb p q then nth (q - p - 1) acc 0 else nth q old 0.

Fixpoint gs_pass (ti : bool) (es : list elem) (old : list nat) (len : nat) (n : nat) (acc : list nat) : list nat :=
  (* n = number of positions still to process; current position p = n - 1; acc = ranks of p+1 .. len *)
  match n with
  | O => acc
  | S p =>
      let qs := succs_gen ti es p in
      let v := match qs with
               | [] => 0
               | _ => S (fold_left (fun m q => Nat.max m (lookup_rank old acc p q len)) qs 0)
               end in
      gs_pass ti es old len p (v :: acc)
  end.

Fixpoint iter_rank (ti : bool) (fuel : nat) (es : list elem) (r : list nat) : list nat :=
  match fuel with
  | O => r
  | S f =>
      if check_rank_gen ti es r then r
      else iter_rank ti f es (gs_pass ti es r (length es) (length es) [0])
  end.

Definition compute_rank_gen (ti : bool) (es : list elem) : list nat :=
  iter_rank ti (S (length es)) es (repeat 0 (S (length es))).

Definition guarded_flowb (es : list elem) : bool := check_rank es (compute_rank_gen false es).

Definition program := list (list elem).
Definition guardedb (p : program) : bool := forallb guarded_flowb p.

(* sanity: `while c: match; step` is guarded, `while c: step` is not *)
Example ex_loop_guarded :
  guarded_flowb [EBlock; ELabel 0 false; EJump 1 true; EBlock; EStep; EJump 0 false; ELabel 1 false; EStep] = true.
Proof. reflexivity. Qed.
Example ex_loop_unguarded :
  guarded_flowb [EBlock; ELabel 0 false; EJump 1 true; EStep; EJump 0 false; ELabel 1 false] = false.
Proof. reflexivity. Qed.
Example ex_slide_spins :
  s_stop (slide 1000 [EBlock; ELabel 0 false; EJump 1 true; EStep; EJump 0 false; ELabel 1 false]
                (fun _ => OFalse) 1 []) = OutOfFuel.
Proof. reflexivity. Qed.
