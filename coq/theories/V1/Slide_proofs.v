(* V1.Slide_proofs - the core of the compiler-correctness argument: slide() on the compiled
   code follows the structured reference semantics inside one flow body (sequencing, set,
   if/else, while, break, continue, any nesting) up to the next statement that needs an event,
   the next subflow call, or the end of the body.

   `lexec` is Structured.exec restricted to one flow body (it stops at `do`); `lexec_slide`
   relates it to slide_loop by induction on the source execution, with the continuation /
   code-position relation `kmatch` of Code_proofs.v. *)
From Coq Require Import ZArith List String Bool Lia.
From NG Require Import V1.Expr V1.Elems V1.Slide V1.Interp V1.Structured V1.Code_proofs.
Import ListNotations.
Open Scope list_scope.
Open Scope Z_scope.

Inductive lres :=
| LWait (w : wait) (k : kont) (c u : ctx)
| LCallR (name : string) (k : kont) (c u : ctx)
| LEnd (c u : ctx)
| LExc
| LFuel.

Fixpoint lexec (fuel : nat) (c u : ctx) (blk : list stmt) (k : kont) : lres :=
  match fuel with
  | O => LFuel
  | S f =>
      match blk with
      | [] =>
          match k with
          | KDone => LEnd c u
          | KSeq rest k' => lexec f c u rest k'
          | KLoop cnd body k' => lexec f c u [SWhile cnd body] k'
          end
      | s :: rest =>
          match s with
          | SUser i => LWait (WUser i) (KSeq rest k) c u
          | SBot i => LWait (WBot i) (KSeq rest k) c u
          | SExec a p key => LWait (WExec a p key) (KSeq rest k) c u
          | SSet x e =>
              match eval c e with
              | None => LExc
              | Some v => lexec f (assoc_set x v c) (assoc_set x v u) rest k
              end
          | SIf cnd t e =>
              match eval c cnd with
              | None => LExc
              | Some v => lexec f c u (if truthy v then t else e) (KSeq rest k)
              end
          | SWhile cnd b =>
              match eval c cnd with
              | None => LExc
              | Some v => if truthy v then lexec f c u b (KLoop cnd b (KSeq rest k))
                          else lexec f c u rest k
              end
          | SBreak =>
              match unwind k with
              | Some (_, _, k') => lexec f c u [] k'
              | None => LExc
              end
          | SContinue =>
              match unwind k with
              | Some (cnd, b, k') => lexec f c u [SWhile cnd b] k'
              | None => LExc
              end
          | SDo name => LCallR name (KSeq rest k) c u
          end
      end
  end.

Definition slide_post (C : list elem) (r : lres) (sr : sres) : Prop :=
  match r with
  | LWait w k c u => exists pw lp, sr = SOk pw c u /\ instr C pw = Some (elem_of_wait w) /\ wf_wait w /\
                                   kmatch C k (pw + 1) lp
  | LCallR name k c u => exists pw lp rest k', k = KSeq rest k' /\ sr = SOk pw c u /\
                                       instr C pw = Some (LFlow name) /\
                                       code_at C (pw + 1) (compile_block (rel lp (pw + 1)) rest) /\
                                       wf_block (inl lp) rest = true /\
                                       kmatch C k' (pw + 1 + bsize rest) lp
  | LEnd c u => exists h, sr = SOk h c u /\ h < 0
  | LExc => sr = SErr
  | LFuel => False
  end.

(* eventually (for all sufficiently large fuel) the slide loop returns sr *)
Definition slides_to (C : list elem) (pc prev : Z) (c u : ctx) (sr : sres) : Prop :=
  exists F, forall f, (F <= f)%nat -> slide_loop f C pc prev c u = sr.

Lemma instr_nth : forall C pc el, instr C pc = Some el ->
  ((pc =? Z.of_nat (List.length C)) || (pc <? 0)) = false /\ nth_error C (Z.to_nat pc) = Some el.
Proof.
  intros C pc el H. pose proof (instr_lt _ _ _ H) as Hr. unfold zlen in Hr.
  unfold instr in H. destruct (pc <? 0) eqn:E; [discriminate|]. split; [|exact H].
  apply orb_false_iff. split; [apply Z.eqb_neq; lia|reflexivity].
Qed.

Lemma slides_step : forall C pc prev c u el h' c' u' sr,
  instr C pc = Some el -> slide_elem el pc c u = StGo h' c' u' ->
  slides_to C h' pc c' u' sr -> slides_to C pc prev c u sr.
Proof.
  intros C pc prev c u el h' c' u' sr Hi He (F & HF). exists (S F). intros f Hf.
  destruct f as [|f]; [lia|]. simpl. destruct (instr_nth _ _ _ Hi) as [E1 E2].
  rewrite E1, E2, He. apply HF. lia.
Qed.

Lemma slides_stay : forall C pc prev c u el,
  instr C pc = Some el -> slide_elem el pc c u = StStay -> slides_to C pc prev c u (SOk pc c u).
Proof.
  intros C pc prev c u el Hi He. exists 1%nat. intros f Hf.
  destruct f as [|f]; [lia|]. simpl. destruct (instr_nth _ _ _ Hi) as [E1 E2].
  rewrite E1, E2, He. reflexivity.
Qed.

Lemma slides_err : forall C pc prev c u el,
  instr C pc = Some el -> slide_elem el pc c u = StErr -> slides_to C pc prev c u SErr.
Proof.
  intros C pc prev c u el Hi He. exists 1%nat. intros f Hf.
  destruct f as [|f]; [lia|]. simpl. destruct (instr_nth _ _ _ Hi) as [E1 E2].
  rewrite E1, E2, He. reflexivity.
Qed.

Lemma slides_end : forall C prev c u, 0 <= prev -> slides_to C (zlen C) prev c u (SOk (- (prev + 1)) c u).
Proof.
  intros C prev c u Hp. exists 1%nat. intros f Hf. destruct f as [|f]; [lia|]. simpl.
  unfold zlen. rewrite Z.eqb_refl. reflexivity.
Qed.

Lemma wf_block_cons : forall b s r, wf_block b (s :: r) = wf_stmt b s && wf_block b r.
Proof. reflexivity. Qed.

Lemma wf_stmt_if : forall b c t e, wf_stmt b (SIf c t e) = wf_block b t && wf_block b e.
Proof.
  intros. simpl. f_equal.
  - induction t as [|x r IH]; [reflexivity|]. simpl. f_equal. exact IH.
  - induction e as [|x r IH]; [reflexivity|]. simpl. f_equal. exact IH.
Qed.

Lemma wf_stmt_while : forall b c body, wf_stmt b (SWhile c body) = wf_block true body.
Proof.
  intros. simpl. induction body as [|x r IH]; [reflexivity|]. simpl. f_equal. exact IH.
Qed.

Lemma bsize_cons : forall s r, bsize (s :: r) = size s + bsize r.
Proof. reflexivity. Qed.

Lemma compile_block_cons : forall d s r,
  compile_block d (s :: r) = compile d s ++ compile_block (shift d (size s)) r.
Proof. reflexivity. Qed.

(* the code of a `while` found at position w *)
Lemma while_code : forall C w c body,
  code_at C w (compile None (SWhile c body)) ->
  instr C w = Some (LWhile c 1 (bsize body + 2)) /\
  code_at C (w + 1) (compile_block (Some (bsize body + 1, -1)) body) /\
  instr C (w + 1 + bsize body) = Some (LJump (- (bsize body + 1)) false None).
Proof.
  intros C w c body H. rewrite compile_while in H. split; [|split].
  - eapply code_at_head; eauto.
  - apply code_at_tail in H. apply code_at_app_l in H. exact H.
  - apply code_at_tail in H. apply code_at_app_r in H. rewrite compile_block_length in H.
    eapply code_at_head; eauto.
Qed.

Section Sim.
  Variable C : list elem.

  (* the statement for a given amount of source fuel *)
  Definition sim_at (fuel : nat) : Prop :=
    forall c u blk k r, lexec fuel c u blk k = r -> r <> LFuel ->
    forall pc lp prev,
      code_at C pc (compile_block (rel lp pc) blk) ->
      wf_block (inl lp) blk = true ->
      kmatch C k (pc + bsize blk) lp ->
      0 <= prev ->
      exists sr, slide_post C r sr /\ slides_to C pc prev c u sr.

  (* re-entering a loop at its `while` element *)
  Lemma sim_loop_head : forall f, sim_at f ->
    forall c u cnd body k' r w x lp' prev,
      lexec f c u [SWhile cnd body] k' = r -> r <> LFuel ->
      code_at C w (compile None (SWhile cnd body)) ->
      wf_block true body = true ->
      x = w + 2 + bsize body ->
      kmatch C k' x lp' -> 0 <= prev ->
      exists sr, slide_post C r sr /\ slides_to C w prev c u sr.
  Proof.
    intros f IH c u cnd body k' r w x lp' prev Hr Hnf Hcode Hwf Hx Hk Hprev.
    eapply IH; eauto.
    - rewrite compile_block_cons. simpl compile_block. rewrite app_nil_r.
      rewrite (compile_while_indep _ None). exact Hcode.
    - rewrite wf_block_cons, wf_stmt_while, Hwf. reflexivity.
    - rewrite bsize_cons, size_while. simpl bsize. replace (w + (2 + bsize body + 0)) with x by lia. exact Hk.
  Qed.

  (* end of a block: continue with the continuation *)
  Lemma sim_nil : forall f, sim_at f ->
    forall k pc lp, kmatch C k pc lp ->
    forall c u r prev, lexec (S f) c u [] k = r -> r <> LFuel -> 0 <= prev ->
    exists sr, slide_post C r sr /\ slides_to C pc prev c u sr.
  Proof.
    intros f IH k pc lp Hk. induction Hk; intros c0 u r prev Hr Hnf Hprev.
    - (* KDone *)
      simpl in Hr. subst r pc. exists (SOk (- (prev + 1)) c0 u). split.
      + simpl. exists (- (prev + 1)). split; [reflexivity|lia].
      + apply slides_end. exact Hprev.
    - (* KSeq *)
      simpl in Hr. eapply IH; eauto.
    - (* KLoop: the closing jump, then the `while` element again *)
      simpl in Hr.
      destruct (while_code _ _ _ _ H) as (Hw & Hb & Hj).
      assert (Hjump : instr C pc = Some (LJump (w - pc) false None)).
      { subst pc. rewrite Hj. f_equal. f_equal. lia. }
      destruct (sim_loop_head f IH c0 u c body k r w x lp' pc Hr Hnf H H0) as (sr & Hpost & Hsl); auto; try lia.
      { apply instr_lt in Hjump. lia. }
      exists sr. split; [exact Hpost|].
      eapply slides_step; [exact Hjump| |exact Hsl]. unfold slide_elem. f_equal. lia.
    - (* a jump over an else branch *)
      destruct (IHHk c0 u r pc Hr Hnf) as (sr & Hpost & Hsl).
      { apply instr_lt in H. lia. }
      exists sr. split; [exact Hpost|].
      eapply slides_step; [exact H| |exact Hsl]. reflexivity.
  Qed.

  Lemma sim_all : forall fuel, sim_at fuel.
  Proof.
    induction fuel as [|f IH]; intros c u blk k r Hr Hnf pc lp prev Hcode Hwf Hk Hprev.
    - simpl in Hr. subst r. congruence.
    - destruct blk as [|s rest].
      + simpl bsize in Hk. replace (pc + 0) with pc in Hk by lia.
        eapply sim_nil; eauto.
      + rewrite compile_block_cons in Hcode. rewrite wf_block_cons in Hwf.
        apply andb_true_iff in Hwf. destruct Hwf as [Hws Hwr].
        rewrite bsize_cons in Hk.
        pose proof (code_at_app_l _ _ _ _ Hcode) as Hs.
        pose proof (code_at_app_r _ _ _ _ Hcode) as Hrest.
        rewrite compile_length, shift_rel in Hrest.
        assert (Hkseq : kmatch C (KSeq rest k) (pc + size s) lp).
        { apply km_seq; auto. replace (pc + size s + bsize rest) with (pc + (size s + bsize rest)) by lia. exact Hk. }
        assert (Hpc : 0 <= pc) by (apply code_at_range in Hcode; lia).
        assert (Hk1 : size s = 1 -> kmatch C k (pc + 1 + bsize rest) lp).
        { intros E. rewrite E in Hk. replace (pc + 1 + bsize rest) with (pc + (1 + bsize rest)) by lia. exact Hk. }
        destruct s.
        * (* user *)
          simpl in Hr. subst r. exists (SOk pc c u). split.
          -- simpl. exists pc, lp. repeat split; auto. eapply code_at_head; eauto.
          -- eapply slides_stay; [eapply code_at_head; eauto|reflexivity].
        * (* bot *)
          simpl in Hr. subst r. exists (SOk pc c u). split.
          -- simpl. exists pc, lp. repeat split; auto. eapply code_at_head; eauto.
          -- eapply slides_stay; [eapply code_at_head; eauto|reflexivity].
        * (* execute *)
          simpl in Hr. subst r. exists (SOk pc c u). split.
          -- simpl. exists pc, lp. repeat split; auto.
             ++ eapply code_at_head; eauto.
             ++ simpl in Hws. apply negb_true_iff in Hws. exact Hws.
          -- eapply slides_stay; [eapply code_at_head; eauto|reflexivity].
        * (* set *)
          simpl in Hr. simpl compile in Hs. pose proof (code_at_head _ _ _ _ Hs) as Hi.
          destruct (eval c e) as [v|] eqn:Ev.
          -- destruct (IH _ _ _ _ _ Hr Hnf (pc + 1) lp pc Hrest Hwr (Hk1 eq_refl) Hpc) as (sr & Hpost & Hsl).
             exists sr. split; [exact Hpost|].
             eapply slides_step; [exact Hi| |exact Hsl]. unfold slide_elem. rewrite Ev. reflexivity.
          -- subst r. exists SErr. split; [reflexivity|].
             eapply slides_err; [exact Hi|]. unfold slide_elem. rewrite Ev. reflexivity.
        * (* if *)
          simpl in Hr. rewrite compile_if in Hs. rewrite wf_stmt_if in Hws.
          apply andb_true_iff in Hws. destruct Hws as [Hwt Hwe].
          rewrite size_if in Hkseq.
          destruct (eval c c0) as [v|] eqn:Ev.
          -- destruct els as [|e0 els'].
             ++ (* no else branch *)
                pose proof (code_at_head _ _ _ _ Hs) as Hi.
                pose proof (code_at_tail _ _ _ _ Hs) as Ht. rewrite shift_rel in Ht.
                replace (pc + (1 + bsize thn + 0)) with (pc + 1 + bsize thn) in Hkseq by lia.
                destruct (truthy v) eqn:Tv.
                ** destruct (IH _ _ _ _ _ Hr Hnf (pc + 1) lp pc Ht Hwt Hkseq Hpc) as (sr & Hpost & Hsl).
                   exists sr. split; [exact Hpost|].
                   eapply slides_step; [exact Hi| |exact Hsl]. unfold slide_elem. rewrite Ev, Tv. reflexivity.
                ** assert (Hn : code_at C (pc + 1 + bsize thn) (compile_block (rel lp (pc + 1 + bsize thn)) [])).
                   { simpl. apply code_at_nil. apply kmatch_range in Hkseq. exact Hkseq. }
                   assert (Hkn : kmatch C (KSeq rest k) (pc + 1 + bsize thn + bsize []) lp).
                   { simpl bsize. replace (pc + 1 + bsize thn + 0) with (pc + 1 + bsize thn) by lia. exact Hkseq. }
                   destruct (IH _ _ _ _ _ Hr Hnf (pc + 1 + bsize thn) lp pc Hn eq_refl Hkn Hpc) as (sr & Hpost & Hsl).
                   exists sr. split; [exact Hpost|].
                   eapply slides_step; [exact Hi| |exact Hsl]. unfold slide_elem. rewrite Ev, Tv. f_equal. lia.
             ++ (* with an else branch *)
                pose proof (code_at_head _ _ _ _ Hs) as Hi.
                pose proof (code_at_tail _ _ _ _ Hs) as Hte.
                pose proof (code_at_app_l _ _ _ _ Hte) as Ht. rewrite shift_rel in Ht.
                pose proof (code_at_app_r _ _ _ _ Hte) as Hje. rewrite compile_block_length in Hje.
                pose proof (code_at_head _ _ _ _ Hje) as Hj.
                pose proof (code_at_tail _ _ _ _ Hje) as He. rewrite shift_rel in He.
                replace (pc + 1 + bsize thn + 1) with (pc + (bsize thn + 2)) in He by lia.
                set (E := e0 :: els') in *.
                replace (pc + (1 + bsize thn + (1 + bsize E))) with (pc + (bsize thn + 2) + bsize E) in Hkseq by lia.
                destruct (truthy v) eqn:Tv.
                ** assert (Hkj : kmatch C (KSeq rest k) (pc + 1 + bsize thn) lp).
                   { eapply km_jump; [exact Hj|].
                     replace (pc + 1 + bsize thn + (bsize E + 1)) with (pc + (bsize thn + 2) + bsize E) by lia.
                     exact Hkseq. }
                   destruct (IH _ _ _ _ _ Hr Hnf (pc + 1) lp pc Ht Hwt Hkj Hpc) as (sr & Hpost & Hsl).
                   exists sr. split; [exact Hpost|].
                   eapply slides_step; [exact Hi| |exact Hsl]. unfold slide_elem. rewrite Ev, Tv. reflexivity.
                ** destruct (IH _ _ _ _ _ Hr Hnf (pc + (bsize thn + 2)) lp pc He Hwe Hkseq Hpc) as (sr & Hpost & Hsl).
                   exists sr. split; [exact Hpost|].
                   eapply slides_step; [exact Hi| |exact Hsl]. unfold slide_elem. rewrite Ev, Tv. reflexivity.
          -- subst r. exists SErr. split; [reflexivity|].
             destruct els; (eapply slides_err; [eapply code_at_head; exact Hs|]; simpl; rewrite Ev; reflexivity).
        * (* while *)
          simpl in Hr. rewrite wf_stmt_while in Hws. rewrite size_while in Hkseq.
          rewrite (compile_while_indep _ None) in Hs.
          destruct (while_code _ _ _ _ Hs) as (Hi & Hb & Hj).
          destruct (eval c c0) as [v|] eqn:Ev.
          -- destruct (truthy v) eqn:Tv.
             ++ assert (Hb' : code_at C (pc + 1) (compile_block (rel (Some (pc, pc + (2 + bsize body))) (pc + 1)) body)).
                { unfold rel. replace (pc + (2 + bsize body) - (pc + 1)) with (bsize body + 1) by lia.
                  replace (pc - (pc + 1)) with (-1) by lia. exact Hb. }
                assert (Hkl : kmatch C (KLoop c0 body (KSeq rest k)) (pc + 1 + bsize body) (Some (pc, pc + (2 + bsize body)))).
                { eapply km_loop; eauto; lia. }
                destruct (IH _ _ _ _ _ Hr Hnf (pc + 1) (Some (pc, pc + (2 + bsize body))) pc Hb' Hws Hkl Hpc) as (sr & Hpost & Hsl).
                exists sr. split; [exact Hpost|].
                eapply slides_step; [exact Hi| |exact Hsl]. unfold slide_elem. rewrite Ev, Tv. reflexivity.
             ++ assert (Hk2 : kmatch C k (pc + (2 + bsize body) + bsize rest) lp).
                { replace (pc + (2 + bsize body) + bsize rest) with (pc + (2 + bsize body + bsize rest)) by lia. exact Hk. }
                destruct (IH _ _ _ _ _ Hr Hnf (pc + (2 + bsize body)) lp pc Hrest Hwr Hk2 Hpc) as (sr & Hpost & Hsl).
                exists sr. split; [exact Hpost|].
                eapply slides_step; [exact Hi| |exact Hsl]. unfold slide_elem. rewrite Ev, Tv. f_equal. lia.
          -- subst r. exists SErr. split; [reflexivity|].
             eapply slides_err; [exact Hi|]. unfold slide_elem. rewrite Ev. reflexivity.
        * (* break *)
          simpl in Hr. simpl in Hws. destruct lp as [[w x]|]; [|discriminate].
          pose proof (kmatch_unwind _ _ _ _ Hk) as Hu. simpl in Hu.
          destruct Hu as (cnd & body & k' & lp' & Hun & Hk' & Hcw & Hwb & Hx).
          rewrite Hun in Hr.
          simpl compile in Hs. pose proof (code_at_head _ _ _ _ Hs) as Hi.
          assert (Hn : code_at C x (compile_block (rel lp' x) [])).
          { simpl. apply code_at_nil. apply kmatch_range in Hk'. exact Hk'. }
          assert (Hkn : kmatch C k' (x + bsize []) lp').
          { simpl bsize. replace (x + 0) with x by lia. exact Hk'. }
          destruct (IH _ _ _ _ _ Hr Hnf x lp' pc Hn eq_refl Hkn Hpc) as (sr & Hpost & Hsl).
          exists sr. split; [exact Hpost|].
          eapply slides_step; [exact Hi| |exact Hsl]. unfold slide_elem. f_equal. lia.
        * (* continue *)
          simpl in Hr. simpl in Hws. destruct lp as [[w x]|]; [|discriminate].
          pose proof (kmatch_unwind _ _ _ _ Hk) as Hu. simpl in Hu.
          destruct Hu as (cnd & body & k' & lp' & Hun & Hk' & Hcw & Hwb & Hx).
          rewrite Hun in Hr.
          simpl compile in Hs. pose proof (code_at_head _ _ _ _ Hs) as Hi.
          destruct (sim_loop_head f IH c u cnd body k' r w x lp' pc Hr Hnf Hcw Hwb Hx Hk' Hpc) as (sr & Hpost & Hsl).
          exists sr. split; [exact Hpost|].
          eapply slides_step; [exact Hi| |exact Hsl]. unfold slide_elem. f_equal. lia.
        * (* do *)
          simpl in Hr. subst r. exists (SOk pc c u). split.
          -- simpl. exists pc, lp, rest, k. repeat split; auto;
               try (eapply code_at_head; eauto); try (apply Hk1; reflexivity).
          -- eapply slides_stay; [eapply code_at_head; eauto|reflexivity].
  Qed.
End Sim.

(* slide (fresh prev_head) instead of slide_loop *)
Lemma lexec_slide : forall C fuel c u blk k r pc lp,
  lexec fuel c u blk k = r -> r <> LFuel ->
  code_at C pc (compile_block (rel lp pc) blk) ->
  wf_block (inl lp) blk = true ->
  kmatch C k (pc + bsize blk) lp ->
  0 < zlen C ->
  exists sr, slide_post C r sr /\ exists F, forall f, (F <= f)%nat -> slide f C pc c u = sr.
Proof.
  intros C fuel c u blk k r pc lp Hr Hnf Hcode Hwf Hk Hlen.
  pose proof (code_at_range _ _ _ Hcode) as Hrg.
  unfold slide.
  set (prev := if pc <? Z.of_nat (Datatypes.length C) then pc else pc - 1).
  assert (Hprev : 0 <= prev).
  { unfold prev. destruct (pc <? Z.of_nat (Datatypes.length C)) eqn:E; [lia|].
    apply Z.ltb_ge in E. unfold zlen in *. lia. }
  destruct (sim_all C fuel c u blk k r Hr Hnf pc lp prev Hcode Hwf Hk Hprev) as (sr & Hpost & Hsl).
  exists sr. split; [exact Hpost|exact Hsl].
Qed.
