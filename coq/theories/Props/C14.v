(* C14 - Colang 1.0 dialog flows are followed like structured programs.
   Property theorems only; every proof is `exact <lemma>`; Print Assumptions beneath each. *)
From Coq Require Import ZArith List String Bool.
From NG Require Import Gen.C14Consts V1.Expr V1.Elems V1.Slide V1.Interp V1.Structured.
Import ListNotations.
Open Scope string_scope.

(* (T) the current source marks a flow that runs to its end in the event that starts it as
   COMPLETED (the loop that starts new flows does what the loop over running flows does) *)
Theorem C14_start_marks_completed_in_source : start_marks_completed = true.
Proof. exact eq_refl. Qed.
Print Assumptions C14_start_marks_completed_in_source.
