(* Model of nemoguardrails/colang/v2_x/runtime/statemachine.py::_resolve_action_conflicts
   (and of the pieces it calls: Event.is_equal, FlowHead.__eq__, the emission done by
   _generate_action_event_from_actionable_element), transcribed statement by statement.

   What the function reads of the state is made an explicit *candidate* record, one per
   actionable head, in the order of the list `actionable_heads`:

     c_head    FlowHead.uid                 (FlowHead.__eq__ compares uids only)
     c_flow    head.flow_state_uid
     c_loop    state.flow_states[head.flow_state_uid].loop_id
     c_scores  head.matching_scores         (floats; every float IS a rational, the model
                                             keeps that exact value, so ==, <, sorting agree)
     c_event   get_event_from_element(state, flow_state, elements[head.position])
               = event name + evaluated argument dict
     c_action  event.action_uid if the event is an ActionEvent with a non-empty uid
     c_catch   head.catch_pattern_failure_label   (stack of labels; non-empty inside an
               or-group / `when` scope)

   What it does is made an explicit list of *decisions* (candidate, outcome), in the order
   in which the function handles the heads: per interaction-loop group the picked head first
   (appended to advancing_heads and its event generated), then the remaining heads in sorted
   order, each either co-winner (same event: appended to advancing_heads; action references
   merged), caught (moved to its innermost failure label and appended to advancing_heads), or
   loser (_abort_flow(state, flow_state, head.matching_scores)).

   Scope: the model takes every candidate's flow to be still active when its turn comes in
   `for head in ordered_heads`.  The code skips (`if not is_active_flow(...): continue`, /repo
   675a3dd) a head whose flow was stopped earlier in the same call as a child of a losing
   candidate: such a head gets no effect at all (neither co-win nor a second abort).  That
   situation needs a candidate that is a descendant of another, losing candidate; the effect of
   _abort_flow on later candidates is outside the candidate record and is not modelled (the
   correspondence records no such call; stated as an assumption in the evidence).

   Randomness: `random.choice(seq)` = seq[pick k (len seq)] where k is the index of the call
   (= index of the group) - an arbitrary function, constrained in the theorems only by
   pick k n < n.

   Python `==` on the argument dicts is an oracle `args_eqb` (Section variable, arbitrary:
   no theorem needs it to be an equivalence); V2/ConflictRun.v instantiates it.

   Constants read from the current source by translator/gen_c05.py: pad_value (the 1.0 the
   shorter score lists are padded with for sorting), sort_reverse (the reverse= flag). *)
From Coq Require Import List String Bool QArith Arith.
From NG Require Import Gen.C05Consts.
Import ListNotations.
Open Scope list_scope.
Open Scope nat_scope.

(* ---------------------------------------------------------------------------------- *)
(* Python comparison of two lists of floats: first differing element decides, a proper
   prefix is smaller. *)
Fixpoint lex_cmp (a b : list Q) : comparison :=
  match a, b with
  | [], [] => Eq
  | [], _ :: _ => Lt
  | _ :: _, [] => Gt
  | x :: a', y :: b' =>
      match (x ?= y)%Q with
      | Eq => lex_cmp a' b'
      | c => c
      end
  end.

Definition lex_ltb (a b : list Q) : bool :=
  match lex_cmp a b with Lt => true | _ => false end.

(* Python `a == b` on lists of floats: same length, elementwise == *)
Fixpoint scores_eqb (a b : list Q) : bool :=
  match a, b with
  | [], [] => true
  | x :: a', y :: b' => Qeq_bool x y && scores_eqb a' b'
  | _, _ => false
  end.

(* head.matching_scores + [1.0] * (max_length - len(head.matching_scores)) *)
Definition pad (n : nat) (s : list Q) : list Q := s ++ repeat pad_value (n - List.length s).

Fixpoint take_while {A} (f : A -> bool) (l : list A) : list A :=
  match l with
  | [] => []
  | x :: l' => if f x then x :: take_while f l' else []
  end.

Inductive outcome :=
| Win                                         (* picked: advancing, its event is generated *)
| CoWin (merge : option (string * string))    (* same event as the winner: advancing; Some (old, new):
                                                 references to action `old` replaced by the winner's `new`,
                                                 `old` deleted from state.actions *)
| Caught (lbl : string)                       (* head.position := element_labels[lbl]; advancing *)
| Lose.                                       (* _abort_flow(state, flow_state, head.matching_scores) *)

Section Conflict.
  Variable args : Type.                        (* evaluated argument dict of an event *)
  Variable args_eqb : args -> args -> bool.    (* Python == on those dicts *)

  Record event := { ev_name : string; ev_args : args }.

  (* Event.is_equal: self.name == other.name and self.arguments == other.arguments *)
  Definition is_equal (self other : event) : bool :=
    String.eqb (ev_name self) (ev_name other) && args_eqb (ev_args self) (ev_args other).

  Record cand := {
    c_head : string;
    c_flow : string;
    c_loop : string;
    c_scores : list Q;
    c_event : event;
    c_action : option string;
    c_catch : list string;
  }.

  Definition decision := (cand * outcome)%type.

  (* FlowHead.__eq__ *)
  Definition same_head (a b : cand) : bool := String.eqb (c_head a) (c_head b).

  (* ---- grouping: head_groups: Dict[loop_id, List[FlowHead]], insertion ordered *)
  Fixpoint insert_group (c : cand) (gs : list (string * list cand)) : list (string * list cand) :=
    match gs with
    | [] => [(c_loop c, [c])]                                        (* head_groups.update({loop_id: [head]}) *)
    | (l, g) :: rest =>
        if String.eqb l (c_loop c) then (l, g ++ [c]) :: rest        (* head_groups[loop_id].append(head) *)
        else (l, g) :: insert_group c rest
    end.

  Definition group_by_loop (cands : list cand) : list (string * list cand) :=
    fold_left (fun gs c => insert_group c gs) cands [].

  (* ---- one group *)
  (* max(len(head.matching_scores) for head in group) *)
  Definition max_len (g : list cand) : nat :=
    fold_right (fun c m => Nat.max (List.length (c_scores c)) m) 0 g.

  (* sorted(group, key=..., reverse=sort_reverse): stable; with reverse=True elements with
     equal keys also keep their original order.  `stays_before kx ky` = an element with key
     kx that precedes (in the input) an element with key ky also precedes it in the output. *)
  Definition stays_before (kx ky : list Q) : bool :=
    if sort_reverse then negb (lex_ltb kx ky)      (* descending: kx >= ky *)
    else negb (lex_ltb ky kx).                     (* ascending:  kx <= ky *)

  Section Sort.
    Variable key : cand -> list Q.
    Fixpoint insert_sorted (x : cand) (l : list cand) : list cand :=
      match l with
      | [] => [x]
      | y :: l' => if stays_before (key x) (key y) then x :: y :: l' else y :: insert_sorted x l'
      end.
    Fixpoint sort_by (l : list cand) : list cand :=
      match l with
      | [] => []
      | x :: l' => insert_sorted x (sort_by l')
      end.
  End Sort.

  Definition key_of (g : list cand) (c : cand) : list Q := pad (max_len g) (c_scores c).

  Definition ordered (g : list cand) : list cand := sort_by (key_of g) g.

  (* ordered_heads[:equal_heads_index], equal_heads_index = first i with
     ordered_heads[i].matching_scores != ordered_heads[0].matching_scores (UNPADDED lists) *)
  Definition tie_set (g : list cand) : list cand :=
    match ordered g with
    | [] => []
    | h0 :: _ => take_while (fun h => scores_eqb (c_scores h) (c_scores h0)) (ordered g)
    end.

  (* random.choice(tie_set) *)
  Definition winner (pk : nat -> nat) (g : list cand) : option cand :=
    match ordered g with
    | [] => None
    | h0 :: _ => Some (nth (pk (List.length (tie_set g))) (tie_set g) h0)
    end.

  (* body of `for head in ordered_heads:` for a head other than the picked one *)
  Definition decide (w c : cand) : outcome :=
    if is_equal (c_event w) (c_event c) then
      CoWin (match c_action w, c_action c with
             | Some nw, Some old => Some (old, nw)
             | _, _ => None
             end)
    else
      match c_catch c with
      | [] => Lose
      | _ :: _ => Caught (last (c_catch c) EmptyString)
      end.

  Definition resolve_group (pk : nat -> nat) (g : list cand) : list decision :=
    match winner pk g with
    | None => []
    | Some w =>
        (w, Win)
        :: map (fun c => (c, decide w c))
               (filter (fun c => negb (same_head c w)) (ordered g))   (* if head == picked_head: continue *)
    end.

  Fixpoint resolve_groups (pick : nat -> nat -> nat) (k : nat) (gs : list (string * list cand))
    : list decision :=
    match gs with
    | [] => []
    | (_, g) :: gs' => resolve_group (pick k) g ++ resolve_groups pick (S k) gs'
    end.

  (* _resolve_action_conflicts(state, actionable_heads) *)
  Definition resolve (pick : nat -> nat -> nat) (cands : list cand) : list decision :=
    match cands with
    | [] => []
    | [c] => [(c, Win)]                                   (* len == 1: no conflict *)
    | _ => resolve_groups pick 0 (group_by_loop cands)
    end.

  (* ---- what is observable of a decision list *)
  Definition advances (o : outcome) : bool := match o with Lose => false | _ => true end.
  Definition is_win (o : outcome) : bool := match o with Win => true | _ => false end.
  Definition is_loser (o : outcome) : bool :=
    match o with Lose => true | Caught _ => true | _ => false end.

  (* the returned list advancing_heads *)
  Definition advancing (ds : list decision) : list string :=
    map (fun d => c_head (fst d)) (filter (fun d => advances (snd d)) ds).
  (* events appended to state.outgoing_events *)
  Definition emitted (ds : list decision) : list event :=
    map (fun d => c_event (fst d)) (filter (fun d => is_win (snd d)) ds).
  (* _abort_flow(state, flow, scores) calls *)
  Definition aborted (ds : list decision) : list (string * list Q) :=
    flat_map (fun d => match snd d with Lose => [(c_flow (fst d), c_scores (fst d))] | _ => [] end) ds.
  (* heads moved to a failure label *)
  Definition jumped (ds : list decision) : list (string * string) :=
    flat_map (fun d => match snd d with Caught l => [(c_head (fst d), l)] | _ => [] end) ds.
  (* action references replaced: (flow, old action uid, new action uid) *)
  Definition merged (ds : list decision) : list (string * string * string) :=
    flat_map (fun d => match snd d with
                       | CoWin (Some (old, nw)) => [(c_flow (fst d), old, nw)]
                       | _ => []
                       end) ds.

  Record result := {
    r_advancing : list string;
    r_emitted : list event;
    r_aborted : list (string * list Q);
    r_jumped : list (string * string);
    r_merged : list (string * string * string);
  }.

  Definition result_of (ds : list decision) : result :=
    {| r_advancing := advancing ds; r_emitted := emitted ds; r_aborted := aborted ds;
       r_jumped := jumped ds; r_merged := merged ds |}.

  (* decisions concerning the candidates of one interaction loop *)
  Definition in_loop (l : string) (c : cand) : bool := String.eqb l (c_loop c).
  Definition dec_in_loop (l : string) (d : decision) : bool := in_loop l (fst d).

  (* the bound on random.choice *)
  Definition pick_ok (pk : nat -> nat) : Prop := forall n, 0 < n -> pk n < n.
  Definition picks_ok (pick : nat -> nat -> nat) : Prop := forall k, pick_ok (pick k).
End Conflict.

Arguments ev_name {args} _.
Arguments ev_args {args} _.
Arguments Build_event {args} _ _.
Arguments c_head {args} _.
Arguments c_flow {args} _.
Arguments c_loop {args} _.
Arguments c_scores {args} _.
Arguments c_event {args} _.
Arguments c_action {args} _.
Arguments c_catch {args} _.
Arguments Build_cand {args} _ _ _ _ _ _ _.
Arguments same_head {args} _ _.
Arguments group_by_loop {args} _.
Arguments insert_group {args} _ _.
Arguments max_len {args} _.
Arguments key_of {args} _ _.
Arguments ordered {args} _.
Arguments tie_set {args} _.
Arguments winner {args} _ _.
Arguments advancing {args} _.
Arguments emitted {args} _.
Arguments aborted {args} _.
Arguments jumped {args} _.
Arguments merged {args} _.
Arguments result_of {args} _.
Arguments in_loop {args} _ _.
Arguments dec_in_loop {args} _ _.
Arguments insert_sorted {args} _ _ _.
Arguments sort_by {args} _ _.
