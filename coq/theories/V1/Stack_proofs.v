(* V1.Stack_proofs - the simulation for programs WITH subflow calls: `do` pushes an interrupted
   caller, the resume loop of compute_next_state unwinds the stack of flow states in whatever
   order they sit in State.flow_states. *)
From Coq Require Import ZArith QArith List String Bool Lia.
From NG Require Import V1.Expr V1.Elems V1.Slide V1.Interp V1.Structured V1.Interp_proofs
                       V1.Code_proofs V1.Slide_proofs V1.Sim_proofs.
Import ListNotations.
Open Scope list_scope.
Open Scope Z_scope.

(* ------------------------------------------------------------------ exec = lexec + calls *)

Section Decomp.
  Variable subs : list (string * list stmt).

  (* what exec does with the result of the frame-local run *)
  Definition after_local (m : nat) (lr : lres) (r : xres) : Prop :=
    match lr with
    | LWait w k c u => r = XWait w k [] c u
    | LEnd c u => r = XEnd c u
    | LExc => r = XExc
    | LFuel => False
    | LCallR name k c u =>
        exists rest k', k = KSeq rest k' /\
          r = match lookup name subs with
              | None => XExc
              | Some body =>
                  match exec subs m c u body KDone with
                  | XEnd c' u' => exec subs m c' u' rest k'
                  | XWait w kw stk c' u' => XWait w kw (stk ++ [KSeq rest k']) c' u'
                  | r' => r'
                  end
              end
    end.

  Lemma exec_decomp : forall n c u blk k r,
    exec subs n c u blk k = r -> r <> XFuel ->
    exists m, (m < n)%nat /\ after_local m (lexec n c u blk k) r.
  Proof.
    induction n as [|n IH]; intros c u blk k r Hr Hnf; [simpl in Hr; congruence|].
    assert (Hlift : forall c' u' blk' k', exec subs n c' u' blk' k' = r ->
              exists m, (m < S n)%nat /\ after_local m (lexec n c' u' blk' k') r).
    { intros c' u' blk' k' H. destruct (IH _ _ _ _ _ H Hnf) as (m & Hm & Ha). exists m. split; [lia|exact Ha]. }
    destruct blk as [|s rest].
    - simpl in Hr |- *. destruct k; [exists n; split; [lia|exact (eq_sym Hr)]| |]; apply Hlift; exact Hr.
    - destruct s; simpl in Hr |- *.
      + exists n. split; [lia|exact (eq_sym Hr)].
      + exists n. split; [lia|exact (eq_sym Hr)].
      + exists n. split; [lia|exact (eq_sym Hr)].
      + destruct (eval c e); [apply Hlift; exact Hr|exists n; split; [lia|exact (eq_sym Hr)]].
      + destruct (eval c c0) as [v|]; [apply Hlift; exact Hr|exists n; split; [lia|exact (eq_sym Hr)]].
      + destruct (eval c c0) as [v|]; [|exists n; split; [lia|exact (eq_sym Hr)]].
        destruct (truthy v); apply Hlift; exact Hr.
      + destruct (unwind k) as [[[cnd b] k']|]; [apply Hlift; exact Hr|exists n; split; [lia|exact (eq_sym Hr)]].
      + destruct (unwind k) as [[[cnd b] k']|]; [apply Hlift; exact Hr|exists n; split; [lia|exact (eq_sym Hr)]].
      + exists n. split; [lia|]. exists rest, k. split; [reflexivity|exact (eq_sym Hr)].
  Qed.
End Decomp.

(* ------------------------------------------------------------------ lists of flow states *)

Lemma list_set_length : forall {A} (l : list A) i a, List.length (list_set l i a) = List.length l.
Proof. induction l; intros [|i] x; simpl; auto. Qed.

Lemma list_set_nth_same : forall {A} (l : list A) i a, (i < List.length l)%nat ->
  nth_error (list_set l i a) i = Some a.
Proof. induction l; intros [|i] x H; simpl in *; try lia; [reflexivity|apply IHl; lia]. Qed.

Lemma list_set_nth_other : forall {A} (l : list A) i j a, i <> j ->
  nth_error (list_set l i a) j = nth_error l j.
Proof. induction l; intros [|i] [|j] x H; simpl; auto; try congruence. Qed.

Lemma list_set_app_l : forall {A} (l m : list A) i a, (i < List.length l)%nat ->
  list_set (l ++ m) i a = list_set l i a ++ m.
Proof. induction l; intros m [|i] x H; simpl in *; try lia; [reflexivity|f_equal; apply IHl; lia]. Qed.

Lemma list_set_map : forall {A B} (g : A -> B) (l : list A) i a, (i < List.length l)%nat ->
  (forall x, nth_error l i = Some x -> g a = g x) ->
  map g (list_set l i a) = map g l.
Proof.
  induction l; intros [|i] x H Hg; simpl in *; try lia.
  - f_equal. apply Hg. reflexivity.
  - f_equal. apply IHl; [lia|exact Hg].
Qed.

Lemma list_set_in : forall {A} (l : list A) i a x, In x (list_set l i a) ->
  x = a \/ exists j, j <> i /\ nth_error l j = Some x.
Proof.
  induction l; intros [|i] y x H; simpl in H; try contradiction.
  - destruct H as [H|H]; [left; auto|].
    right. destruct (In_nth_error _ _ H) as (j & Hj). exists (S j). split; [lia|exact Hj].
  - destruct H as [H|H].
    + right. exists 0%nat. split; [lia|subst; reflexivity].
    + destruct (IHl _ _ _ H) as [E|(j & Hj & Hn)]; [left; exact E|].
      right. exists (S j). split; [lia|exact Hn].
Qed.

Lemma find_uid_in : forall l g, NoDup (map f_uid l) -> In g l -> find_uid l (f_uid g) = Some g.
Proof.
  induction l as [|x l IH]; intros g Hnd Hin; [contradiction|].
  inversion Hnd as [|? ? Hnotin Hnd']; subst. simpl. destruct Hin as [E|Hin].
  - subst. rewrite N.eqb_refl. reflexivity.
  - destruct (N.eqb (f_uid x) (f_uid g)) eqn:E.
    + apply N.eqb_eq in E. exfalso. apply Hnotin. rewrite E. apply in_map. exact Hin.
    + apply IH; assumption.
Qed.

Lemma find_uid_none : forall l u, ~ In u (map f_uid l) -> find_uid l u = None.
Proof.
  induction l as [|x l IH]; intros u H; [reflexivity|]. simpl in *.
  destruct (N.eqb (f_uid x) u) eqn:E; [apply N.eqb_eq in E; exfalso; apply H; left; exact E|].
  apply IH. intros Hin. apply H. right. exact Hin.
Qed.

Lemma NoDup_app_snoc_uid : forall (l : list N) (x : N), NoDup l -> ~ In x l -> NoDup (l ++ [x]).
Proof.
  induction l as [|a l IH]; intros x Hnd Hni; simpl.
  - constructor; [intros []|constructor].
  - inversion Hnd; subst. constructor.
    + intros Hin. apply in_app_or in Hin. destruct Hin as [Hin|[E|[]]]; [contradiction|].
      subst. apply Hni. left; reflexivity.
    + apply IH; [assumption|]. intros Hin. apply Hni. right; exact Hin.
Qed.

(* "eventually": for all sufficiently large fuel *)
Definition evl {A} (g : nat -> res A) (r : res A) : Prop := exists F, forall f, (F <= f)%nat -> g f = r.

Lemma evl_const : forall {A} (r : res A), evl (fun _ => r) r.
Proof. intros. exists 0%nat. intros; reflexivity. Qed.

Lemma evl_bind : forall {A B} (g : nat -> res A) (h : A -> nat -> res B) a r,
  evl g (Ok a) -> evl (h a) r -> evl (fun f => bind (g f) (fun x => h x f)) r.
Proof.
  intros A B g h a r (F1 & H1) (F2 & H2). exists (Nat.max F1 F2). intros f Hf.
  rewrite H1 by lia. simpl. apply H2. lia.
Qed.

Lemma evl_bind_exc : forall {A B} (g : nat -> res A) (h : A -> nat -> res B),
  evl g Exc -> evl (fun f => bind (g f) (fun x => h x f)) Exc.
Proof. intros A B g h (F1 & H1). exists F1. intros f Hf. rewrite H1 by lia. reflexivity. Qed.

Lemma evl_ext : forall {A} (g g' : nat -> res A) r F0,
  (forall f, (F0 <= f)%nat -> g f = g' f) -> evl g' r -> evl g r.
Proof.
  intros A g g' r F0 He (F & H). exists (Nat.max F0 F). intros f Hf. rewrite He by lia. apply H. lia.
Qed.

Lemma evl_S : forall {A} (g : nat -> res A) r, evl g r -> evl (fun f => g (S f)) r.
Proof. intros A g r (F & H). exists F. intros f Hf. apply H. lia. Qed.

Lemma evl_pred : forall {A} (g : nat -> res A) r, evl (fun f => g (S f)) r -> evl g r.
Proof.
  intros A g r (F & H). exists (S F). intros f Hf. destruct f as [|f]; [lia|]. apply H. lia.
Qed.

(* ------------------------------------------------------------------ one program *)

Section ProgS.
  Variable p : prog.
  Variable o : opts.
  Hypothesis Hwf : wf_prog p = true.
  Hypothesis Hmark : o_mark o = true.
  Hypothesis Hguard : o_guard o = true.

  Let cs : configs := compile_prog p.

  (* the body of a flow of the program *)
  Definition flow_body (fl : string) : option (list stmt) := lookup fl (all_flows p).

  Definition code (b : list stmt) : list elem := compile_block None b.

  Definition cfg_of (fl : string) (b : list stmt) : flow_config :=
    mk_config fl (code b) (negb (String.eqb fl (p_id p))).

  Lemma wf_parts :
    (exists i0 rest0, p_main p = SUser i0 :: rest0 /\ wf_block false rest0 = true) /\
    Forall (fun nb => snd nb <> [] /\ wf_block false (snd nb) = true) (p_subs p) /\
    ~ In (p_id p) (map fst (p_subs p)).
  Proof.
    pose proof Hwf as W. unfold wf_prog in W.
    apply andb_true_iff in W. destruct W as [W W4].
    apply andb_true_iff in W. destruct W as [W W3].
    apply andb_true_iff in W. destruct W as [W1 W2].
    split; [|split].
    - destruct (p_main p) as [|s rest0]; [discriminate|]. destruct s; try discriminate.
      exists intent, rest0. split; [reflexivity|]. simpl in W2. exact W2.
    - apply Forall_forall. intros nb Hin. rewrite forallb_forall in W3. specialize (W3 _ Hin).
      apply andb_true_iff in W3. destruct W3 as [Wa Wb]. split; [|exact Wb].
      destruct (snd nb); [discriminate|congruence].
    - simpl in W4. apply andb_true_iff in W4. destruct W4 as [W4 _]. apply negb_true_iff in W4.
      intros Hin. unfold string_in in W4.
      assert (existsb (String.eqb (p_id p)) (map fst (p_subs p)) = true).
      { apply existsb_exists. exists (p_id p). split; [exact Hin|apply String.eqb_refl]. }
      congruence.
  Qed.

  Lemma lookup_in : forall {A} k (l : list (string * A)) v, lookup k l = Some v -> In (k, v) l.
  Proof.
    induction l as [|[k' v'] l IH]; intros v H; simpl in *; [discriminate|].
    destruct (String.eqb k k') eqn:E.
    - inversion H; subst. apply String.eqb_eq in E. subst. left; reflexivity.
    - right. apply IH. exact H.
  Qed.

  Lemma flow_body_wf : forall fl b, flow_body fl = Some b -> wf_block false b = true /\ 0 < zlen (code b).
  Proof.
    intros fl b H. unfold flow_body, all_flows in H. simpl in H.
    destruct wf_parts as ((i0 & rest0 & Em & Hr) & Hs & _).
    destruct (String.eqb fl (p_id p)).
    - inversion H; subst b. rewrite Em. split; [simpl; exact Hr|].
      unfold code. simpl compile_block. rewrite zlen_cons.
      pose proof (zlen_nonneg (compile_block None rest0)). lia.
    - apply lookup_in in H. rewrite Forall_forall in Hs. destruct (Hs _ H) as [Hne Hb]. simpl in *.
      split; [exact Hb|]. unfold code. rewrite compile_block_length.
      destruct b as [|s r]; [congruence|]. rewrite bsize_cons.
      pose proof (size_pos s). pose proof (bsize_nonneg r). lia.
  Qed.

  Lemma find_cfg : forall fl b, flow_body fl = Some b -> find_config cs fl = Some (cfg_of fl b).
  Proof.
    intros fl b H. unfold flow_body, all_flows in H. simpl in H. unfold cs, compile_prog, cfg_of. simpl.
    rewrite (String.eqb_sym (p_id p) fl). destruct (String.eqb fl (p_id p)) eqn:E.
    - inversion H; subst. apply String.eqb_eq in E. subst fl. reflexivity.
    - simpl. clear - H. induction (p_subs p) as [|[k v] l IH]; simpl in *; [discriminate|].
      rewrite (String.eqb_sym k fl). destruct (String.eqb fl k) eqn:E2.
      + inversion H; subst. apply String.eqb_eq in E2. subst. reflexivity.
      + apply IH. exact H.
  Qed.

  Lemma find_cfg_none : forall fl, flow_body fl = None -> find_config cs fl = None.
  Proof.
    intros fl H. unfold flow_body, all_flows in H. simpl in H. unfold cs, compile_prog. simpl.
    rewrite (String.eqb_sym (p_id p) fl). destruct (String.eqb fl (p_id p)); [discriminate|].
    clear - H. induction (p_subs p) as [|[k v] l IH]; simpl in *; [reflexivity|].
    rewrite (String.eqb_sym k fl). destruct (String.eqb fl k); [discriminate|]. apply IH. exact H.
  Qed.

  Lemma main_body : flow_body (p_id p) = Some (p_main p).
  Proof. unfold flow_body, all_flows. simpl. rewrite String.eqb_refl. reflexivity. Qed.

  (* ---------------------------------------------------------------- frames and chains *)

  Definition active_at (fs : fstate) (w : wait) (kw : kont) : Prop :=
    f_status fs = Active /\ f_intby fs = None /\
    exists b lp, flow_body (f_flow fs) = Some b /\ instr (code b) (f_head fs) = Some (elem_of_wait w) /\
                 wf_wait w /\ kmatch (code b) kw (f_head fs + 1) lp.

  Definition interrupted_at (fs : fstate) (k : kont) (u : N) : Prop :=
    f_status fs = Interrupted /\ f_intby fs = Some u /\
    exists b lp, flow_body (f_flow fs) = Some b /\ kmatch (code b) k (f_head fs) lp.

  (* chain l w kw stk top: l = [f0; f1; ...; fm], f0 waits on w with continuation kw, f(i+1) is
     interrupted by fi with continuation stk[i]; top = uid of fm *)
  Inductive chain : list fstate -> wait -> kont -> list kont -> N -> Prop :=
  | chain_one : forall f0 w kw, active_at f0 w kw -> chain [f0] w kw [] (f_uid f0)
  | chain_snoc : forall l fi w kw stk ki top,
      chain l w kw stk top -> interrupted_at fi ki top ->
      chain (l ++ [fi]) w kw (stk ++ [ki]) (f_uid fi).

  Lemma chain_nonempty : forall l w kw stk top, chain l w kw stk top -> l <> [].
  Proof. induction 1; [discriminate|]. destruct l; discriminate. Qed.

  Lemma chain_last : forall l x w kw stk top,
    chain (l ++ [x]) w kw stk top ->
    top = f_uid x /\
    ((l = [] /\ stk = [] /\ active_at x w kw) \/
     (exists stk0 ki top0, stk = stk0 ++ [ki] /\ chain l w kw stk0 top0 /\ interrupted_at x ki top0)).
  Proof.
    intros l x w kw stk top H. inversion H; subst.
    - destruct l; [|destruct l; discriminate]. simpl in *. inversion H0; subst. split; [reflexivity|].
      left. auto.
    - match goal with E : _ ++ [_] = _ ++ [_] |- _ => apply app_inj_tail in E; destruct E; subst end.
      split; [reflexivity|]. right. do 3 eexists. split; [reflexivity|]. split; eassumption.
  Qed.

  Lemma chain_last_head : forall l x w kw stk top, chain (l ++ [x]) w kw stk top -> 0 <= f_head x.
  Proof.
    intros l x w kw stk top H. destruct (chain_last _ _ _ _ _ _ H) as (_ & [(_ & _ & Ha)|(stk0 & ki & top0 & _ & _ & Hi)]).
    - destruct Ha as (_ & _ & b & lp & _ & Hi & _). apply instr_lt in Hi. lia.
    - destruct Hi as (_ & _ & b & lp & _ & Hk). apply kmatch_range in Hk. lia.
  Qed.

  Lemma chain_last_flow : forall l x w kw stk top, chain (l ++ [x]) w kw stk top ->
    exists b, flow_body (f_flow x) = Some b.
  Proof.
    intros l x w kw stk top H. destruct (chain_last _ _ _ _ _ _ H) as (_ & [(_ & _ & Ha)|(stk0 & ki & top0 & _ & _ & Hi)]).
    - destruct Ha as (_ & _ & b & lp & Hb & _). eauto.
    - destruct Hi as (_ & _ & b & lp & Hb & _). eauto.
  Qed.

  (* ---------------------------------------------------------------- states *)

  Definition end_state (s : state) (c u : ctx) (n : N) : state :=
    {| st_ctx := c; st_fss := st_fss s; st_next := st_next s; st_by := st_by s; st_prio := st_prio s;
       st_upd := u; st_uid := n |}.

  Definition wait_state (s : state) (c u : ctx) (n : N) (pushed : list fstate) (w : wait) (u0 : N) : state :=
    if actionable w
    then {| st_ctx := c; st_fss := st_fss s ++ pushed; st_next := Some (elem_of_wait w); st_by := Some u0;
            st_prio := Qred (1 * 1); st_upd := u; st_uid := n |}
    else {| st_ctx := c; st_fss := st_fss s ++ pushed; st_next := st_next s; st_by := st_by s;
            st_prio := st_prio s; st_upd := u; st_uid := n |}.

  Definition first_uid (l : list fstate) (d : N) : N := match l with x :: _ => f_uid x | [] => d end.

  Lemma first_uid_app : forall l m d, l <> [] -> first_uid (l ++ m) d = first_uid l d.
  Proof. intros [|x l] m d H; [congruence|reflexivity]. Qed.

  Definition post_g (r : xres) (s : state) (fs : fstate) (res : res (state * fstate)) : Prop :=
    match r with
    | XEnd c' u' => exists h n', res = Ok (end_state s c' u' n', fs_head fs h) /\ h < 0 /\ (st_uid s <= n')%N
    | XWait w kw stk c' u' =>
        exists pushed fs' n',
          res = Ok (wait_state s c' u' n' pushed w (first_uid (pushed ++ [fs']) 0%N), fs') /\
          chain (pushed ++ [fs']) w kw stk (f_uid fs) /\
          f_uid fs' = f_uid fs /\ f_flow fs' = f_flow fs /\
          (st_uid s <= n')%N /\
          Forall (fun f => (st_uid s <= f_uid f < n')%N) pushed /\ NoDup (map f_uid pushed)
    | XExc => res = Exc
    | XFuel => False
    end.

  Lemma wait_state_nil : forall s c u w u0,
    (if actionable w then st_set_next (st_set_ctx s c u) (Some (elem_of_wait w)) (Some u0) (Qred (1 * 1))
     else st_set_ctx s c u) = wait_state s c u (st_uid s) [] w u0.
  Proof.
    intros. unfold wait_state. rewrite app_nil_r. destruct (actionable w); destruct s; reflexivity.
  Qed.

  Lemma wait_state_push : forall s c u n l w u0 x,
    st_push (wait_state s c u n l w u0) x = wait_state s c u n (l ++ [x]) w u0.
  Proof.
    intros. unfold wait_state, st_push, st_set_fss. destruct (actionable w); simpl; rewrite <- app_assoc; reflexivity.
  Qed.

  Lemma wait_state_next : forall s c u n l w u0, st_next s = None ->
    st_next (wait_state s c u n l w u0) = if actionable w then Some (elem_of_wait w) else None.
  Proof. intros. unfold wait_state. destruct (actionable w); simpl; auto. Qed.

  Lemma wait_state_fss : forall s c u n l w u0, st_fss (wait_state s c u n l w u0) = st_fss s ++ l.
  Proof. intros. unfold wait_state. destruct (actionable w); reflexivity. Qed.

  Lemma wait_state_ctx : forall s c u n l w u0,
    st_ctx (wait_state s c u n l w u0) = c /\ st_upd (wait_state s c u n l w u0) = u /\
    st_uid (wait_state s c u n l w u0) = n.
  Proof. intros. unfold wait_state. destruct (actionable w); auto. Qed.

  (* the second _record_next_step of _call_subflow never changes anything *)
  Lemma second_record_noop : forall s c u n l w u0 x b,
    st_next s = None ->
    flow_body (f_flow x) = Some b -> instr (code b) (f_head x) = Some (elem_of_wait w) -> wf_wait w ->
    record_next_step (wait_state s c u n l w u0) x (cfg_of (f_flow x) b) 1 = Ok (wait_state s c u n l w u0).
  Proof.
    intros s c u n l w u0 x b Hn Hb Hi Hw.
    pose proof (instr_lt _ _ _ Hi) as Hrg.
    pose proof (instr_pyidx _ _ _ (proj1 Hrg) Hi) as Hpy.
    unfold record_next_step, wait_state. destruct (actionable w) eqn:Ea; cbn [st_next st_prio].
    - reflexivity.
    - rewrite Hn. cbn [orb]. change (fc_elems (cfg_of (f_flow x) b)) with (code b). rewrite Hpy. cbn [of_opt bind].
      rewrite (is_actionable_wait _ Hw), Ea. reflexivity.
  Qed.

  Lemma sws_gen : forall n c u blk k r,
    exec (all_flows p) n c u blk k = r -> r <> XFuel ->
    forall b pc lp s fs,
      flow_body (f_flow fs) = Some b ->
      code_at (code b) pc (compile_block (rel lp pc) blk) ->
      wf_block (inl lp) blk = true ->
      kmatch (code b) k (pc + bsize blk) lp ->
      st_ctx s = c -> st_upd s = u -> st_next s = None ->
      f_head fs = pc -> f_status fs = Active -> f_intby fs = None ->
      exists res, post_g r s fs res /\ evl (fun f => sws o f cs s fs) res.
  Proof.
    induction n as [n IH] using lt_wf_ind.
    intros c u blk k r Hr Hnf b pc lp s fs Hb Hcode Hwfb Hk Hc Hu Hn Hh Hst Hib.
    destruct (exec_decomp _ _ _ _ _ _ _ Hr Hnf) as (m & Hm & Hal).
    destruct (flow_body_wf _ _ Hb) as (Hwfbody & Hlen).
    remember (lexec n c u blk k) as lr eqn:Elr. symmetry in Elr.
    assert (Hlnf : lr <> LFuel) by (intros E; rewrite E in Hal; exact Hal).
    destruct (lexec_slide (code b) n c u blk k lr pc lp Elr Hlnf Hcode Hwfb Hk Hlen) as (sr & Hpost & F & HF).
    assert (Hun : forall f, sws o (S f) cs s fs =
      match slide f (code b) pc c u with
      | SFuel => Fuel | SErr => Exc | SNone => Exc
      | SOk h c1 u1 =>
          let s1 := st_set_ctx s c1 u1 in
          let fs1 := fs_head fs h in
          if h >=? 0 then
            bind (of_opt (pyidx (code b) h)) (fun el =>
            match el with
            | LFlow name =>
                let sub := new_fstate (st_uid s1) name 0 in
                let s2 := st_bump_uid s1 in
                let fs2 := fs_head fs1 (h + 1) in
                bind (sws o f cs s2 sub) (fun r0 =>
                let '(s3, sub') := r0 in
                if f_head sub' <? 0 then sws o f cs s3 fs2
                else
                  let fs3 := fs_intby (fs_status fs2 Interrupted) (Some (f_uid sub')) in
                  let s4 := st_push s3 sub' in
                  bind (of_opt (find_config cs (f_flow sub'))) (fun scfg =>
                  bind (if o_guard o && negb (status_eqb (f_status sub') Active) then Ok s4
                        else record_next_step s4 sub' scfg 1) (fun s5 =>
                  Ok (s5, fs3))))
            | _ => bind (record_next_step s1 fs1 (cfg_of (f_flow fs) b) 1) (fun s2 => Ok (s2, fs1))
            end)
          else Ok (s1, fs1)
      end).
    { intros f. rewrite sws_S, (find_cfg _ _ Hb). cbn [of_opt bind]. rewrite Hh, Hc, Hu. reflexivity. }
    clear Hr.
    destruct lr as [w k' c' u'|name kk c' u'|c' u'| |]; cbn [after_local slide_post] in Hal, Hpost; try contradiction.
    - (* blocks in this frame *)
      subst r. destruct Hpost as (pw & lp' & Esr & Hi & Hw & Hk').
      pose proof (instr_lt _ _ _ Hi) as Hrg.
      pose proof (instr_pyidx _ _ _ (proj1 Hrg) Hi) as Hpy.
      exists (Ok (wait_state s c' u' (st_uid s) [] w (f_uid fs), fs_head fs pw)). split.
      + unfold post_g. exists [], (fs_head fs pw), (st_uid s). simpl. repeat split; auto; try lia; try constructor.
        change (f_uid fs) with (f_uid (fs_head fs pw)). constructor.
        unfold active_at. simpl. repeat split; auto. exists b, lp'. repeat split; auto.
      + exists (S F). intros f Hf. destruct f as [|f]; [lia|]. rewrite Hun, (HF f) by lia. rewrite Esr. cbv zeta.
        replace (pw >=? 0) with true by (symmetry; apply Z.geb_le; lia).
        rewrite Hpy. cbn [of_opt bind].
        assert (Hrec : record_next_step (st_set_ctx s c' u') (fs_head fs pw) (cfg_of (f_flow fs) b) 1
                       = Ok (wait_state s c' u' (st_uid s) [] w (f_uid fs))).
        { rewrite (record_next_step_fresh _ _ _ _ (elem_of_wait w)); [|exact Hn|exact Hpy].
          rewrite (is_actionable_wait _ Hw). f_equal. apply wait_state_nil. }
        destruct w; cbn [elem_of_wait] in *; rewrite Hrec; reflexivity.
    - (* a call *)
      destruct Hal as (rest & k' & Ekk & Er). subst kk.
      destruct Hpost as (pw & lp' & rest' & k'' & Ekk & Esr & Hi & Hcrest & Hwrest & Hk'').
      inversion Ekk; subst rest' k''. clear Ekk.
      pose proof (instr_lt _ _ _ Hi) as Hrg.
      pose proof (instr_pyidx _ _ _ (proj1 Hrg) Hi) as Hpy.
      set (s1 := st_set_ctx s c' u') in *.
      set (sub := new_fstate (st_uid s1) name 0).
      set (s2 := st_bump_uid s1).
      set (fs2 := fs_head (fs_head fs pw) (pw + 1)).
      assert (Hun2 : forall f, (F <= f)%nat -> sws o (S f) cs s fs =
                bind (sws o f cs s2 sub) (fun r0 =>
                let '(s3, sub') := r0 in
                if f_head sub' <? 0 then sws o f cs s3 fs2
                else
                  let fs3 := fs_intby (fs_status fs2 Interrupted) (Some (f_uid sub')) in
                  let s4 := st_push s3 sub' in
                  bind (of_opt (find_config cs (f_flow sub'))) (fun scfg =>
                  bind (if o_guard o && negb (status_eqb (f_status sub') Active) then Ok s4
                        else record_next_step s4 sub' scfg 1) (fun s5 =>
                  Ok (s5, fs3))))).
      { intros f Hf. rewrite Hun, (HF f) by lia. rewrite Esr. cbv zeta.
        replace (pw >=? 0) with true by (symmetry; apply Z.geb_le; lia).
        rewrite Hpy. reflexivity. }
      change (lookup name (all_flows p)) with (flow_body name) in Er.
      destruct (flow_body name) as [body|] eqn:Ebody.
      2:{ (* unknown flow *)
        subst r. exists Exc. split; [reflexivity|].
        exists (S (S F)). intros f Hf. destruct f as [|[|f]]; try lia.
        rewrite Hun2 by lia. rewrite sws_S. change (f_flow sub) with name.
        rewrite (find_cfg_none _ Ebody). reflexivity. }
      destruct (flow_body_wf _ _ Ebody) as (Hwfsub & Hlensub).
      remember (exec (all_flows p) m c' u' body KDone) as r1 eqn:Er1. symmetry in Er1.
      assert (Hr1nf : r1 <> XFuel) by (intros E; subst r1; rewrite E in Er; congruence).
      assert (Hsubcode : code_at (code body) 0 (compile_block (rel None 0) body)) by apply code_at_whole.
      assert (Hsubk : kmatch (code body) KDone (0 + bsize body) None).
      { apply km_done. unfold code. rewrite compile_block_length. lia. }
      destruct (IH m Hm c' u' body KDone r1 Er1 Hr1nf body 0 None s2 sub
                   Ebody Hsubcode Hwfsub Hsubk eq_refl eq_refl Hn eq_refl eq_refl eq_refl)
        as (res1 & Hpost1 & Hev1).
      destruct r1 as [w kw stk1 c2 u2|c2 u2| |]; simpl in Hpost1; try contradiction.
      + (* the callee blocks *)
        subst r. destruct Hpost1 as (pushed1 & sub' & n2 & Eres1 & Hch1 & Hu1 & Hf1 & Hn2 & Hb1 & Hnd1).
        pose proof (chain_last_head _ _ _ _ _ _ Hch1) as Hhd.
        set (s3 := wait_state s2 c2 u2 n2 pushed1 w (first_uid (pushed1 ++ [sub']) 0%N)) in *.
        set (fs3 := fs_intby (fs_status fs2 Interrupted) (Some (f_uid sub'))).
        exists (Ok (wait_state s c2 u2 n2 (pushed1 ++ [sub']) w (first_uid ((pushed1 ++ [sub']) ++ [fs3]) 0%N), fs3)).
        split.
        * simpl. exists (pushed1 ++ [sub']), fs3, n2. split; [reflexivity|]. split; [|split; [reflexivity|split; [reflexivity|]]].
          -- change (f_uid fs) with (f_uid fs3).
             apply chain_snoc with (top := f_uid sub).
             ++ exact Hch1.
             ++ unfold interrupted_at, fs3. simpl. split; [reflexivity|]. split; [rewrite Hu1; reflexivity|].
                exists b, lp'. split; [exact Hb|]. apply km_seq; assumption.
          -- simpl in Hn2. split; [lia|]. split.
             ++ apply Forall_app. split.
                ** eapply Forall_impl; [|exact Hb1]. simpl. intros a Ha. lia.
                ** constructor; [|constructor]. rewrite Hu1. simpl. lia.
             ++ rewrite map_app. simpl. apply NoDup_app_snoc_uid; auto.
                intros Hin. rewrite in_map_iff in Hin. destruct Hin as (y & Ey & Hy).
                rewrite Forall_forall in Hb1. specialize (Hb1 _ Hy). rewrite Ey, Hu1 in Hb1. simpl in Hb1. lia.
        * destruct Hev1 as (F1 & HF1). exists (S (Nat.max F F1)). intros f Hf. destruct f as [|f]; [lia|].
          rewrite Hun2 by lia. rewrite (HF1 f) by lia. rewrite Eres1. cbn [bind]. cbv zeta.
          replace (f_head sub' <? 0) with false by (symmetry; apply Z.ltb_ge; exact Hhd).
          rewrite Hf1. change (f_flow sub) with name. rewrite (find_cfg _ _ Ebody). cbn [of_opt bind].
          fold s3. rewrite Hguard. cbn [andb].
          assert (Hnoop : (if negb (status_eqb (f_status sub') Active) then Ok (st_push s3 sub')
                           else record_next_step (st_push s3 sub') sub' (cfg_of name body) 1)
                          = Ok (st_push s3 sub')).
          { destruct (chain_last _ _ _ _ _ _ Hch1) as (_ & [(E1 & E2 & Ha)|(stk0 & ki & top0 & _ & _ & Hi3)]).
            - destruct Ha as (Hs' & _ & b' & lp2 & Hb' & Hi2 & Hw2 & _). rewrite Hs'. cbn [status_eqb negb].
              unfold s3. rewrite wait_state_push.
              rewrite Hf1 in Hb'. change (f_flow sub) with name in Hb'. rewrite Ebody in Hb'. inversion Hb'; subst b'.
              replace (cfg_of name body) with (cfg_of (f_flow sub') body) by (rewrite Hf1; reflexivity).
              apply second_record_noop; auto. rewrite Hf1. exact Ebody.
            - destruct Hi3 as (Hs' & _). rewrite Hs'. reflexivity. }
          rewrite Hnoop. cbn [bind]. unfold s3. rewrite wait_state_push.
          rewrite (first_uid_app (pushed1 ++ [sub']) [fs3]) by (destruct pushed1; discriminate). reflexivity.
      + (* the callee ran to its end: continue after the call *)
        destruct Hpost1 as (h1 & n2 & Eres1 & Hneg1 & Hn2).
        set (s3 := end_state s2 c2 u2 n2) in *.
        assert (Hrnf : r <> XFuel) by exact Hnf.
        assert (Hk2 : kmatch (code b) k' (pw + 1 + bsize rest) lp') by exact Hk''.
        destruct (IH m Hm c2 u2 rest k' r (eq_sym Er) Hrnf b (pw + 1) lp' s3 fs2
                     Hb Hcrest Hwrest Hk2 eq_refl eq_refl Hn eq_refl Hst Hib)
          as (res2 & Hpost2 & Hev2).
        exists res2. split.
        * destruct r as [w kw stk c3 u3|c3 u3| |]; simpl in Hpost2 |- *; try contradiction; auto.
          -- destruct Hpost2 as (pushed & fs' & n3 & Eres2 & Hch & Hu' & Hf' & Hn3 & Hbd & Hnd).
             exists pushed, fs', n3. simpl in Hn2, Hn3. repeat split; auto; try lia.
             eapply Forall_impl; [|exact Hbd]. simpl. intros a Ha. lia.
          -- destruct Hpost2 as (h & n3 & Eres2 & Hneg & Hn3). exists h, n3. simpl in Hn2, Hn3. repeat split; auto. lia.
        * destruct Hev1 as (F1 & HF1). destruct Hev2 as (F2 & HF2).
          exists (S (Nat.max F (Nat.max F1 F2))). intros f Hf. destruct f as [|f]; [lia|].
          rewrite Hun2 by lia. rewrite (HF1 f) by lia. rewrite Eres1. cbn [bind]. cbv zeta.
          replace (f_head (fs_head sub h1) <? 0) with true by (symmetry; apply Z.ltb_lt; simpl; lia).
          apply HF2. lia.
      + (* exception in the callee *)
        subst r res1. exists Exc. split; [reflexivity|].
        destruct Hev1 as (F1 & HF1). exists (S (Nat.max F F1)). intros f Hf. destruct f as [|f]; [lia|].
        rewrite Hun2 by lia. rewrite (HF1 f) by lia. reflexivity.
    - (* the body ends *)
      subst r. destruct Hpost as (h & Esr & Hneg).
      exists (Ok (end_state s c' u' (st_uid s), fs_head fs h)). split.
      + simpl. exists h, (st_uid s). repeat split; auto. lia.
      + exists (S F). intros f Hf. destruct f as [|f]; [lia|]. rewrite Hun, (HF f) by lia. rewrite Esr. cbv zeta.
        replace (h >=? 0) with false by (symmetry; rewrite Z.geb_leb; apply Z.leb_gt; lia).
        unfold end_state. destruct s; reflexivity.
    - (* exception *)
      subst r sr. exists Exc. split; [reflexivity|].
      exists (S F). intros f Hf. destruct f as [|f]; [lia|]. rewrite Hun, (HF f) by lia. reflexivity.
  Qed.

  (* ---------------------------------------------------------------- the resume loop *)

  (* the verdict of the resume loop on an interrupted flow state *)
  Definition verdict (l : list fstate) (x : fstate) : bool * bool :=
    match f_intby x with
    | None => (true, false)
    | Some u =>
        match find_uid l u with
        | Some g => (status_eqb (f_status g) Completed, status_eqb (f_status g) Aborted)
        | None => (false, false)
        end
    end.

  (* a flow state the resume loop leaves alone *)
  Definition quiet_fs (l : list fstate) (x : fstate) : Prop :=
    status_eqb (f_status x) Interrupted = false \/ verdict l x = (false, false).

  (* what the loop does to a flow state it picks up *)
  Definition process (f : nat) (s : state) (j : nat) (x : fstate) : res state :=
    let '(sr, sa) := verdict (st_fss s) x in
    if sr then
      let fs1 := fs_intby (fs_status x Active) None in
      bind (sws o f cs (st_set_fss s (list_set (st_fss s) j fs1)) fs1) (fun r =>
      let '(s2, fs2) := r in
      Ok (st_set_fss s2 (list_set (st_fss s2) j (if f_head fs2 <? 0 then fs_status fs2 Completed else fs2))))
    else if sa then Ok (st_set_fss s (list_set (st_fss s) j (fs_intby (fs_status x Aborted) None)))
    else Ok s.

  Lemma resume_pass_quiet_step : forall f s i ch x,
    nth_error (st_fss s) i = Some x -> quiet_fs (st_fss s) x ->
    resume_pass o (S f) cs s i ch = resume_pass o f cs s (S i) ch.
  Proof.
    intros f s i ch x Hn Hq. rewrite resume_pass_S, Hn.
    destruct Hq as [Hq|Hq].
    - rewrite Hq. reflexivity.
    - destruct (status_eqb (f_status x) Interrupted); [|reflexivity].
      unfold verdict in Hq. rewrite Hq. reflexivity.
  Qed.

  Lemma resume_pass_hit_step : forall f s i ch x,
    nth_error (st_fss s) i = Some x -> status_eqb (f_status x) Interrupted = true ->
    verdict (st_fss s) x <> (false, false) ->
    resume_pass o (S f) cs s i ch = bind (process f s i x) (fun s2 => resume_pass o f cs s2 (S i) true).
  Proof.
    intros f s i ch x Hn Hi Hv. rewrite resume_pass_S, Hn, Hi. unfold process.
    unfold verdict in *. destruct (f_intby x) as [u|].
    - destruct (find_uid (st_fss s) u) as [g|]; [|congruence].
      destruct (status_eqb (f_status g) Completed); cbv iota beta.
      + destruct (sws o f cs _ _) as [[s2 fs2]| |]; reflexivity.
      + destruct (status_eqb (f_status g) Aborted); [reflexivity|congruence].
    - cbv iota beta. destruct (sws o f cs _ _) as [[s2 fs2]| |]; reflexivity.
  Qed.

  (* all flow states from index i on are quiet *)
  Definition quiet_from (s : state) (i : nat) : Prop :=
    forall j x, (i <= j)%nat -> nth_error (st_fss s) j = Some x -> quiet_fs (st_fss s) x.

  Lemma resume_pass_quiet : forall s n i f ch,
    quiet_from s i -> (List.length (st_fss s) - i <= n)%nat -> (n < f)%nat ->
    resume_pass o f cs s i ch = Ok (s, ch).
  Proof.
    intros s. induction n as [|n IH]; intros i f ch Hq Hlen Hf.
    - destruct f as [|f]; [lia|]. rewrite resume_pass_S.
      destruct (nth_error (st_fss s) i) eqn:E; [|reflexivity].
      assert (i < List.length (st_fss s))%nat by (apply nth_error_Some; congruence). lia.
    - destruct f as [|f]; [lia|].
      destruct (nth_error (st_fss s) i) as [x|] eqn:E.
      + rewrite (resume_pass_quiet_step f s i ch x E (Hq i x (le_n _) E)).
        apply IH; [|lia|lia]. intros j y Hj. apply Hq. lia.
      + rewrite resume_pass_S, E. reflexivity.
  Qed.

  (* skipping the quiet flow states between i and j *)
  Lemma resume_pass_skip : forall s d i f ch,
    (forall j x, (i <= j < i + d)%nat -> nth_error (st_fss s) j = Some x -> quiet_fs (st_fss s) x) ->
    (i + d <= List.length (st_fss s))%nat ->
    resume_pass o (d + f) cs s i ch = resume_pass o f cs s (i + d) ch.
  Proof.
    intros s. induction d as [|d IH]; intros i f ch Hq Hlen.
    - simpl. replace (i + 0)%nat with i by lia. reflexivity.
    - destruct (nth_error (st_fss s) i) as [x|] eqn:E.
      2:{ apply nth_error_None in E. lia. }
      change (S d + f)%nat with (S (d + f)).
      rewrite (resume_pass_quiet_step (d + f) s i ch x E); [|apply (Hq i x); [lia|exact E]].
      rewrite IH; [f_equal; lia| |lia]. intros j y Hj. apply Hq. lia.
  Qed.

  (* the rest of the loop from position (i, ch) of a pass *)
  Definition finish (f1 f2 : nat) (s : state) (i : nat) (ch : bool) : res state :=
    bind (resume_pass o f1 cs s i ch) (fun r =>
    let '(s', ch') := r in if ch' then resume_loop o f2 cs s' else Ok s').

  Definition loops_to (s : state) (i : nat) (ch : bool) (r : res state) : Prop :=
    exists F, forall f1 f2, (F <= f1)%nat -> (F <= f2)%nat -> finish f1 f2 s i ch = r.

  Lemma resume_loop_finish : forall f s, resume_loop o (S f) cs s = finish (S f) f s 0 false.
  Proof. intros. rewrite resume_loop_S. reflexivity. Qed.

  Lemma loops_to_loop : forall s r, loops_to s 0 false r -> evl (fun f => resume_loop o f cs s) r.
  Proof.
    intros s r (F & H). exists (S F). intros f Hf. destruct f as [|f]; [lia|].
    rewrite resume_loop_finish. apply H; lia.
  Qed.

  Lemma loops_quiet : forall s i ch, quiet_from s 0 -> loops_to s i ch (Ok s).
  Proof.
    intros s i ch Hq. exists (List.length (st_fss s) + 2)%nat. intros f1 f2 H1 H2. unfold finish.
    rewrite (resume_pass_quiet s (List.length (st_fss s)) i f1 ch); [|intros j x _; apply Hq; lia|lia|lia].
    cbn [bind]. destruct ch; [|reflexivity].
    destruct f2 as [|f2]; [lia|]. rewrite resume_loop_finish. unfold finish.
    rewrite (resume_pass_quiet s (List.length (st_fss s)) 0 (S f2) false); [reflexivity|exact Hq|lia|lia].
  Qed.

  (* the loop picks up the only flow state that is not quiet, wherever it sits *)
  Lemma loops_step : forall s j x r i ch,
    nth_error (st_fss s) j = Some x ->
    status_eqb (f_status x) Interrupted = true -> verdict (st_fss s) x <> (false, false) ->
    (forall j' y, j' <> j -> nth_error (st_fss s) j' = Some y -> quiet_fs (st_fss s) y) ->
    ((j < i)%nat -> ch = true) ->
    (exists F, forall f1 f2, (F <= f1)%nat -> (F <= f2)%nat ->
       bind (process f1 s j x) (fun s2 => finish f1 f2 s2 (S j) true) = r) ->
    loops_to s i ch r.
  Proof.
    intros s j x r i ch Hn Hi Hv Hq Hch (F & HF).
    assert (Hjl : (j < List.length (st_fss s))%nat) by (apply nth_error_Some; congruence).
    exists (F + List.length (st_fss s) + 3)%nat. intros f1 f2 H1 H2.
    assert (Hfrom0 : forall g1 g2, (F + j + 1 <= g1)%nat -> (F <= g2)%nat -> finish g1 g2 s 0 false = r).
    { intros g1 g2 G1 G2. unfold finish.
      replace g1 with (j + (g1 - j))%nat by lia.
      rewrite (resume_pass_skip s j 0 (g1 - j) false); [|intros j' y Hj'; apply Hq; lia|lia].
      simpl plus. destruct (g1 - j)%nat as [|g] eqn:Eg; [lia|].
      rewrite (resume_pass_hit_step g s j false x Hn Hi Hv).
      specialize (HF g g2). unfold finish in HF.
      destruct (process g s j x) as [s2| |] eqn:Ep; cbn [bind] in *; apply HF; lia. }
    destruct (Nat.le_gt_cases i j) as [Hij|Hij].
    - (* the pass has not reached j yet *)
      unfold finish. replace f1 with ((j - i) + (f1 - (j - i)))%nat by lia.
      rewrite (resume_pass_skip s (j - i) i (f1 - (j - i)) ch); [|intros j' y Hj'; apply Hq; lia|lia].
      replace (i + (j - i))%nat with j by lia.
      destruct (f1 - (j - i))%nat as [|g] eqn:Eg; [lia|].
      rewrite (resume_pass_hit_step g s j ch x Hn Hi Hv).
      specialize (HF g f2). unfold finish in HF.
      destruct (process g s j x) as [s2| |] eqn:Ep; cbn [bind] in *; apply HF; lia.
    - (* the pass is already beyond j: it ends, and the next pass finds x *)
      rewrite (Hch Hij). unfold finish.
      rewrite (resume_pass_quiet s (List.length (st_fss s)) i f1 true); [|intros j' y Hj'; apply Hq; lia|lia|lia].
      cbn [bind]. destruct f2 as [|f2]; [lia|]. rewrite resume_loop_finish. apply Hfrom0; lia.
  Qed.

  (* ---------------------------------------------------------------- stacks, bottom-up view *)

  (* itail a tl ks: the callers above a flow state with uid a, innermost first *)
  Inductive itail : N -> list fstate -> list kont -> Prop :=
  | it_nil : forall a, itail a [] []
  | it_cons : forall a t k tl ks, interrupted_at t k a -> itail (f_uid t) tl ks -> itail a (t :: tl) (k :: ks).

  Fixpoint last_uid (a : N) (tl : list fstate) : N :=
    match tl with [] => a | t :: tl' => last_uid (f_uid t) tl' end.

  Lemma itail_snoc : forall a tl ks x k,
    itail a tl ks -> interrupted_at x k (last_uid a tl) -> itail a (tl ++ [x]) (ks ++ [k]).
  Proof.
    intros a tl ks x k H. induction H; intros Hx; simpl in *.
    - constructor; [exact Hx|constructor].
    - constructor; [assumption|]. apply IHitail. exact Hx.
  Qed.

  Lemma last_uid_snoc : forall a tl x, last_uid a (tl ++ [x]) = f_uid x.
  Proof. intros a tl. revert a. induction tl; intros a0 x; simpl; auto. Qed.

  Lemma chain_split : forall l w kw stk top,
    chain l w kw stk top ->
    exists f0 tl, l = f0 :: tl /\ active_at f0 w kw /\ itail (f_uid f0) tl stk /\ top = last_uid (f_uid f0) tl.
  Proof.
    induction 1.
    - exists f0, []. split; [reflexivity|]. split; [exact H|]. split; [constructor|reflexivity].
    - destruct IHchain as (f0 & tl & El & Ha & Hi & Et). subst l top.
      exists f0, (tl ++ [fi]). split; [reflexivity|]. split; [exact Ha|]. split.
      + apply itail_snoc; assumption.
      + rewrite last_uid_snoc. reflexivity.
  Qed.

  Lemma chain_app_itail : forall tl ks l w kw stk top,
    chain l w kw stk top -> itail top tl ks ->
    exists top', chain (l ++ tl) w kw (stk ++ ks) top'.
  Proof.
    induction tl as [|t tl IH]; intros ks l w kw stk top Hc Hi; inversion Hi; subst.
    - exists top. rewrite !app_nil_r. exact Hc.
    - destruct (IH ks0 (l ++ [t]) w kw (stk ++ [k]) (f_uid t)) as (top' & Hc').
      + apply chain_snoc with (top := top); assumption.
      + assumption.
      + exists top'. rewrite <- !app_assoc in Hc'. exact Hc'.
  Qed.

  Lemma itail_statuses : forall a tl ks, itail a tl ks -> Forall (fun t => f_status t = Interrupted) tl.
  Proof. induction 1; constructor; auto. destruct H as (Hs & _). exact Hs. Qed.

  Lemma itail_flows : forall a tl ks, itail a tl ks -> Forall (fun t => exists b, flow_body (f_flow t) = Some b) tl.
  Proof. induction 1; constructor; auto. destruct H as (_ & _ & b & lp & Hb & _). eauto. Qed.

  (* every caller is interrupted by a flow state that is the stack's next-lower one *)
  Lemma itail_links : forall a tl ks, itail a tl ks ->
    forall t, In t tl -> exists u, f_intby t = Some u /\ (u = a \/ exists t', In t' tl /\ f_uid t' = u).
  Proof.
    induction 1; intros x Hin; [contradiction|]. destruct Hin as [E|Hin].
    - subst x. destruct H as (_ & Hib & _). exists a. split; [exact Hib|left; reflexivity].
    - destruct (IHitail _ Hin) as (u & Hu & [E|(t' & Ht' & Eu)]).
      + exists u. split; [exact Hu|]. right. exists t. split; [left; reflexivity|auto].
      + exists u. split; [exact Hu|]. right. exists t'. split; [right; exact Ht'|exact Eu].
  Qed.

  (* ---------------------------------------------------------------- unwinding an aborted stack *)

  Definition same_meta (s s' : state) : Prop :=
    st_ctx s' = st_ctx s /\ st_upd s' = st_upd s /\ st_next s' = st_next s /\ st_by s' = st_by s /\
    st_prio s' = st_prio s /\ st_uid s' = st_uid s.

  Lemma nth_error_uid_inj : forall l j j' (x y : fstate),
    NoDup (map f_uid l) -> nth_error l j = Some x -> nth_error l j' = Some y -> f_uid x = f_uid y -> j = j'.
  Proof.
    intros l j j' x y Hnd Hx Hy E.
    assert (Hjx : nth_error (map f_uid l) j = Some (f_uid x)) by (rewrite nth_error_map, Hx; reflexivity).
    assert (Hjy : nth_error (map f_uid l) j' = Some (f_uid x)) by (rewrite nth_error_map, Hy, E; reflexivity).
    rewrite NoDup_nth_error in Hnd. apply Hnd; [|congruence].
    apply nth_error_Some. congruence.
  Qed.

  (* the callers other than the innermost one wait on a flow state that is itself interrupted *)
  Lemma tail_others_quiet : forall l a t k tl ks y,
    NoDup (map f_uid l) ->
    itail a (t :: tl) (k :: ks) ->
    (forall x, In x (t :: tl) -> In x l) ->
    In y tl -> quiet_fs l y.
  Proof.
    intros l a t k tl ks y Hnd Hit Hin Hy. right.
    inversion Hit; subst.
    match goal with H : itail (f_uid t) tl _ |- _ => pose proof (itail_links _ _ _ H y Hy) as Hl end.
    destruct Hl as (u & Hu & Hcase).
    assert (Ht' : exists t', In t' (t :: tl) /\ f_uid t' = u).
    { destruct Hcase as [E|(t' & Ht' & Eu)]; [exists t; split; [left; reflexivity|auto]|exists t'; split; [right; exact Ht'|exact Eu]]. }
    destruct Ht' as (t' & Ht' & Eu).
    unfold verdict. rewrite Hu, <- Eu, (find_uid_in l t' Hnd (Hin _ Ht')).
    pose proof (itail_statuses _ _ _ Hit) as Hst. rewrite Forall_forall in Hst. rewrite (Hst _ Ht'). reflexivity.
  Qed.

  Lemma in_list_set_same : forall {A} (l : list A) j a, (j < List.length l)%nat -> In a (list_set l j a).
  Proof.
    intros A l j a H. eapply nth_error_In. apply list_set_nth_same. exact H.
  Qed.

  Lemma in_list_set_other : forall {A} (l : list A) j a x i, i <> j -> nth_error l i = Some x -> In x (list_set l j a).
  Proof.
    intros A l j a x i Hne Hn. apply (nth_error_In _ i). rewrite list_set_nth_other by auto. exact Hn.
  Qed.

  Lemma abort_unwind : forall tl ks a s i ch,
    NoDup (map f_uid (st_fss s)) ->
    (exists A, In A (st_fss s) /\ f_uid A = a /\ f_status A = Aborted) ->
    itail a tl ks ->
    (forall t, In t tl -> In t (st_fss s)) ->
    (forall x, In x (st_fss s) -> dead x \/ In x tl) ->
    NoDup (map f_uid tl) -> ~ In a (map f_uid tl) ->
    (i = 0%nat \/ ch = true) ->
    exists s', loops_to s i ch (Ok s') /\ same_meta s s' /\
               map f_uid (st_fss s') = map f_uid (st_fss s) /\
               map f_flow (st_fss s') = map f_flow (st_fss s) /\
               Forall dead (st_fss s').
  Proof.
    induction tl as [|t tl IH]; intros ks a s i ch Hnd HA Hit Hin Hothers Hndt Hna Hich.
    - exists s. split; [|split; [|split; [|split]]].
      + apply loops_quiet. intros j x _ Hx. left.
        destruct (Hothers x (nth_error_In _ _ Hx)) as [[E|E]|[]]; rewrite E; reflexivity.
      + unfold same_meta. auto 10.
      + reflexivity.
      + reflexivity.
      + apply Forall_forall. intros x Hx. destruct (Hothers x Hx) as [Hd|[]]. exact Hd.
    - inversion Hit as [|? ? ? ? ks0 Hint Hit']; subst.
      destruct HA as (A & HAin & HAu & HAs).
      destruct Hint as (Hts & Htib & Htb).
      destruct (In_nth_error _ _ (Hin t (or_introl eq_refl))) as (j & Hj).
      assert (Hjl : (j < List.length (st_fss s))%nat) by (apply nth_error_Some; congruence).
      assert (Hv : verdict (st_fss s) t = (false, true)).
      { unfold verdict. rewrite Htib, <- HAu, (find_uid_in _ A Hnd HAin), HAs. reflexivity. }
      set (t' := fs_intby (fs_status t Aborted) None).
      set (s2 := st_set_fss s (list_set (st_fss s) j t')).
      assert (Hmap2 : map f_uid (st_fss s2) = map f_uid (st_fss s)).
      { simpl. apply list_set_map; [exact Hjl|]. intros x Hx. rewrite Hj in Hx. inversion Hx; subst. reflexivity. }
      assert (Hflow2 : map f_flow (st_fss s2) = map f_flow (st_fss s)).
      { simpl. apply list_set_map; [exact Hjl|]. intros x Hx. rewrite Hj in Hx. inversion Hx; subst. reflexivity. }
      inversion Hndt as [|? ? Htn Hndt']; subst.
      (* the rest of the stack, in the state where t is aborted *)
      destruct (IH ks0 (f_uid t) s2 (S j) true) as (s' & Hloop & Hmeta & Hmu & Hmf & Hdead).
      + rewrite Hmap2. exact Hnd.
      + exists t'. split; [apply in_list_set_same; exact Hjl|]. split; reflexivity.
      + exact Hit'.
      + intros x Hx. destruct (In_nth_error _ _ (Hin x (or_intror Hx))) as (jx & Hjx).
        apply (in_list_set_other _ j t' x jx); [|exact Hjx].
        intros E. subst jx. rewrite Hj in Hjx. inversion Hjx; subst x.
        apply Htn. apply in_map. exact Hx.
      + intros x Hx. simpl in Hx. destruct (list_set_in _ _ _ _ Hx) as [E|(jx & Hne & Hjx)].
        * subst x. left. right. reflexivity.
        * destruct (Hothers x (nth_error_In _ _ Hjx)) as [Hd|[E|Hx']]; [left; exact Hd| |right; exact Hx'].
          subst x. exfalso. apply Hne. apply (nth_error_uid_inj (st_fss s) jx j t t Hnd Hjx Hj eq_refl).
      + exact Hndt'.
      + exact Htn.
      + right; reflexivity.
      + exists s'. split; [|split; [|split; [|split]]].
        * apply (loops_step s j t (Ok s') i ch Hj).
          -- rewrite Hts. reflexivity.
          -- rewrite Hv. congruence.
          -- intros j' y Hne Hy.
             destruct (Hothers y (nth_error_In _ _ Hy)) as [[E|E]|[E|Hy']].
             ++ left. rewrite E. reflexivity.
             ++ left. rewrite E. reflexivity.
             ++ subst y. exfalso. apply Hne. apply (nth_error_uid_inj (st_fss s) j' j t t Hnd Hy Hj eq_refl).
             ++ apply (tail_others_quiet (st_fss s) (f_uid A) t k tl ks0 y Hnd Hit Hin Hy').
          -- intros Hlt. destruct Hich as [E|E]; [lia|exact E].
          -- destruct Hloop as (F & HF). exists F. intros f1 f2 H1 H2.
             unfold process. rewrite Hv. cbn [bind]. apply HF; assumption.
        * destruct Hmeta as (M1 & M2 & M3 & M4 & M5 & M6). unfold same_meta. simpl in *. auto 10.
        * rewrite Hmu. exact Hmap2.
        * rewrite Hmf. exact Hflow2.
        * exact Hdead.
  Qed.

  (* ---------------------------------------------------------------- a stack that waits *)

  (* the flow states of list L form a stack waiting on w (plus dead ones) *)
  Definition stack_in (L : list fstate) (w : wait) (kw : kont) (stk : list kont) : Prop :=
    exists f0 tl, active_at f0 w kw /\ itail (f_uid f0) tl stk /\
                  (forall x, In x (f0 :: tl) -> In x L) /\
                  (forall x, In x L -> dead x \/ In x (f0 :: tl)) /\
                  NoDup (map f_uid (f0 :: tl)).

  Lemma dead_not_interrupted : forall x, dead x -> status_eqb (f_status x) Interrupted = false.
  Proof. intros x [E|E]; rewrite E; reflexivity. Qed.

  Lemma stack_quiet : forall L w kw stk,
    NoDup (map f_uid L) -> stack_in L w kw stk -> forall x, In x L -> quiet_fs L x.
  Proof.
    intros L w kw stk Hnd (f0 & tl & Ha & Hit & Hsub & Hsup & Hndl) x Hx.
    destruct (Hsup x Hx) as [Hd|[E|Hin]].
    - left. apply dead_not_interrupted. exact Hd.
    - subst x. left. destruct Ha as (Hs & _). rewrite Hs. reflexivity.
    - right. destruct (itail_links _ _ _ Hit x Hin) as (u & Hu & Hcase).
      assert (Ht' : exists t', In t' (f0 :: tl) /\ f_uid t' = u /\ status_eqb (f_status t') Completed = false /\
                               status_eqb (f_status t') Aborted = false).
      { destruct Hcase as [E|(t' & Ht' & Eu)].
        - exists f0. split; [left; reflexivity|]. split; [auto|]. destruct Ha as (Hs & _). rewrite Hs. split; reflexivity.
        - exists t'. split; [right; exact Ht'|]. split; [exact Eu|].
          pose proof (itail_statuses _ _ _ Hit) as Hst. rewrite Forall_forall in Hst. rewrite (Hst _ Ht'). split; reflexivity. }
      destruct Ht' as (t' & Ht' & Eu & Hc & Hab).
      unfold verdict. rewrite Hu, <- Eu, (find_uid_in L t' Hnd (Hsub _ Ht')), Hc, Hab. reflexivity.
  Qed.

  Lemma chain_flows : forall l w kw stk top, chain l w kw stk top ->
    Forall (fun t => exists b, flow_body (f_flow t) = Some b) l.
  Proof.
    induction 1.
    - constructor; [|constructor]. destruct H as (_ & _ & b & lp & Hb & _). eauto.
    - apply Forall_app. split; [exact IHchain|]. constructor; [|constructor].
      destruct H0 as (_ & _ & b & lp & Hb & _). eauto.
  Qed.

  (* gluing the new top of the stack (what sws returned) onto the callers that were already there *)
  Lemma stack_glue : forall L pushed fs' w kw stk1 tl ks,
    chain (pushed ++ [fs']) w kw stk1 (f_uid fs') -> itail (f_uid fs') tl ks ->
    (forall x, In x L -> dead x \/ In x pushed \/ x = fs' \/ In x tl) ->
    (forall x, In x pushed \/ x = fs' \/ In x tl -> In x L) ->
    NoDup (map f_uid (pushed ++ fs' :: tl)) ->
    stack_in L w kw (stk1 ++ ks).
  Proof.
    intros L pushed fs' w kw stk1 tl ks Hch Hit Hsup Hsub Hnd.
    destruct (chain_app_itail _ _ _ _ _ _ _ Hch Hit) as (top' & Hch').
    destruct (chain_split _ _ _ _ _ Hch') as (f0 & tl0 & El & Ha & Hit0 & _).
    exists f0, tl0. split; [exact Ha|]. split; [exact Hit0|].
    assert (Heq : f0 :: tl0 = pushed ++ fs' :: tl) by (rewrite <- El, <- app_assoc; reflexivity).
    rewrite Heq. split; [|split; [|exact Hnd]].
    - intros x Hx. apply Hsub. apply in_app_or in Hx. destruct Hx as [Hx|[E|Hx]]; auto.
    - intros x Hx. destruct (Hsup x Hx) as [Hd|[Hp|[E|Ht]]]; [left; exact Hd| | |]; right; apply in_or_app.
      + left; exact Hp.
      + right; left; auto.
      + right; right; exact Ht.
  Qed.

  Lemma list_set_twice : forall {A} (l : list A) j a b, list_set (list_set l j a) j b = list_set l j b.
  Proof. induction l; intros [|j] x y; simpl; auto. f_equal. apply IHl. Qed.
End ProgS.
