(* C17 - Gallina models of the text post-processing that the LLM pipeline applies to LLM output.

   Sources modelled (line by line; Python partial operations are explicit):
     nemoguardrails/actions/llm/utils.py      get_first_nonempty_line, get_top_k_nonempty_lines,
                                              strip_quotes, get_multiline_response
     nemoguardrails/llm/output_parsers.py     _replace_prefix, verbose_v1_parser
     nemoguardrails/actions/llm/generation.py generate_user_intent / generate_next_step /
                                              generate_bot_message / generate_intent_steps_message
                                              post-processing, the multi-step shrink loop,
                                              clean_utterance_content, the general-mode quoting
     nemoguardrails/colang/v1_0/runtime/runtime.py   _process_start_flow, the `failed` rule
     nemoguardrails/colang/v2_x/runtime/runtime.py   _add_flows_action fallback
     nemoguardrails/actions/v2_x/generation.py       generate_value (literal_eval only)

   Texts are lists of Unicode code points (N).  A Python exception is an explicit [Err e];
   Python's None is [None] inside [Ok].  Definitions only (+ sanity Examples). *)
From Coq Require Import NArith List Bool String Ascii Lia.
Import ListNotations.
Open Scope N_scope.

Definition text := list N.

Fixpoint s2t (s : string) : text :=
  match s with
  | EmptyString => []
  | String c s' => N_of_ascii c :: s2t s'
  end.

Inductive exn := IndexError | TypeError | AttributeError | ValueError | AssertionError
               | ParseError | EvalError | LlmResponseError.

Inductive res (A : Type) := Ok (a : A) | Err (e : exn).
Arguments Ok {A} a.
Arguments Err {A} e.

Definition bind {A B} (r : res A) (f : A -> res B) : res B :=
  match r with Ok a => f a | Err e => Err e end.
Notation "'let!' x ':=' r 'in' k" := (bind r (fun x => k)) (at level 200, x name, right associativity).

Definition is_ok {A} (r : res A) : bool := match r with Ok _ => true | Err _ => false end.

(* ---------------------------------------------------------------- basic string operations *)

Definition NL : N := 10.
Definition QUOTE : N := 34.      (* the double quote *)
Definition COMMA : N := 44.
Definition DOLLAR : N := 36.
Definition SEMI : N := 59.
Definition SPACE : N := 32.
Definition BACKSLASH : N := 92.

(* str.isspace() of one code point (CPython 3.12 unicode database) *)
Definition is_space (c : N) : bool :=
  ((9 <=? c) && (c <=? 13)) || ((28 <=? c) && (c <=? 32)) || (c =? 133) || (c =? 160)
  || (c =? 5760) || ((8192 <=? c) && (c <=? 8202)) || (c =? 8232) || (c =? 8233)
  || (c =? 8239) || (c =? 8287) || (c =? 12288).

(* line boundaries of str.splitlines() *)
Definition is_linebreak (c : N) : bool :=
  ((10 <=? c) && (c <=? 13)) || ((28 <=? c) && (c <=? 30)) || (c =? 133) || (c =? 8232) || (c =? 8233).

Fixpoint teq (a b : text) : bool :=
  match a, b with
  | [], [] => true
  | x :: a', y :: b' => (x =? y) && teq a' b'
  | _, _ => false
  end.

Fixpoint lstrip (s : text) : text :=
  match s with
  | c :: s' => if is_space c then lstrip s' else s
  | [] => []
  end.
Definition rstrip (s : text) : text := rev (lstrip (rev s)).
Definition strip (s : text) : text := rstrip (lstrip s).

Fixpoint starts_with (p s : text) : bool :=
  match p with
  | [] => true
  | c :: p' => match s with
               | d :: s' => (c =? d) && starts_with p' s'
               | [] => false
               end
  end.
Definition ends_with (p s : text) : bool := starts_with (rev p) (rev s).

Fixpoint contains (p s : text) : bool :=
  starts_with p s || match s with [] => false | _ :: s' => contains p s' end.

Definition mem_char (c : N) (s : text) : bool := existsb (N.eqb c) s.

(* s.split(c) for a one-character separator: always at least one piece *)
Fixpoint split_char (c : N) (s : text) : text * list text :=
  match s with
  | [] => ([], [])
  | d :: s' => let '(h, t) := split_char c s' in
               if d =? c then ([], h :: t) else (d :: h, t)
  end.
Definition split_on (c : N) (s : text) : list text := let '(h, t) := split_char c s in h :: t.
Definition split_nl := split_on NL.

Fixpoint join (sep : text) (l : list text) : text :=
  match l with
  | [] => []
  | [x] => x
  | x :: l' => x ++ sep ++ join sep l'
  end.
Definition join_nl := join [NL].

(* s.split(sep)[0] for a non-empty multi-character separator: the part before the first occurrence *)
Fixpoint before_first (sep s : text) : text :=
  match s with
  | [] => []
  | c :: s' => if starts_with sep s then [] else c :: before_first sep s'
  end.

(* s.find(p): index of the first occurrence ([None] = -1) *)
Fixpoint find_from (p s : text) (i : nat) : option nat :=
  if starts_with p s then Some i else
  match s with [] => None | _ :: s' => find_from p s' (S i) end.
Definition find (p s : text) : option nat := find_from p s 0.

(* s.replace(p, r), p non-empty: non-overlapping, left to right (fuel = length, never exhausted) *)
Fixpoint replace_fuel (fuel : nat) (p r s : text) : text :=
  match fuel with
  | O => s
  | S f => match s with
           | [] => []
           | c :: s' => if starts_with p s then r ++ replace_fuel f p r (skipn (List.length p) s)
                        else c :: replace_fuel f p r s'
           end
  end.
Definition replace (p r s : text) : text := replace_fuel (S (List.length s)) p r s.

(* Python indexing s[i], i >= 0, and s[-1] *)
Definition idx {A} (l : list A) (i : nat) : res A :=
  match nth_error l i with Some x => Ok x | None => Err IndexError end.
Definition idx_last {A} (l : list A) : res A :=
  match rev l with x :: _ => Ok x | [] => Err IndexError end.
(* slices never raise *)
Definition slice_from {A} (n : nat) (l : list A) : list A := skipn n l.
Definition slice_1_m1 {A} (l : list A) : list A := removelast (skipn 1 l).   (* s[1:-1] *)
Definition truthy (s : text) : bool := negb (teq s []).

(* ---------------------------------------------------------------- literals (checked by (T)) *)
Definition P_USER : text := s2t "user ".
Definition P_BOT : text := s2t "bot ".
Definition P_USER_INTENT_V : text := s2t "User intent: ".
Definition P_BOT_INTENT_V : text := s2t "Bot intent: ".
Definition NL_USER : text := s2t (String (ascii_of_N 10) "user").
Definition FALLBACK_INTENT : text := s2t "unknown message".
Definition FALLBACK_BOT_INTENT : text := s2t "general response".
Definition FALLBACK_MESSAGE : text := s2t "I'm not sure what to say.".
Definition INTERNAL_ERROR_MESSAGE : text := s2t "I'm sorry, an internal error has occurred.".
Definition INTERNAL_ERROR_INTENT : text := s2t "inform internal error occurred".
Definition ESC_NL : text := [BACKSLASH; 110].   (* the two characters backslash, n *)

(* ---------------------------------------------------------------- utils.py *)

(* get_first_nonempty_line *)
Fixpoint first_nonempty (ls : list text) : option text :=
  match ls with
  | [] => None
  | l :: ls' => if truthy l then Some l else first_nonempty ls'
  end.
Definition get_first_nonempty_line (s : text) : res (option text) :=
  if negb (truthy s) then Ok None
  else Ok (first_nonempty (map strip (split_nl s))).

(* get_top_k_nonempty_lines (k = 2): None on the empty string *)
Definition HASH : N := 35.
Definition not_comment (l : text) : bool :=
  match l with [] => false | c :: _ => negb (c =? HASH) end.
Definition get_top_k_nonempty_lines (s : text) (k : nat) : res (option (list text)) :=
  if negb (truthy s) then Ok None
  else Ok (Some (firstn k (filter not_comment (map strip (split_nl s))))).

(* strip_quotes: `if s and s[0] == '"': if s[-1] == '"': s[1:-1] else s[1:]` *)
Definition strip_quotes (s : text) : res text :=
  if truthy s then
    let! c0 := idx s 0 in
    if c0 =? QUOTE then
      let! cl := idx_last s in
      if cl =? QUOTE then Ok (slice_1_m1 s) else Ok (slice_from 1 s)
    else Ok s
  else Ok s.

(* get_multiline_response *)
Fixpoint ml_loop (lines : list text) (result : text) : text :=
  match lines with
  | [] => result
  | l :: ls =>
      if truthy l then
        let result' := if teq result [] then l else result ++ [NL] ++ l in
        if ends_with [QUOTE] l then result' else ml_loop ls result'
      else ml_loop ls result
  end.
Definition get_multiline_response (s : text) : res text :=
  let s1 := if contains NL_USER s then before_first NL_USER s else s in
  Ok (ml_loop (map strip (split_nl s1)) []).

(* generation.py: clean_utterance_content *)
Definition clean_utterance_content (u : text) : res text :=
  if truthy u then Ok (replace ESC_NL [NL] u) else Ok u.

(* output_parsers.py *)
Definition replace_prefix (s prefix repl : text) : text :=
  if starts_with prefix s then repl ++ strip (skipn (List.length prefix) s) else s.

Definition verbose_prefixes : list (text * text * text) :=   (* prefix, prefix.lower(), repl *)
  [ (s2t "User message: ", s2t "user message: ", s2t "user ");
    (s2t "Bot message: ", s2t "bot message: ", s2t "  ");
    (s2t "User intent: ", s2t "user intent: ", s2t "  ");
    (s2t "Bot intent: ", s2t "bot intent: ", s2t "bot ") ].
Definition verbose_line (l : text) : text :=
  fold_left (fun acc '(p, pl, r) => replace_prefix (replace_prefix acc p r) pl r) verbose_prefixes (strip l).
Definition verbose_v1_parser (s : text) : res text :=
  Ok (join_nl (map verbose_line (split_nl s))).

(* ---------------------------------------------------------------- generation.py, per call *)

(* generate_user_intent: the text -> the UserIntent *)
Definition user_intent_post (result : text) : res text :=
  let! fl := get_first_nonempty_line result in
  let ui := match fl with None => FALLBACK_INTENT | Some l => l end in
  Ok (if starts_with P_USER ui then skipn 5 ui else ui).

(* generate_next_step, single-step branch: the text -> the BotIntent *)
Definition next_step_post (result : text) : res text :=
  let! fl := get_first_nonempty_line result in
  match fl with
  | Some r =>
      if starts_with P_BOT r then
        let bi := skipn 4 r in
        let! bi1 := if mem_char QUOTE bi then (let! h := idx (split_on QUOTE bi) 0 in Ok (strip h)) else Ok bi in
        let! bi2 := if mem_char COMMA bi1 then (let! h := idx (split_on COMMA bi1) 0 in Ok (strip h)) else Ok bi1 in
        Ok bi2
      else Ok FALLBACK_BOT_INTENT
  | None => Ok FALLBACK_BOT_INTENT
  end.

(* generate_bot_message.  [predefined] = bot_intent in config.bot_messages; [ctx_has v] = the
   context has variable v.  The three sources of the utterance: *)
Inductive utter_source := Predefined | FromContext (var : text) | FromLLMCall.
Definition bot_message_source (predefined : text -> bool) (ctx_has : text -> bool) (bot_intent : text)
  : res utter_source :=
  if predefined bot_intent then Ok Predefined
  else
    let! c0 := idx bot_intent 0 in            (* `bot_intent[0] == "$"`: IndexError on "" *)
    if (c0 =? DOLLAR) && ctx_has (skipn 1 bot_intent) then Ok (FromContext (skipn 1 bot_intent))
    else Ok FromLLMCall.

(* ... the LLM branch: get_multiline_response, strip_quotes, clean / fallback *)
Definition bot_message_post (result : text) : res text :=
  let! r1 := get_multiline_response result in
  let! r2 := strip_quotes r1 in
  if truthy r2 then clean_utterance_content r2 else Ok FALLBACK_MESSAGE.

(* general mode (no dialog rails) and the no-user-messages branch of the single call *)
Definition general_post (result : text) : res text :=
  let t := strip result in
  Ok (if starts_with [QUOTE] t then slice_1_m1 t else t).

(* generate_intent_steps_message (single call): (user intent, bot intent, bot message) *)
Definition single_call_post (result : text) : res (text * text * text) :=
  let! top := get_top_k_nonempty_lines result 2 in
  match top with
  | None => Err TypeError                         (* len(None) *)
  | Some lines =>
      let user_intent := nth_error lines 0 in
      let bot_intent := nth_error lines 1 in
      let! bot_message :=
        match bot_intent with
        | Some bi =>
            if truthy bi then
              match find bi result with
              | Some pos =>
                  let! m1 := get_multiline_response (skipn (pos + List.length bi) result) in
                  let! m2 := strip_quotes m1 in
                  Ok (if truthy m2 && teq (strip m2) [] then None else Some m2)
              | None => Ok None
              end
            else Ok None
        | None => Ok None
        end in
      let ui := match user_intent with
                | Some u => if truthy u then
                              (if starts_with P_USER u then skipn 5 u
                               else if starts_with P_USER_INTENT_V u then skipn 13 u else u)
                            else FALLBACK_INTENT
                | None => FALLBACK_INTENT
                end in
      let bi := match bot_intent with
                | Some b => if truthy b && starts_with P_BOT b then skipn 4 b
                            else if truthy b && starts_with P_BOT_INTENT_V b then skipn 12 b
                            else FALLBACK_BOT_INTENT
                | None => FALLBACK_BOT_INTENT
                end in
      let bm := match bot_message with
                | Some m => if truthy m then m else FALLBACK_MESSAGE
                | None => FALLBACK_MESSAGE
                end in
      Ok (ui, bi, bm)
  end.

(* ---------------------------------------------------------------- multi-step generation *)

(* textwrap.indent(body, prefix): prefix added to every line that is not whitespace-only;
   lines are those of str.splitlines(keepends=True) *)
Fixpoint splitlines_keep_aux (s : text) (cur : text) : list text :=
  match s with
  | [] => match cur with [] => [] | _ => [rev cur] end
  | c :: s' =>
      if is_linebreak c then
        match c, s' with
        | 13, 10 :: s'' => rev (10 :: 13 :: cur) :: splitlines_keep_aux s'' []
        | _, _ => rev (c :: cur) :: splitlines_keep_aux s' []
        end
      else splitlines_keep_aux s' (c :: cur)
  end.
Definition splitlines_keep (s : text) : list text := splitlines_keep_aux s [].
Definition indent (prefix body : text) : text :=
  List.concat (map (fun l => if truthy (strip l) then prefix ++ l else l) (splitlines_keep body)).

Definition wrap_flow (flow_id body : text) : text :=
  s2t "define flow " ++ flow_id ++ s2t ":" ++ [NL] ++ indent (s2t "  ") body.

Inductive next_step_outcome :=
| GeneralResponse                       (* BotIntent "general response" *)
| StartFlow (body_lines : list text).   (* start_flow event with flow_body = join lines *)

Section Shrink.
  (* the validation of one candidate (the Colang parser is an oracle): true = accepted *)
  Variable accepts : list text -> bool.

  (* one iteration of the `while True` loop: Some outcome = loop left, None = continue with shorter *)
  Definition shrink_step (lines : list text) : next_step_outcome + list text :=
    if accepts lines then inl (StartFlow lines)
    else if Nat.eqb (List.length lines) 1 then inl GeneralResponse
    else inr (removelast lines).

  (* fuelled loop; None = fuel exhausted (shown impossible with fuel = length lines) *)
  Fixpoint shrink_fuel (fuel : nat) (lines : list text) : option next_step_outcome :=
    match fuel with
    | O => None
    | S f => match shrink_step lines with
             | inl o => Some o
             | inr lines' => shrink_fuel f lines'
             end
    end.
End Shrink.

(* what generate_next_step validates for a candidate list of lines, given the parser oracle
   [parse : text -> res nat] (number of flows in the parsed file, or an exception).
   [validate_wrapped] is read from the source by the translator: does the validation parse the
   same wrapped text the runtime parses (and insist on exactly one flow)? *)
Section MultiStep.
  Variable parse : text -> res nat.
  Variable validate_wrapped : bool.
  Variable flow_id : text.

  Definition blank (s : text) : bool := teq (strip s) [].

  Definition gen_accepts (probe_id : text) (lines : list text) : bool :=
    let body := join_nl lines in
    if validate_wrapped then
      negb (blank body) &&
      match parse (wrap_flow probe_id body) with Ok n => Nat.eqb n 1 | Err _ => false end
    else is_ok (parse body).

  (* runtime.py _process_start_flow, up to the parse + assert (what follows is the interpreter) *)
  Definition process_start_flow_parse (body : text) : res unit :=
    let! n := parse (wrap_flow flow_id body) in
    if Nat.eqb n 1 then Ok tt else Err AssertionError.

  (* `result.split("\n")[:MAX]`: only the first max_lines lines are considered (0 = no cap) *)
  Definition cap_lines (max_lines : nat) (lines : list text) : list text :=
    match max_lines with O => lines | S _ => firstn max_lines lines end.

  Definition multi_step_post (probe_id : text) (max_lines : nat) (result : text) : option next_step_outcome :=
    let lines := cap_lines max_lines (split_nl result) in
    shrink_fuel (gen_accepts probe_id) (List.length lines) lines.
End MultiStep.

(* ---------------------------------------------------------------- v1 runtime containment *)

(* action_dispatcher.execute_action + runtime._process_start_action: an exception inside an
   action (other than LLMCallException) becomes status "failed", and "failed" becomes the three
   internal-error events.  [A] = the action's result type. *)
Inductive event :=
| EBotIntent (intent : text)
| EStartUtterance (script : text)
| EHidePrevTurn
| EOther (name : text).

Definition internal_error_events : list event :=
  [EBotIntent INTERNAL_ERROR_INTENT; EStartUtterance INTERNAL_ERROR_MESSAGE; EHidePrevTurn].

Inductive status := Success | Failed.
Definition execute_action {A} (r : res A) : option A * status :=
  match r with Ok a => (Some a, Success) | Err _ => (None, Failed) end.
Definition process_start_action {A} (events_of : A -> list event) (r : res A) : list event :=
  match execute_action r with
  | (Some a, Success) => events_of a
  | _ => internal_error_events
  end.

(* the reply of a turn from its events (llmrails.generate_async, Colang 1.0 branch) *)
Definition scripts (evs : list event) : list text :=
  flat_map (fun e => match e with EStartUtterance s => [s] | _ => [] end) evs.
Definition reply_of (evs : list event) : text := join_nl (scripts evs).

(* ---------------------------------------------------------------- v2: AddFlowsAction fallback *)
Fixpoint split1_at (c : N) (s : text) : option (text * text) :=
  match s with
  | [] => None
  | d :: s' => if d =? c then Some ([], s')
               else match split1_at c s' with Some (h, t) => Some (d :: h, t) | None => None end
  end.

Section AddFlows.
  Variable parse2 : text -> res (list text).     (* names of the parsed flows, or an exception *)

  Definition split1_space (s : text) : list text :=     (* s.split(" ", maxsplit=1) *)
    match split1_at SPACE s with Some (h, t) => [h; t] | None => [s] end.

  Definition fallback_flow (flow_name : text) : text :=
    s2t "flow " ++ flow_name ++ [NL] ++ s2t "  bot say ""Internal error on flow `" ++ flow_name ++ s2t "`.""".

  Definition add_flows_action (content : text) : res (list text) :=
    match parse2 content with
    | Ok fl => Ok fl
    | Err _ =>
        let! l0 := idx (split_nl content) 0 in
        let! flow_name := idx (split1_space l0) 1 in      (* IndexError: no space in the first line *)
        parse2 (fallback_flow flow_name)                  (* not protected: may raise again *)
    end.
End AddFlows.

(* ---------------------------------------------------------------- v2: generate_value *)
Section Value.
  Variable V : Type.
  Variable literal_eval : text -> res V.    (* ast.literal_eval: literals only, raises otherwise *)

  Definition rstrip_semi (v : text) : text := if ends_with [SEMI] v then removelast v else v.

  (* `value = result.strip().split("\n")[0]`, drop a final ";", remove the last prompt line,
     strip, literal_eval; any exception becomes Exception("Invalid LLM response") *)
  Definition generate_value_v2 (last_prompt_line result : text) : res V :=
    let! v0 := idx (split_nl (strip result)) 0 in
    let v1 := rstrip_semi v0 in
    let v2 := strip (if truthy last_prompt_line then replace last_prompt_line [] v1 else v1) in
    match literal_eval v2 with Ok v => Ok v | Err _ => Err ValueError end.

  Definition generate_value_v1 (result : text) : res V :=
    let! v0 := idx (split_nl (strip result)) 0 in
    literal_eval (rstrip_semi v0).
End Value.

(* ---------------------------------------------------------------- bot intent `$name`: the utterance taken from the context *)

(* what a context variable can hold, as far as generate_bot_message is concerned *)
Inductive ctxval :=
| CStr (s : text)
| CNonStr (is_truthy : bool).      (* a dict / list / number / None ...: anything that is not a str *)

(* `bot_utterance = context[name]; if bot_utterance: clean_utterance_content(..) else: fallback`.
   [clean_guarded] = clean_utterance_content only touches str values (it does NOT in the source:
   `.replace` on a non-str raises AttributeError, inside the action).  The result is the `text`
   field of the BotMessage event: a str ([inl]) or the non-str object itself ([inr tt]). *)
Definition ctx_utterance (clean_guarded : bool) (v : ctxval) : res (text + unit) :=
  match v with
  | CStr s => if truthy s then (let! c := clean_utterance_content s in Ok (inl c)) else Ok (inl FALLBACK_MESSAGE)
  | CNonStr true => if clean_guarded then Ok (inr tt) else Err AttributeError
  | CNonStr false => Ok (inl FALLBACK_MESSAGE)
  end.

(* ---------------------------------------------------------------- v2: which generated values are kept *)

Inductive atom := AStr | AInt | AFloat | ABool | ANoneV | ABytes | AComplex | AEllipsis.
Inductive pyv :=
| PAtom (a : atom)
| PSeq (items : list pyv)                (* list / tuple / set / frozenset *)
| PDict (kvs : list (pyv * pyv)).

(* what the state of a conversation can hold (serialization.encode_to_dict + json) *)
Definition atom_storable (a : atom) : bool :=
  match a with ABytes | AComplex | AEllipsis => false | _ => true end.

(* every atom of a value, dict KEYS included *)
Fixpoint atoms (v : pyv) : list atom :=
  match v with
  | PAtom a => [a]
  | PSeq l => (fix go (l : list pyv) : list atom := match l with [] => [] | x :: r => atoms x ++ go r end) l
  | PDict kvs => (fix go (l : list (pyv * pyv)) : list atom :=
                    match l with [] => [] | (k, x) :: r => atoms k ++ atoms x ++ go r end) kvs
  end.

(* actions/v2_x/generation.py _is_supported_value; [check_keys] is read from the source *)
Fixpoint supported_value (check_keys : bool) (v : pyv) : bool :=
  match v with
  | PAtom a => atom_storable a
  | PSeq l => (fix go (l : list pyv) : bool :=
                 match l with [] => true | x :: r => supported_value check_keys x && go r end) l
  | PDict kvs => (fix go (l : list (pyv * pyv)) : bool :=
                    match l with
                    | [] => true
                    | (k, x) :: r => (if check_keys then supported_value check_keys k else true)
                                     && supported_value check_keys x && go r
                    end) kvs
  end.

(* ---------------------------------------------------------------- sanity *)
Example ex_fnl : get_first_nonempty_line (s2t "
   user hello  ") = Ok (Some (s2t "user hello")).
Proof. vm_compute. reflexivity. Qed.
Example ex_strip_quotes : strip_quotes (s2t """abc""") = Ok (s2t "abc").
Proof. vm_compute. reflexivity. Qed.
Example ex_next_step_empty : next_step_post (s2t "bot ""hello""") = Ok [].
Proof. vm_compute. reflexivity. Qed.
