(* C15 - model of nemoguardrails/llm/params.py::LLMParams on the SHARED LLM object.

   The LLM object is a set of attributes (name -> value; hasattr = the name is present) and,
   optionally, a `model_kwargs` dict.  Values are None or a number (the harness codes the
   values it uses as integers).

     __enter__: for param, value in altered_params.items():
                   if hasattr(llm, param):            save getattr; setattr
                   elif hasattr(llm, "model_kwargs"): save model_kwargs[param] (None if absent); set it
                   else:                              warning only
     __exit__:  for param, value in original_params.items():
                   if hasattr(llm, param):            setattr
                   elif hasattr(llm, "model_kwargs"): if param in model_kwargs: model_kwargs[param] = value

   Every LLM call is   with llm_params(llm, **altered): result = await llm_call(llm, prompt)
   i.e. three atomic steps separated by suspension points (measured on the real code: the
   LLM object reads its parameters only after at least one suspension):
       Enter (save + set)   |   Call (the LLM reads its parameters)   |   Exit (restore).
   asyncio tasks interleave at these points; a schedule is an arbitrary sequence of task ids. *)
From Coq Require Import List Bool Arith ZArith.
Import ListNotations.

Inductive pval : Type := PNone | PVal (z : Z).

Definition pval_eqb (a b : pval) : bool :=
  match a, b with
  | PNone, PNone => true
  | PVal x, PVal y => Z.eqb x y
  | _, _ => false
  end.

Definition name := nat.
Definition pmap := list (name * pval).          (* a Python dict: insertion ordered, unique keys *)

Fixpoint pget (m : pmap) (p : name) : option pval :=
  match m with
  | [] => None
  | (q, v) :: rest => if Nat.eqb q p then Some v else pget rest p
  end.

(* d[p] = v : in place when the key exists, appended otherwise *)
Fixpoint pset (m : pmap) (p : name) (v : pval) : pmap :=
  match m with
  | [] => [(p, v)]
  | (q, w) :: rest => if Nat.eqb q p then (q, v) :: rest else (q, w) :: pset rest p v
  end.

Definition keys (m : pmap) : list name := map fst m.

Record llm : Type := Llm { attrs : pmap; kwargs : option pmap }.

Definition set_attr (l : llm) (p : name) (v : pval) : llm := Llm (pset (attrs l) p v) (kwargs l).
Definition set_kw (l : llm) (kw : pmap) : llm := Llm (attrs l) (Some kw).

(* one parameter of __enter__: new object, what is saved (None = nothing saved) *)
Definition enter1 (l : llm) (p : name) (v : pval) : llm * option pval :=
  match pget (attrs l) p with
  | Some old => (set_attr l p v, Some old)
  | None =>
      match kwargs l with
      | Some kw => (set_kw l (pset kw p v),
                    Some (match pget kw p with Some old => old | None => PNone end))
      | None => (l, None)
      end
  end.

Fixpoint enter (altered : pmap) (l : llm) (saved : pmap) : llm * pmap :=
  match altered with
  | [] => (l, saved)
  | (p, v) :: rest =>
      let '(l', s) := enter1 l p v in
      enter rest l' (match s with Some old => pset saved p old | None => saved end)
  end.

(* one parameter of __exit__ *)
Definition restore1 (l : llm) (p : name) (v : pval) : llm :=
  match pget (attrs l) p with
  | Some _ => set_attr l p v
  | None =>
      match kwargs l with
      | Some kw => match pget kw p with Some _ => set_kw l (pset kw p v) | None => l end
      | None => l
      end
  end.

Fixpoint exit_ (saved : pmap) (l : llm) : llm :=
  match saved with
  | [] => l
  | (p, v) :: rest => exit_ rest (restore1 l p v)
  end.

(* the object a call is meant to see: the configured one with its own parameters applied *)
Definition with_params (altered : pmap) (l : llm) : llm := fst (enter altered l []).

(* a parameter has a proper place: an attribute, or an existing model_kwargs entry, or there
   is no place at all (then nothing is touched) *)
Definition placed (l : llm) (p : name) : Prop :=
  pget (attrs l) p <> None \/
  (exists kw, kwargs l = Some kw /\ pget kw p <> None) \/
  (pget (attrs l) p = None /\ kwargs l = None).

Definition normal (l : llm) (altered : pmap) : Prop :=
  NoDup (keys altered) /\ Forall (placed l) (keys altered).

(* ---- tasks on the shared object ---- *)
Inductive pop : Type :=
| OEnter (altered : pmap)
| OCall
| OExit.

Record window : Type := Window { w_altered : pmap; w_saved : pmap }.

Record pstate : Type := PState { p_llm : llm; p_open : nat -> list window }.   (* per task: open managers, innermost first *)

Definition pupd (f : nat -> list window) (t : nat) (v : list window) : nat -> list window :=
  fun x => if Nat.eqb x t then v else f x.

(* observation of a call: who, with which own parameters, what the LLM object looked like *)
Record pobs : Type := PObs { po_task : nat; po_own : pmap; po_seen : llm }.

(* None = the step is not enabled (exit without an open manager) *)
Definition pstep (st : pstate) (t : nat) (o : pop) : option (pstate * option pobs) :=
  match o with
  | OEnter alt =>
      let '(l', sv) := enter alt (p_llm st) [] in
      Some (PState l' (pupd (p_open st) t (Window alt sv :: p_open st t)), None)
  | OCall =>
      let own := match p_open st t with w :: _ => w_altered w | [] => [] end in
      Some (st, Some (PObs t own (p_llm st)))
  | OExit =>
      match p_open st t with
      | w :: rest => Some (PState (exit_ (w_saved w) (p_llm st)) (pupd (p_open st) t rest), None)
      | [] => None
      end
  end.

Definition pinit (l : llm) : pstate := PState l (fun _ => []).

(* programs: a task is a list of calls, each with its altered parameters *)
Definition call_ops (alt : pmap) : list pop := [OEnter alt; OCall; OExit].
Definition task_ops (calls : list pmap) : list pop := flat_map call_ops calls.

Record sys : Type := Sys { s_st : pstate; s_prog : nat -> list pop }.

Definition supd (f : nat -> list pop) (t : nat) (v : list pop) : nat -> list pop :=
  fun x => if Nat.eqb x t then v else f x.

(* task t performs its next atomic step (nothing happens when it has finished) *)
Definition sstep (s : sys) (t : nat) : sys * option pobs :=
  match s_prog s t with
  | [] => (s, None)
  | o :: rest =>
      match pstep (s_st s) t o with
      | Some (st', ob) => (Sys st' (supd (s_prog s) t rest), ob)
      | None => (s, None)
      end
  end.

Fixpoint srun (sched : list nat) (s : sys) : sys * list pobs :=
  match sched with
  | [] => (s, [])
  | t :: rest =>
      let '(s1, ob) := sstep s t in
      let '(s2, log) := srun rest s1 in
      (s2, match ob with Some x => x :: log | None => log end)
  end.

Definition sinit (l : llm) (tasks : nat -> list pmap) : sys :=
  Sys (pinit l) (fun t => task_ops (tasks t)).

(* no request in flight *)
Definition quiescent (s : sys) : Prop := forall t, p_open (s_st s) t = [].

(* a serial schedule: every call's three steps run back to back *)
Inductive serial : list nat -> Prop :=
| serial_nil : serial []
| serial_call : forall t rest, serial rest -> serial (t :: t :: t :: rest).

(* ---- decidable comparison, for the trace check ---- *)
Fixpoint pmap_eqb (a b : pmap) : bool :=
  match a, b with
  | [], [] => true
  | (p, v) :: a', (q, w) :: b' => Nat.eqb p q && pval_eqb v w && pmap_eqb a' b'
  | _, _ => false
  end.

Definition llm_eqb (a b : llm) : bool :=
  pmap_eqb (attrs a) (attrs b) &&
  match kwargs a, kwargs b with
  | None, None => true
  | Some x, Some y => pmap_eqb x y
  | _, _ => false
  end.

(* one logged step of the real code: task, operation, the LLM object right after it *)
Definition plog := (nat * pop * llm)%type.

Fixpoint check_psteps (st : pstate) (log : list plog) : bool :=
  match log with
  | [] => true
  | (t, o, seen) :: rest =>
      match pstep st t o with
      | Some (st', _) => llm_eqb (p_llm st') seen && check_psteps st' rest
      | None => false
      end
  end.

Definition check_ptrace (c : llm * list plog) : bool := check_psteps (pinit (fst c)) (snd c).

(* ---- sanity ---- *)
Example enter_exit_attr :
  let l := Llm [(0, PVal 500)] None in
  let '(l', sv) := enter [(0, PVal 200)] l [] in
  l' = Llm [(0, PVal 200)] None /\ sv = [(0, PVal 500)] /\ exit_ sv l' = l.
Proof. repeat split. Qed.

(* tests/test_llm_params.py::TestLLMParamsWithEmptyModelKwargs::test_exit pins this *)
Example enter_exit_absent_kwarg :
  let l := Llm [] (Some []) in
  let '(l', sv) := enter [(1, PVal 7)] l [] in
  l' = Llm [] (Some [(1, PVal 7)]) /\ sv = [(1, PNone)] /\ exit_ sv l' = Llm [] (Some [(1, PNone)]).
Proof. repeat split. Qed.
