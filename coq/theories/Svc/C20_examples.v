(* C20 - non-vacuity examples (hypotheses of the theorems are inhabited by non-trivial
   states) and what the weakened variants of the source would allow. *)
From Coq Require Import List NArith Bool String Ascii.
From NG Require Import Gen.C20Consts Svc.Path Svc.Threads Svc.PathRun Svc.C20_now.
Import ListNotations.
Open Scope N_scope.

Definition s2l (s : string) : nstr := List.map N_of_ascii (list_ascii_of_string s).

(* the shipped pattern [\\/]|(\.\.) written out: used for examples that must not depend on
   the generated value *)
Definition shipped_pattern : list (list (list N)) := [[[92; 47]]; [[46]; [46]]].

Example reject_fires_on_dotdot_shipped :
  Path.re_search N N.eq_dec shipped_pattern [dotN; dotN] = true.
Proof. reflexivity. Qed.

(* accepted: a plain id under a root given relative to the working directory *)
Example accept_plain :
  get_rails_path_now (abspathN (s2l "/work") (s2l "srv/../srv//cfgs/")) (s2l "cfgA")
  = Accept (s2l "/work/srv/cfgs/cfgA").
Proof. vm_compute. reflexivity. Qed.

(* "" and "." name the root itself *)
Example accept_root :
  get_rails_path_now (s2l "/srv/cfgs") [] = Accept (s2l "/srv/cfgs")
  /\ get_rails_path_now (s2l "/srv/cfgs") (s2l ".") = Accept (s2l "/srv/cfgs").
Proof. split; vm_compute; reflexivity. Qed.

(* percent-encodings and look-alike characters are ordinary letters: a child of the root *)
Example accept_opaque_letters :
  get_rails_path_now (s2l "/srv/cfgs") (s2l "%2e%2e%2fetc") = Accept (s2l "/srv/cfgs/%2e%2e%2fetc")
  /\ get_rails_path_now (s2l "/srv/cfgs") [65294; 65294; 65295; 120]
     = Accept (s2l "/srv/cfgs/" ++ [65294; 65294; 65295; 120]).
Proof. split; vm_compute; reflexivity. Qed.

Example reject_examples :
  get_rails_path_now (s2l "/srv/cfgs") (s2l "../cfgs-evil") = Reject
  /\ get_rails_path_now (s2l "/srv/cfgs") (s2l "/srv/cfgs-evil") = Reject
  /\ get_rails_path_now (s2l "/srv/cfgs") (s2l "..") = Reject
  /\ get_rails_path_now (s2l "/srv/cfgs") (s2l "a/../b") = Reject.
Proof. repeat split; vm_compute; reflexivity. Qed.

(* the shipped pattern also rejects a backslash (not a separator on POSIX) *)
Example reject_backslash_shipped :
  Path.get_rails_path N N.eq_dec sepN dotN shipped_pattern true (s2l "/srv/cfgs") (s2l "a\b") = Reject.
Proof. vm_compute. reflexivity. Qed.

(* WITHOUT the reject test the commonprefix test alone lets a sibling directory through
   (relative and absolute form): the quirk is a real escape for that hypothetical source *)
Example prefix_check_alone_escapes :
  Path.get_rails_path N N.eq_dec sepN dotN [] true (s2l "/srv/cfgs") (s2l "../cfgs-evil")
  = Accept (s2l "/srv/cfgs-evil")
  /\ Path.get_rails_path N N.eq_dec sepN dotN [] true (s2l "/srv/cfgs") (s2l "/srv/cfgs-evil/x")
     = Accept (s2l "/srv/cfgs-evil/x").
Proof. split; vm_compute; reflexivity. Qed.

(* WITHOUT the ".." alternative the commonprefix test still stops "..": confinement does not
   depend on that alternative as long as the commonprefix test is there *)
Example dotdot_stopped_by_prefix_check :
  Path.get_rails_path N N.eq_dec sepN dotN [[[92; 47]]] true (s2l "/srv/cfgs") (s2l "..") = Reject
  /\ Path.get_rails_path N N.eq_dec sepN dotN [[[92; 47]]] false (s2l "/srv/cfgs") (s2l "..")
     = Accept (s2l "/srv").
Proof. split; vm_compute; reflexivity. Qed.

(* a request sequence over two threads and one request without thread, concrete oracles of
   PathRun.v: the final datastore holds each thread's own turns *)
Definition tidA : nstr := s2l "aaaaaaaaaaaaaaaa".
Definition tidB : nstr := s2l "aaaaaaaaaaaaaaaab".
Definition rq (tid : option nstr) (ms : list N) : request N N :=
  {| r_ids := [s2l "cfgA"]; r_thread := tid; r_context := None; r_messages := ms |}.
Definition demo_run :=
  Threads.run N N.eq_dec sepN dotN cache_key_joiner N reject_pattern prefix_check_present
              thread_prefix (N.to_nat min_thread_id_len) (s2l "/srv/cfgs") None None load_ok_c llm_c
              {| s_cache := []; s_store := [] |}
              [rq (Some tidA) [1]; rq (Some tidB) [2]; rq None [3]; rq (Some tidA) [4; 5]].

Example demo_threads :
  let st := fst demo_run in
  exists a1 b1 a2,
    Threads.thread N N.eq_dec N (s_store N N st) (thread_prefix ++ tidA) = [1; a1; 4; 5; a2]
    /\ Threads.thread N N.eq_dec N (s_store N N st) (thread_prefix ++ tidB) = [2; b1]
    /\ List.length (s_store N N st) = 2%nat
    /\ List.map (fun o => o_loads N N o) (snd demo_run) = [[s2l "/srv/cfgs/cfgA"]; []; []; []].
Proof. vm_compute. do 3 eexists. repeat split. Qed.
