(* C12 (Colang 2.x) - what an expanded flow looks like as far as closedness is concerned.

   `elem` abstracts one element of FlowConfig.elements AFTER expand_elements
   (statemachine.initialize_flow) to the part that decides where a head can go next:
   labels, jumps, fork / merge / wait, failure handlers, loop exits, scopes.  Everything that
   `slide` merely steps over is EPlain, an element on which a head stops and which can fail
   (match; send of an action event) is EBlock, and anything that must not be left after
   expansion (if/while/when, start/await/activate/deactivate/stop, a send/match on a group,
   a class `slide` does not know) is EComposite.

   The semantics is that of ONE head token: position, the scopes the head has open, and its
   stack of failure-handler labels; it transcribes the corresponding cases of
   statemachine.slide (and the two places in run_to_completion/_resolve_action_conflicts that
   move a failing head to element_labels[catch_pattern_failure_label[-1]]).
   Definitions only. *)
From Coq Require Import List String Bool Arith.
Import ListNotations.
Open Scope string_scope.

Inductive elem :=
| ELabel (n : string)
| EGoto (l : string) (conditional : bool)     (* conditional = expression is not the literal True *)
| EFork (uid : string) (ls : list string)
| EMerge (uid : string)
| EWait
| ECatch (l : option string)                  (* CatchPatternFailure: push label / pop *)
| EBreak (l : option string)
| EContinue (l : option string)
| EBegin (n : string)
| EEnd (n : string)
| EAbort
| EReturn
| EBlock
| EPlain (cls : string)
| EComposite (what : string).

(* head token: position, open scopes (head.scope_uids), failure handler stack (top first) *)
Definition config := (nat * list string * list string)%type.
Definition init : config := (0, [], []).

Inductive err :=
| XLabel (l : string)             (* element_labels[l] fails / "Invalid label" *)
| XScopeReopened (n : string)     (* "Scope with name .. already opened in this head!" *)
| XScopeUnknown (n : string)      (* "Scope with name .. does not exist!" *)
| XScopeLeftOpen (ns : list string) (* flow end reached with an open scope *)
| XCatchEmpty                     (* catch_pattern_failure_label.pop(-1) on an empty list *)
| XNoLoopTarget                   (* Break / Continue left with label=None: a loop exit / loop head
                                     jump that refers to nothing (slide() silently skips it) *)
| XComposite (what : string).

(* initialize_flow: element_labels.update({name: idx}) in order - the LAST definition wins *)
Fixpoint lbl_from (l : string) (es : list elem) (i : nat) : option nat :=
  match es with
  | [] => None
  | e :: r => match lbl_from l r (S i) with
              | Some k => Some k
              | None => match e with
                        | ELabel n => if String.eqb n l then Some i else None
                        | _ => None
                        end
              end
  end.
Definition lbl (es : list elem) (l : string) : option nat := lbl_from l es 0.

Definition mem (n : string) (l : list string) : bool := existsb (String.eqb n) l.
Definition remove_s (n : string) (l : list string) : list string :=
  filter (fun x => negb (String.eqb n x)) l.

(* elements over which a head simply moves to the next position (for EBlock: the success case) *)
Definition sequential (e : elem) : bool :=
  match e with
  | ELabel _ | EMerge _ | EWait | EPlain _ | EBlock => true
  | _ => false
  end.

Section Sem.
  Variable es : list elem.

  Inductive step : config -> config -> Prop :=
  | S_seq p sc ct e :
      nth_error es p = Some e -> sequential e = true -> step (p, sc, ct) (S p, sc, ct)
  | S_goto_taken p sc ct l c k :
      nth_error es p = Some (EGoto l c) -> lbl es l = Some k -> step (p, sc, ct) (S k, sc, ct)
  | S_goto_skip p sc ct l :
      nth_error es p = Some (EGoto l true) -> step (p, sc, ct) (S p, sc, ct)
  | S_fork p sc ct u ls l k :
      nth_error es p = Some (EFork u ls) -> In l ls -> lbl es l = Some k ->
      step (p, sc, ct) (S k, sc, ct)
  | S_catch_push p sc ct l :
      nth_error es p = Some (ECatch (Some l)) -> step (p, sc, ct) (S p, sc, l :: ct)
  | S_catch_pop p sc ct l :
      nth_error es p = Some (ECatch None) -> step (p, sc, l :: ct) (S p, sc, ct)
  | S_break p sc ct l k :
      nth_error es p = Some (EBreak (Some l)) -> lbl es l = Some k -> step (p, sc, ct) (S k, sc, ct)
  | S_continue p sc ct l k :
      nth_error es p = Some (EContinue (Some l)) -> lbl es l = Some k -> step (p, sc, ct) (S k, sc, ct)
  | S_begin p sc ct n :
      nth_error es p = Some (EBegin n) -> mem n sc = false -> step (p, sc, ct) (S p, n :: sc, ct)
  | S_end p sc ct n :
      nth_error es p = Some (EEnd n) -> mem n sc = true -> step (p, sc, ct) (S p, remove_s n sc, ct)
  | S_abort_caught p sc ct l k :
      nth_error es p = Some EAbort -> lbl es l = Some k -> step (p, sc, l :: ct) (S k, sc, l :: ct)
  | S_return p sc ct :
      nth_error es p = Some EReturn -> step (p, sc, ct) (List.length es, sc, ct)
  | S_block_failed p sc ct l k :
      nth_error es p = Some EBlock -> lbl es l = Some k -> step (p, sc, l :: ct) (S k, sc, l :: ct).

  Inductive fails : config -> err -> Prop :=
  | F_goto p sc ct l c : nth_error es p = Some (EGoto l c) -> lbl es l = None -> fails (p, sc, ct) (XLabel l)
  | F_fork p sc ct u ls l :
      nth_error es p = Some (EFork u ls) -> In l ls -> lbl es l = None -> fails (p, sc, ct) (XLabel l)
  | F_break p sc ct l :
      nth_error es p = Some (EBreak (Some l)) -> lbl es l = None -> fails (p, sc, ct) (XLabel l)
  | F_continue p sc ct l :
      nth_error es p = Some (EContinue (Some l)) -> lbl es l = None -> fails (p, sc, ct) (XLabel l)
  | F_abort p sc ct l :
      nth_error es p = Some EAbort -> lbl es l = None -> fails (p, sc, l :: ct) (XLabel l)
  | F_block p sc ct l :
      nth_error es p = Some EBlock -> lbl es l = None -> fails (p, sc, l :: ct) (XLabel l)
  | F_break_none p sc ct : nth_error es p = Some (EBreak None) -> fails (p, sc, ct) XNoLoopTarget
  | F_continue_none p sc ct : nth_error es p = Some (EContinue None) -> fails (p, sc, ct) XNoLoopTarget
  | F_catch_pop p sc : nth_error es p = Some (ECatch None) -> fails (p, sc, []) XCatchEmpty
  | F_begin p sc ct n :
      nth_error es p = Some (EBegin n) -> mem n sc = true -> fails (p, sc, ct) (XScopeReopened n)
  | F_end p sc ct n :
      nth_error es p = Some (EEnd n) -> mem n sc = false -> fails (p, sc, ct) (XScopeUnknown n)
  | F_left_open p sc ct :
      nth_error es p = None -> sc <> [] -> fails (p, sc, ct) (XScopeLeftOpen sc)
  | F_composite p sc ct w :
      nth_error es p = Some (EComposite w) -> fails (p, sc, ct) (XComposite w).

  Inductive reach : config -> Prop :=
  | reach_init : reach init
  | reach_step c c' : reach c -> step c c' -> reach c'.
End Sem.

(* the Python class an element kind stands for (tie to the isinstance chain of slide()) *)
Definition kind_class (e : elem) : string :=
  match e with
  | ELabel _ => "Label" | EGoto _ _ => "Goto" | EFork _ _ => "ForkHead" | EMerge _ => "MergeHeads"
  | EWait => "WaitForHeads" | ECatch _ => "CatchPatternFailure" | EBreak _ => "Break"
  | EContinue _ => "Continue" | EBegin _ => "BeginScope" | EEnd _ => "EndScope"
  | EAbort => "Abort" | EReturn => "Return" | EBlock => "SpecOp" | EPlain c => c
  | EComposite w => w
  end.

(* raw parse-tree leftovers (doc strings, `pass`, empty statements) that slide()'s final else
   ("ignore unknown element") steps over *)
Definition ignored : string := "<ignored>".

(* classes the loader may map to EPlain *)
Definition plain_classes : list string :=
  ["SpecOp"; "Assignment"; "Log"; "Print"; "Priority"; "Global"].
